(* Props/C14.v — C14: only sshuttle's own marked lines in the hosts file ever
   change.  Statements only; proofs are in Proofs/HostsFile_lemmas.v. *)
From Coq Require Import List NArith Ascii Bool Permutation Sorted String.
From SV Require Import Lib.Bytes Gen.Consts Model.HostsFile Proofs.HostsFile_lemmas Proofs.HostsFile_hist_lemmas.
Import ListNotations.
Local Open Scope N_scope.

(* (0) What exactly is normalised.  The code works on
       old_content.rstrip().split('\n') of the text-mode content; line-wise this is:
       trailing all-white-space lines are dropped, the last remaining line loses its
       trailing white space, and nothing at all (empty / missing / blank file) is one
       empty line.  Nothing else of the old file is normalised. *)
Theorem c14_normalisation : forall c, norm_lines c = rstrip_lines (split_nl c).
Proof. exact norm_lines_rstrip_lines. Qed.
Print Assumptions c14_normalisation.

(* (1) One call, for ALL contents, host maps, ports, pre-existing backup/temporary files,
       with or without working hard links: it terminates without exception, and the new
       file is, byte for byte, the old lines (normalised as in (0)) that do not contain
       the marker of this port, in order, followed by one marked line per map entry in
       sorted order, each line terminated by '\n'; owner and mode are those of the old
       file (root, 0644 if it was missing); the temporary is gone. *)
Theorem c14_rewrite : forall port hm s,
  let '(i, s', _) := rewrite_fs port hm s in
  let old_lines := norm_lines (univ_nl (hosts_data s)) in
  i_pc i = AtDone /\
  fs_get (PTmp port) s' = None /\
  exists f, fs_get PHosts s' = Some f /\
    f_data f = unlines (filter (fun l => negb (has_marker port l)) old_lines
                        ++ map (marked_line port) (sort_entries hm)) /\
    (f_uid f, f_gid f, f_mode f) = meta_of (fs_get PHosts s).
Proof. exact rewrite_fs_spec. Qed.
Print Assumptions c14_rewrite.

Theorem c14_rewrite_sorted : forall hm,
  Permutation (sort_entries hm) hm /\ Sorted entry_le (sort_entries hm).
Proof. intros hm. split; [apply sort_entries_perm|apply sort_entries_sorted]. Qed.
Print Assumptions c14_rewrite_sorted.

(* "contains the marker" is the substring test of str.find *)
Theorem c14_has_marker_substring : forall port l,
  has_marker port l = true <-> exists a b, l = a ++ marker port ++ b.
Proof. exact has_marker_spec. Qed.
Print Assumptions c14_has_marker_substring.

(* (2) Marker injectivity: the marker text of port q occurs inside the marker text of
       port p only if q = p (1230 vs 12300: the decimal rendering is followed by " AUTOCREATED"),
       and it occurs in a marked line of port p iff q = p provided the name and the address
       contain no '#', CR or LF (C19 restricts them to [-\w.] and dotted quads). *)
Theorem c14_marker_injective : forall p q, has_marker q (marker p) = true -> q = p.
Proof. exact marker_injective. Qed.
Print Assumptions c14_marker_injective.

Theorem c14_marker_injective_line : forall p q e, entry_ok e ->
  (has_marker q (marked_line p e) = true <-> q = p).
Proof. intros p q e H. exact (marked_line_marker q p e H). Qed.
Print Assumptions c14_marker_injective_line.

(* (4) Crash atomicity: stop the call after any number k of primitives; the hosts path
       then still is the previous file (same directory entry, same inode) or the call has
       finished and it holds the complete next version.  Only `rename` changes the hosts
       path, and a step touches nothing but hosts, the backup and its own temporary. *)
Theorem c14_crash_atomic : forall port hm s k,
  let '(i, s', _) := run_k k (start port hm) s in
  fs_get PHosts s' = fs_get PHosts s \/
  (i_pc i = AtDone /\ hosts_data s' = next_version port hm s).
Proof. exact crash_atomic. Qed.
Print Assumptions c14_crash_atomic.

(* (4b) A later call after a crashed one.  Stop a call of port `port` after any number k of
       primitives (the hosts file is then the previous or the next complete version, (4));
       whatever it left behind — a backup, a temporary of any length and content — a complete
       call by the same or any other port then terminates, leaves no temporary of its own, and
       installs exactly the next version computed from the hosts file it found: nothing of a
       stale temporary survives, because open(tmpname, 'w') truncates (step, AtOpen).
       c14_rewrite already holds for EVERY file system state (any pre-existing temporary);
       this spells out the states a crash produces. *)
Theorem c14_rewrite_after_crash : forall port hm s k port2 hm2,
  let '(_, s1, _) := run_k k (start port hm) s in
  let '(i2, s2, _) := rewrite_fs port2 hm2 s1 in
  (hosts_data s1 = hosts_data s \/ hosts_data s1 = next_version port hm s) /\
  i_pc i2 = AtDone /\
  fs_get (PTmp port2) s2 = None /\
  exists f, fs_get PHosts s2 = Some f /\ f_data f = next_version port2 hm2 s1.
Proof. intros port hm s k port2 hm2. exact (rewrite_after_crash port hm s k port2 hm2). Qed.
Print Assumptions c14_rewrite_after_crash.

Theorem c14_only_rename_changes_hosts : forall i s,
  (forall q, snd (step i s) <> Some (OpRename q)) ->
  fs_get PHosts (snd (fst (step i s))) = fs_get PHosts s.
Proof. exact step_hosts_only_rename. Qed.
Print Assumptions c14_only_rename_changes_hosts.

Theorem c14_paths_touched : forall i s q,
  q <> PHosts -> q <> PBak -> q <> PTmp (i_port i) ->
  fs_get q (snd (fst (step i s))) = fs_get q s.
Proof. exact step_frame. Qed.
Print Assumptions c14_paths_touched.

(* (3) Serial histories.  For every sequence of whole calls made by any number of
       firewall helpers (HHost p name ip = "hostmap[name] = ip; rewrite_etc_hosts(hostmap, p)",
       HEnd p = "restore_etc_hosts(hostmap, p)" of firewall.main), with ports drawn from Ps and
       names/addresses free of '#', CR and LF (hop_ok; C19 supplies this):
       - the lines carrying no marker of any port in Ps are the same as in the initial file,
         in order, modulo exactly the normalisation (0) (trailing white space of the file);
       - every instance that has added a host has, as its marked lines, exactly one line per
         entry of its current map, sorted; its current map is [] after its restore
         (c14_history_bookkeeping), so then none of its lines remain; all others are intact. *)
Theorem c14_serial_histories : forall s0 Ps hs,
  Forall (hop_ok Ps) hs ->
  let c := hosts_data (fst (run_history s0 hs)) in
  let m := fold_left maps_step hs [] in
  rstrip_lines (base_of Ps (file_lines c)) = rstrip_lines (base_of Ps (file_lines (hosts_data s0))) /\
  (forall q, In q (List.map fst m) -> own_lines q c = marks q (map_of q m)).
Proof. exact serial_histories. Qed.
Print Assumptions c14_serial_histories.

Theorem c14_history_bookkeeping : forall m p name ip q h,
  map_of p (maps_step m (HHost p name ip)) = hm_set name ip (map_of p m) /\
  In p (List.map fst (maps_step m (HHost p name ip))) /\
  map_of p (maps_step m (HEnd p)) = [] /\
  (match h with HHost r _ _ => r | HEnd r => r end <> q -> map_of q (maps_step m h) = map_of q m) /\
  (In q (List.map fst m) -> In q (List.map fst (maps_step m h))).
Proof.
  intros m p name ip q h.
  split; [apply maps_step_host|]. split; [apply maps_step_started|]. split; [apply maps_step_end|].
  split; [apply maps_step_other|apply maps_step_mono].
Qed.
Print Assumptions c14_history_bookkeeping.

(* (3b) Update histories of ONE helper: "one marked line per discovered host", whatever the HOST lines
       repeat.  hm_after upd is the map firewall.main keeps over the HOST lines upd = [(name, ip); ...] in
       arrival order (hostmap[name] = ip for each, firewall.py:383-384).  For EVERY update history:
       it answers each name with the address of the LAST update of that name (a host that moved is listed
       at its new address, never at an older one), holds each updated name exactly once, and no other name. *)
Theorem c14_map_last_address : forall upd,
  (forall name, hm_get name (hm_after upd) = last_addr name upd) /\
  NoDup (List.map fst (hm_after upd)) /\
  (forall name, In name (List.map fst (hm_after upd)) <-> In name (List.map fst upd)).
Proof. exact hm_after_last. Qed.
Print Assumptions c14_map_last_address.

Theorem c14_map_entries : forall upd name ip,
  In (name, ip) (hm_after upd) <-> last_addr name upd = Some ip.
Proof. exact hm_after_entries. Qed.
Print Assumptions c14_map_entries.

(* ... and in the file: after ANY earlier history `pre` in which port p is not in a session (it never
       appeared, or its last hop was its restore), a session of port p receiving the non-empty update
       history upd (any repeats of names, same or other addresses), followed by any hops of OTHER ports,
       has as its marked lines exactly marks p (hm_after upd): one line per distinct name, carrying the
       address of the name's last update, sorted; the unmarked lines are those of the initial file. *)
Theorem c14_session_last_address : forall s0 Ps p pre upd post,
  Forall (hop_ok Ps) pre -> In p Ps -> Forall entry_ok upd -> Forall (hop_ok Ps) post ->
  map_of p (fold_left maps_step pre []) = [] ->
  Forall (fun h => match h with HHost q _ _ => q | HEnd q => q end <> p) post ->
  upd <> [] ->
  let c := hosts_data (fst (run_history s0 (pre ++ host_hops p upd ++ post))) in
  own_lines p c = marks p (hm_after upd) /\
  rstrip_lines (base_of Ps (file_lines c)) = rstrip_lines (base_of Ps (file_lines (hosts_data s0))).
Proof. exact session_last_address. Qed.
Print Assumptions c14_session_last_address.

(* non-vacuity: alpha moves from 10.0.0.1 to 10.0.0.3 while beta is discovered in between *)
Example c14_moved_host_example :
  let upd := [(bytes_of_string "alpha"%string, bytes_of_string "10.0.0.1"%string);
              (bytes_of_string "beta"%string, bytes_of_string "10.0.0.2"%string);
              (bytes_of_string "alpha"%string, bytes_of_string "10.0.0.3"%string)] in
  hm_after upd = [(bytes_of_string "alpha"%string, bytes_of_string "10.0.0.3"%string);
                  (bytes_of_string "beta"%string, bytes_of_string "10.0.0.2"%string)] /\
  hosts_data (fst (run_history f8_s0 (host_hops 12300 upd))) = bytes_of_string "127.0.0.1 localhost
10.0.0.3 alpha                 # sshuttle-firewall-12300 AUTOCREATED
10.0.0.2 beta                  # sshuttle-firewall-12300 AUTOCREATED
"%string.
Proof. vm_compute. split; reflexivity. Qed.

(* the hypothesis on names is needed: *)
Theorem c14_hostile_name_refuted : exists e, has_marker 12300 (marked_line 12301 e) = true.
Proof. exact hostile_name_confuses. Qed.
Print Assumptions c14_hostile_name_refuted.

(* (5) Two instances whose primitives interleave in every possible order.
       Full statement (interleaved_statement): once both calls have returned each instance's
       marked lines are exactly its map.  REFUTED (finding F8, no locking): *)
Definition c14_interleaved : Prop := interleaved_statement.

Theorem c14_interleaved_refuted : ~ c14_interleaved.
Proof. exact interleaved_refuted. Qed.
Print Assumptions c14_interleaved_refuted.

(* the two witnesses: read-B, [whole call of A], rest of B *)
Theorem c14_interleaved_lost_update :
  let '(a, b, s, _) := run_sched f8_sched (start 12300 f8_ma) (start 12301 f8_mb) f8_s0 in
  i_pc a = AtDone /\ i_pc b = AtDone /\
  own_lines 12300 (hosts_data s) = [] /\ marks 12300 f8_ma <> [].
Proof. exact f8_lost_update. Qed.
Print Assumptions c14_interleaved_lost_update.

Theorem c14_interleaved_resurrection :
  let '(a, b, s, _) := run_sched f8_sched (start 12300 []) (start 12301 f8_mb) f8_s1 in
  i_pc a = AtDone /\ i_pc b = AtDone /\
  own_lines 12300 (hosts_data s) <> [] /\ marks 12300 [] = [].
Proof. exact f8_resurrection. Qed.
Print Assumptions c14_interleaved_resurrection.

(* Proved instead, for ALL schedules (any length), all initial file systems, all maps:
       the hosts file at any moment is the initial content or the result of some serial
       sequence of WHOLE rewrites of the two instances (every rename installs a complete
       file; nothing half-written is ever visible) ... *)
Theorem c14_interleaved_partial : forall sched pa ma pb mb s0,
  pa <> pb ->
  let '(_, _, s, _) := run_sched sched (start pa ma) (start pb mb) s0 in
  reach pa ma pb mb (hosts_data s0) (hosts_data s).
Proof. exact interleaved_partial. Qed.
Print Assumptions c14_interleaved_partial.

(* ... hence base (unmarked) lines are never lost or altered under any interleaving,
       modulo the normalisation (0). *)
Theorem c14_interleaved_partial_base : forall sched pa ma pb mb s0 Ps,
  pa <> pb -> Forall entry_ok ma -> Forall entry_ok mb -> In pa Ps -> In pb Ps ->
  let '(_, _, s, _) := run_sched sched (start pa ma) (start pb mb) s0 in
  rstrip_lines (base_of Ps (file_lines (hosts_data s))) =
  rstrip_lines (base_of Ps (file_lines (hosts_data s0))).
Proof.
  intros sched pa ma pb mb s0 Ps Hp Hma Hmb Ha Hb.
  pose proof (interleaved_partial sched pa ma pb mb s0 Hp) as H.
  destruct (run_sched sched (start pa ma) (start pb mb) s0) as [[[a b] s] tr].
  exact (reach_base pa ma pb mb (hosts_data s0) Ps (hosts_data s) Hma Hmb Ha Hb H).
Qed.
Print Assumptions c14_interleaved_partial_base.

(* (6) Hosts files of ARBITRARY bytes.  The read is a text-mode read: the whole file is decoded (UTF-8,
       utf8_ok = what CPython's strict decoder accepts) before anything else.  For EVERY file system state,
       map and port, one call (rewrite_dec) either
       - finds the file undecodable and raises at the read: the file system is untouched - no backup, no
         temporary, the hosts file byte-identical (the helper, and with it the session, ends: firewall.main
         does not catch the error; its clean-up calls restore_etc_hosts, which raises again and IS caught,
         restore_dec) - or
       - completes and installs exactly (old lines minus own marked lines) + own marked lines, as in (1).
       So a line that does not carry this port's marker is never altered, whatever bytes it holds. *)
Theorem c14_rewrite_any_bytes : forall port hm s,
  let '(i, s', _) := rewrite_dec port hm s in
  (utf8_ok (hosts_data s) = false /\ i_pc i = AtCrash /\ s' = s) \/
  (utf8_ok (hosts_data s) = true /\ i_pc i = AtDone /\ fs_get (PTmp port) s' = None /\
   exists f, fs_get PHosts s' = Some f /\
     f_data f = unlines (filter (fun l => negb (has_marker port l)) (norm_lines (univ_nl (hosts_data s)))
                         ++ List.map (marked_line port) (sort_entries hm)) /\
     (f_uid f, f_gid f, f_mode f) = meta_of (fs_get PHosts s)).
Proof. exact rewrite_dec_spec. Qed.
Print Assumptions c14_rewrite_any_bytes.

Theorem c14_restore_any_bytes : forall port hm s,
  let '(s', _, raised) := restore_dec port hm s in
  (s' = s /\ (raised = true <-> hm <> [] /\ utf8_ok (hosts_data s) = false)) \/
  (raised = false /\ hm <> [] /\ utf8_ok (hosts_data s) = true /\
   hosts_data s' = unlines (filter (fun l => negb (has_marker port l)) (norm_lines (univ_nl (hosts_data s))))).
Proof. exact restore_dec_spec. Qed.
Print Assumptions c14_restore_any_bytes.

Theorem c14_undecodable_untouched : forall port hm s, utf8_ok (hosts_data s) = false ->
  let '(i, s', tr) := rewrite_dec port hm s in
  i_pc i = AtCrash /\ s' = s /\ tr = [OpRead true].
Proof. exact rewrite_dec_undecodable. Qed.
Print Assumptions c14_undecodable_untouched.

Theorem c14_decodable_is_rewrite : forall port hm s, utf8_ok (hosts_data s) = true ->
  rewrite_dec port hm s = rewrite_fs port hm s.
Proof. exact rewrite_dec_decodable. Qed.
Print Assumptions c14_decodable_is_rewrite.

Theorem c14_ascii_decodes : forall l, Forall (fun a => N_of_ascii a <= 127) l -> utf8_ok l = true.
Proof. exact utf8_ok_ascii. Qed.
Print Assumptions c14_ascii_decodes.

(* non-vacuity of both branches: a Latin-1 e-acute (E9) in a comment, NUL and well-formed multi-byte text *)
Example c14_decoding_examples :
  utf8_ok (bytes_of_string "# caf"%string ++ [ascii_of_N 233] ++ bytes_of_string " printer"%string) = false /\
  utf8_ok [ascii_of_N 0; ascii_of_N 195; ascii_of_N 169; ascii_of_N 226; ascii_of_N 130; ascii_of_N 172;
           ascii_of_N 240; ascii_of_N 159; ascii_of_N 152; ascii_of_N 128] = true /\
  utf8_ok [ascii_of_N 237; ascii_of_N 160; ascii_of_N 128] = false /\        (* a surrogate *)
  utf8_ok [ascii_of_N 192; ascii_of_N 128] = false /\                        (* overlong NUL *)
  utf8_ok [ascii_of_N 244; ascii_of_N 144; ascii_of_N 128; ascii_of_N 128] = false /\   (* above U+10FFFF *)
  utf8_ok [ascii_of_N 226; ascii_of_N 130] = false.                          (* cut short *)
Proof. vm_compute. repeat split. Qed.

(* non-vacuity of the history theorem: two instances, three hops, hypotheses satisfied *)
Example c14_history_example :
  let hs := [HHost 12300 (bytes_of_string "a"%string) (bytes_of_string "10.0.0.1"%string);
             HHost 1230 (bytes_of_string "b"%string) (bytes_of_string "10.0.0.2"%string);
             HEnd 12300] in
  Forall (hop_ok [12300; 1230]) hs /\
  hosts_data (fst (run_history f8_s0 hs)) = bytes_of_string "127.0.0.1 localhost
10.0.0.2 b                     # sshuttle-firewall-1230 AUTOCREATED
"%string.
Proof.
  split; [|vm_compute; reflexivity].
  constructor; [split; [left; reflexivity|apply entry_ok_b; vm_compute; reflexivity]|].
  constructor; [split; [right; left; reflexivity|apply entry_ok_b; vm_compute; reflexivity]|].
  constructor; [left; reflexivity|constructor].
Qed.

(* non-vacuity: a concrete call with a pre-existing backup-less file and two hosts *)
Example c14_rewrite_example :
  let s := fs_init (Some (bytes_of_string "1.2.3.3 existing
"%string)) 0 0 420 true in
  let '(_, s', _) := rewrite_fs 10 [(bytes_of_string "myotherhost"%string, bytes_of_string "1.2.3.5"%string);
                                    (bytes_of_string "myhost"%string, bytes_of_string "1.2.3.4"%string)] s in
  hosts_data s' = bytes_of_string "1.2.3.3 existing
1.2.3.4 myhost                 # sshuttle-firewall-10 AUTOCREATED
1.2.3.5 myotherhost            # sshuttle-firewall-10 AUTOCREATED
"%string.
Proof. vm_compute. reflexivity. Qed.

(* non-vacuity of "any pre-existing temporary": the stale temporary of port 12300 is longer
   than the next version and holds deleted lines and marked lines of a dead session *)
Example c14_stale_temporary_example :
  fs_get (PTmp 12300) stale_s0 <> None /\
  let '(i, s', _) := rewrite_fs 12300 [(bytes_of_string "d"%string, bytes_of_string "10.1.1.1"%string)] stale_s0 in
  i_pc i = AtDone /\ fs_get (PTmp 12300) s' = None /\
  hosts_data s' = bytes_of_string "127.0.0.1 localhost
10.1.1.1 d                     # sshuttle-firewall-12300 AUTOCREATED
"%string.
Proof. vm_compute. repeat split. discriminate. Qed.
