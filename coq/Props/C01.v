(* Props/C01.v — C01: tunnelled TCP payload is delivered intact, in order, to the right peer. *)
From Coq Require Import List NArith Ascii Bool Lia.
From SV Require Import Model.StreamQuiet Proofs.Stream_quiet Model.StreamDrain Proofs.Stream_drain Proofs.Stream_drain_clean Lib.Bytes Model.Wire Model.Chan Model.Stream
  Proofs.Stream_basic Proofs.Stream_wrap Proofs.Stream_cb Proofs.Stream_reg Proofs.Stream_view
  Proofs.Stream_flow Proofs.Stream_props Gen.Consts.
Import ListNotations.
Local Open Scope N_scope.

(* (1) Prefix property.  For EVERY sequence of micro-steps of the two event loops
   (accepts, Proxy.callback / pre_select of any flow at either end, Mux flush and
   dispatch, check_fullness, handler removal — in any order, with ANY outcome of
   every connect / recv / send / shutdown, any payloads, any MAX_CHANNEL and buffer
   size) that does not crash and in which no frame reached a wrapper of another flow
   incarnation (w_stale = false: identifiers were not re-used while frames of the
   previous holder were in flight — the exemption C06 spells out), and for every
   flow f:  the bytes handed to the destination are a prefix of the bytes read from
   the application, and the bytes handed back to the application are a prefix of
   the bytes read from the destination. *)
Theorem c01_prefix : forall maxc lbs evs w f,
  run (world0 maxc lbs) evs = Ok w -> w_stale w = false ->
  prefix (dst_written w f) (app_read w f) /\ prefix (app_written w f) (dst_read w f).
Proof. intros maxc lbs evs w f H Hs. apply (prefix_both maxc lbs); [exists evs; exact H|exact Hs]. Qed.
Print Assumptions c01_prefix.

(* (2) Nothing is lost, duplicated or reordered on the way: as long as the
   receiving socket has not been shut down, delivered bytes ++ bytes buffered at the
   far end ++ payload of the flow's frames in flight (in order) ++ bytes buffered at
   the near end  =  exactly the bytes read.  Both directions (rs = Client: application
   -> destination; rs = Server: destination -> application). *)
Theorem c01_no_loss : forall maxc lbs evs w rs f,
  run (world0 maxc lbs) evs = Ok w -> w_stale w = false ->
  let v := view_of w rs f in
  vfz v = false -> vD v ++ flat (vY v) ++ data_cat (vP v) ++ flat (vX v) = vA v.
Proof. intros maxc lbs evs w rs f H Hs. apply (no_loss maxc lbs); [exists evs; exact H|exact Hs]. Qed.
Print Assumptions c01_no_loss.

(* (3) Nothing is taken from another connection: a step of flow g changes no
   view and no wrapper of any other flow, at either end. *)
Theorem c01_flows_isolated : forall w sd g o w',
  step w (EvCallback sd g o) = Ok w' ->
  forall rs f, f <> g -> view_of w' rs f = view_of w rs f /\
                         e_prox (get_end w' rs) f = e_prox (get_end w rs) f.
Proof. exact callback_contained. Qed.
Print Assumptions c01_flows_isolated.

(* (4) Each hop conserves bytes: what one Proxy.callback takes out of a buffer is
   exactly what it hands on (or it is the documented drop when the peer can no
   longer be written). *)
Theorem c01_callback_conserves : forall sd fid p x o p' x',
  proxy_callback sd fid p x o = Ok (p', x') -> cb_facts fid p p' x x'.
Proof. exact callback_spec. Qed.
Print Assumptions c01_callback_conserves.

(* The last sentence of C01 ("if neither endpoint aborts, every byte written before
   the writer closed is eventually delivered") is a liveness statement over fair
   schedules.  It is NOT proved in this generality (all reachable non-stale states); it is
   kept here as the full statement, and it IS proved for the clean states of (3d) below
   (c01_eventual_delivery_full_clean: all states in which no frame or unsent byte of an older
   incarnation of an identifier can still meet a newer one; in particular all states in which no
   identifier has been used twice).  What is
   proved towards it in general is (2): under the stated conditions no byte can be stuck
   anywhere but in one of the four places of the pipeline, each of which is drained
   by an enabled step.  The correspondence harness checks delivery at quiescence on
   every generated schedule. *)
Definition c01_eventual_delivery_full : Prop :=
  forall maxc lbs evs w f, run (world0 maxc lbs) evs = Ok w -> w_stale w = false ->
  vfz (view_of w Client f) = false -> vwfault (view_of w Client f) = false ->
  exists evs' w', run w evs' = Ok w' /\ dst_written w' f = app_read w f.

(* (3b) The safety half of "eventually delivered": in EVERY reachable state in which nothing is
   pending any more (StreamQuiet.quiescentb: both links and both queues empty, and no handler's
   wait set contains a descriptor that an eager environment would report ready), every byte
   read from the application has been handed to the destination socket, and vice versa —
   unless a socket call of the receiving end failed (abort) or its connect is still pending.
   That the loops, left alone, REACH such a state is (3c) below. *)
Theorem c01_quiescent_all_delivered :
  forall maxc lbs evs w f,
  run (world0 maxc lbs) evs = Ok w -> w_stale w = false -> quiescentb w = true ->
  (s_conn (pS (sv w f)) = false -> s_fault (pS (sv w f)) = false -> dst_written w f = app_read w f) /\
  (s_conn (pS (cl w f)) = false -> s_fault (pS (cl w f)) = false -> app_written w f = dst_read w f).
Proof. exact q_c01_quiescent_all_delivered. Qed.
Print Assumptions c01_quiescent_all_delivered.

(* (3c) The liveness half, PROVED (Proofs/Stream_drain.v): from every reachable state without stale
   delivery, an eager environment — no new connections, every recv answers "nothing more", every
   send accepts everything, every connect completes, no check_fullness — can run the two loops, by an
   explicit finite schedule (StreamDrain.drain_of, driven by a strictly decreasing variant
   StreamDrain.mu), to a state in which nothing is pending (or a stale delivery happened); no step of
   that schedule raises.  With (3b): every byte read from the application before that point has then
   been handed to the destination socket, and vice versa, unless that socket failed. *)
Theorem c01_eager_drain :
  forall maxc lbs evs w, run (world0 maxc lbs) evs = Ok w -> w_stale w = false ->
  exists drain, Forall eager_event drain /\
    match run w drain with Ok w' => w_stale w' = true \/ quiescentb w' = true | Crash _ => False end.
Proof. exact eager_drain. Qed.
Print Assumptions c01_eager_drain.

Theorem c01_eventual_delivery :
  forall maxc lbs evs w, run (world0 maxc lbs) evs = Ok w -> w_stale w = false ->
  exists drain w', Forall eager_event drain /\ run w drain = Ok w' /\
    (w_stale w' = true \/
     (quiescent_eagerb w' = true /\
      forall f, (s_fault (pS (sv w' f)) = false -> dst_written w' f = app_read w f) /\
                (s_fault (pS (cl w' f)) = false -> app_written w' f = dst_read w f))).
Proof. exact d_c01_eventual_delivery. Qed.
Print Assumptions c01_eventual_delivery.

(* (3d) The escape clauses of (3c), removed (Proofs/Stream_drain_clean.v).  "Or a stale delivery
   happened" cannot simply be dropped: the drain accepts no connection, but a frame of an OLDER
   incarnation of an identifier may already be on the way (or unsent in a socket buffer) while the
   identifier is registered for a NEWER one — with MAX_CHANNEL = 1 nine micro-steps reach such a state. *)
Theorem c01_drain_unconditional_refuted :
  ~ (forall maxc lbs evs w, run (world0 maxc lbs) evs = Ok w -> w_stale w = false ->
       match run w (drain_of w) with
       | Ok w' => w_stale w' = false /\ quiescentb w' = true
       | Crash _ => False
       end).
Proof. exact eager_drain_unconditional_refuted. Qed.
Print Assumptions c01_drain_unconditional_refuted.

(* ... it holds under the boolean hypothesis Stream_drain_clean.drain_cleanb w: for all flows g < h
   of the client that share their identifier, (the client's end of h is closed, or nothing of g is on
   the way to the client and the server's end of g is mute) and (the server's end of h exists and is
   closed, or nothing of g is behind the CONNECT of h on the way to the server and the client's end of
   g is mute) — mute: socket buffer empty, no EOF or STOP_SENDING left to send.  States in which no
   identifier has been used twice (no_reuseb) satisfy it.  From every such reachable state the explicit
   schedule drain_of w is eager, never raises, makes NO stale delivery and ends strictly quiescent. *)
Theorem c01_drain_clean :
  forall maxc lbs evs w, run (world0 maxc lbs) evs = Ok w -> w_stale w = false -> drain_cleanb w = true ->
  Forall eager_event (drain_of w) /\
  match run w (drain_of w) with
  | Ok w' => w_stale w' = false /\ quiescent_eagerb w' = true
  | Crash _ => False
  end.
Proof. exact eager_drain_clean. Qed.
Print Assumptions c01_drain_clean.

Theorem c01_drain_no_reuse :
  forall maxc lbs evs w, run (world0 maxc lbs) evs = Ok w -> w_stale w = false -> no_reuseb w = true ->
  Forall eager_event (drain_of w) /\
  match run w (drain_of w) with
  | Ok w' => w_stale w' = false /\ quiescent_eagerb w' = true
  | Crash _ => False
  end.
Proof. exact eager_drain_no_reuse. Qed.
Print Assumptions c01_drain_no_reuse.

(* ... in fact NO schedule of eager events leads from such a state to a stale delivery (and the
   hypothesis is preserved), nor does it set the failure flag of any flow end: the second escape
   clause ("unless that socket failed" DURING the drain) is empty — the eager answers never fail,
   and the one failure the code produces by itself, EPIPE on a write after shutdown(SHUT_WR), needs
   bytes buffered for a cleanly shut socket, which never exist. *)
Theorem c01_eager_never_stale :
  forall maxc lbs evs w sched w',
  run (world0 maxc lbs) evs = Ok w -> w_stale w = false -> drain_cleanb w = true ->
  Forall eager_event sched -> run w sched = Ok w' -> w_stale w' = false /\ drain_cleanb w' = true.
Proof. exact eager_never_stale. Qed.
Print Assumptions c01_eager_never_stale.

Theorem c01_eager_no_new_fault :
  forall maxc lbs evs w sched w',
  run (world0 maxc lbs) evs = Ok w -> w_stale w = false -> drain_cleanb w = true ->
  Forall eager_event sched -> run w sched = Ok w' -> forall sd g, fault_of w' sd g = fault_of w sd g.
Proof. exact eager_no_new_fault. Qed.
Print Assumptions c01_eager_no_new_fault.

(* eventual delivery without escape clause: every byte read from the application before the drain
   has been handed to the destination socket after it, and vice versa, unless a call on the receiving
   socket had failed BEFORE the drain (abort of that endpoint) *)
Theorem c01_eventual_delivery_clean :
  forall maxc lbs evs w, run (world0 maxc lbs) evs = Ok w -> w_stale w = false -> drain_cleanb w = true ->
  exists w', Forall eager_event (drain_of w) /\ run w (drain_of w) = Ok w' /\
    w_stale w' = false /\ quiescent_eagerb w' = true /\
    forall f, (s_fault (pS (sv w f)) = false -> dst_written w' f = app_read w f) /\
              (s_fault (pS (cl w f)) = false -> app_written w' f = dst_read w f).
Proof. exact dc_c01_eventual_delivery. Qed.
Print Assumptions c01_eventual_delivery_clean.

(* hence the full statement c01_eventual_delivery_full, for the clean states *)
Theorem c01_eventual_delivery_full_clean :
  forall maxc lbs evs w f, run (world0 maxc lbs) evs = Ok w -> w_stale w = false -> drain_cleanb w = true ->
  vwfault (view_of w Client f) = false ->
  exists evs' w', run w evs' = Ok w' /\ dst_written w' f = app_read w f.
Proof.
  intros maxc lbs evs w f Hr Hst Hc Hf.
  destruct (dc_c01_eventual_delivery maxc lbs evs w Hr Hst Hc) as (w' & _ & Hrun & _ & _ & Hd).
  exists (drain_of w), w'. split; [exact Hrun|]. apply (proj1 (Hd f)). exact Hf.
Qed.
Print Assumptions c01_eventual_delivery_full_clean.

(* non-vacuity WITH identifier re-use (MAX_CHANNEL = 1): the application resets flow 0, flow 1 takes
   identifier 1 at once and has read "x"; the state is clean, the drain delivers "x" *)
Example c01_ex_reuse_clean :
  match run (world0 1 32768) dc_reuse with
  | Ok w =>
    w_stale w = false /\ quiescentb w = false /\ no_reuseb w = false /\ reuses w 0 1 = true /\
    drain_cleanb w = true /\ closedo (sv w 0) = false /\ sv w 1 = None /\ length (drain_of w) = 15%nat /\
    match run w (drain_of w) with
    | Ok w' => w_stale w' = false /\ quiescent_eagerb w' = true /\ drain_cleanb w' = true /\
               closedo (sv w' 0) = true /\ dst_written w 1 = [] /\ dst_written w' 1 = dc_x /\
               fault_of w' Server 1 = false
    | Crash _ => False
    end
  | Crash _ => False
  end.
Proof. exact dc_reuse_clean. Qed.

Example c01_ex_drain :
  match run (world0 65535 32768) d_pending with
  | Ok w =>
    w_stale w = false /\ quiescentb w = false /\
    drain_of w = [EvFlush Client; EvDeliver Server eio; EvCallback Server 0 eio] /\
    match run w (drain_of w) with
    | Ok w' => w_stale w' = false /\ quiescent_eagerb w' = true /\
               dst_written w 0 = [] /\ dst_written w' 0 = q_ab /\ app_read w 0 = q_ab
    | Crash _ => False
    end
  | Crash _ => False
  end.
Proof. exact drain_ex_pending. Qed.

(* non-vacuity: a flow that carries bytes end to end in the model *)
Example c01_ex_transfer :
  let io0 := mkIO ConnDone RecvAgain SendAgain true in
  let hello := [ascii_of_N 104; ascii_of_N 105] in
  match run (world0 65535 32768)
    [EvAccept []; EvFlush Client; EvFlush Client; EvDeliver Server io0; EvDeliver Server io0;
     EvCallback Client 0 (mkIO ConnDone (RecvData hello) SendAgain true); EvFlush Client; EvDeliver Server io0;
     EvCallback Server 0 (mkIO ConnDone RecvAgain (SendAccept 2) true)] with
  | Ok w => w_stale w = false /\ dst_written w 0 = hello /\ app_read w 0 = hello
  | Crash _ => False
  end.
Proof. vm_compute. auto. Qed.
