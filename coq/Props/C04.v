(* Props/C04.v — C04: firewall changes are undone on every exit path.
   Statements only; proofs are `exact <lemma>` into Proofs/FwLife_lemmas.v or a
   vm_compute sweep with the bound in the statement.  The kernel packet filter
   is MODELLED (Model/FwLife.v, DESIGN Appendix B), rules are opaque token lists.

   Vocabulary (Proofs/FwLife_lemmas.v):
     erase c s      the kernel state s without the objects named for session c's ports
                    (chains sshuttle-<p>, sshuttle-{m,t,d}-<p>, rules jumping to them, the
                    owner MARK rule, nft tables sshuttle-ipv{4,6}-<p>)
     ev_ok c s0 e   the kernel state recorded after command event e agrees with s0 outside
                    those objects
     sess_ok c s0 k cut   the decidable statement of "every exit path" for ONE session whose
                    k-th external command fails and whose dialogue is cut after `cut` lines
                    (see its definition: cut before GO / fault before finally / fault in finally
                    with (i) other restores still run, (ii) nothing diverted, (iii) restartable) *)
From Coq Require Import String List NArith ZArith Ascii Bool Arith.
From SV Require Import Lib.Bytes Model.FwLife Model.FwLifeSpec Proofs.FwLife_lemmas Proofs.FwLife_general
  Proofs.FwLife_gen_owner Proofs.FwLife_gen_pf Proofs.FwLife_gen_pf_faults.
From SV Require Import Model.FwLog Proofs.FwLog_lemmas.
From SV Require Proofs.FwLife_gen_nft.
Import ListNotations.

(* ================================================================== *)
(* General theorems: every method but pf, EVERY initial kernel state    *)
(* (foreign rules, other instances, stale objects), every plan body,    *)
(* every cut, every set of failing commands.                            *)

(* c04_foreign_untouched: at every intermediate state and at the end, everything
   that is not named for this session's ports is literally unchanged and in order. *)
Theorem c04_foreign_untouched : forall c cut faults s0,
  not_pf c = true -> cfg_wf c = true ->
  Forall (ev_ok c s0) (r_events (session c cut faults s0)) /\
  erase c (r_final (session c cut faults s0)) = erase c s0.
Proof. exact session_foreign. Qed.
Print Assumptions c04_foreign_untouched.

(* c04_cut, first half: the channel closing before the GO line is complete means that
   no external command is issued at all (any method incl. pf, any faults). *)
Theorem c04_cut_before_go : forall c cut faults s0,
  cut < c_nlines c ->
  r_events (session c cut faults s0) = [] /\ r_final (session c cut faults s0) = s0 /\
  r_ncmds (session c cut faults s0) = 0.
Proof. exact no_command_before_go. Qed.
Print Assumptions c04_cut_before_go.

(* Consequence used by the identity theorems: the final state equals s0-without-own-objects
   as soon as no own object is left in it. *)
Corollary c04_identity_if_clean : forall c cut faults s0,
  not_pf c = true -> cfg_wf c = true ->
  erase c (r_final (session c cut faults s0)) = r_final (session c cut faults s0) ->
  r_final (session c cut faults s0) = erase c s0.
Proof.
  intros c cut faults s0 Hp Hw Hc. rewrite <- Hc. exact (proj2 (session_foreign c cut faults s0 Hp Hw)).
Qed.
Print Assumptions c04_identity_if_clean.


(* ipt_chain_exists (linux.py:13-27) decides chain existence from the `-nL` listing with
   output.decode('ASCII', errors='replace') ... line.startswith('Chain %s ' % name).  The listing of the
   model prints every rule's argv tokens and every chain name VERBATIM (arbitrary bytes: Latin-1,
   invalid or valid UTF-8, control characters); the decode step is total and turns every byte >= 0x80
   into U+FFFD.  For a sought name that is 7-bit, non-empty and without blanks (aname, nospace: every
   'sshuttle-...<port>') and a table whose chain names have no blank (iptables refuses them), the test
   is exact membership whatever the rules and the other names contain: sshuttle-1230 is never confused
   with sshuttle-12300 (the trailing blank matters), a rule line never looks like a header (its first
   word is the padded target column), a name with bytes >= 0x80 never decodes to an ASCII name. *)
Theorem c04_chain_exists_exact : forall T name,
  nospace name = true -> aname name = true -> forallb (fun ch : chain => nospace (fst ch)) T = true ->
  chain_in_listing name (listing T) = existsb (fun ch : chain => bytes_eqb (fst ch) name) T.
Proof. exact chain_in_listing_spec. Qed.
Print Assumptions c04_chain_exists_exact.

(* The same for what the code computes on the raw bytes of the output — decode, split at every
   line feed, startswith — provided no chain name and no rule token contains a line feed (tbl_nolf):
   then the printed lines are exactly the pieces .split('\n') yields (c04_output_lines). *)
Theorem c04_output_lines : forall name lines,
  forallb line_nolf lines = true -> chain_in_output name (join_lines lines) = chain_in_listing name lines.
Proof. exact chain_in_output_lines. Qed.
Print Assumptions c04_output_lines.

Theorem c04_chain_exists_bytes_exact : forall T name,
  nospace name = true -> aname name = true ->
  forallb (fun ch : chain => nospace (fst ch)) T = true -> tbl_nolf T = true ->
  chain_in_output name (join_lines (listing T)) = existsb (fun ch : chain => bytes_eqb (fst ch) name) T.
Proof. exact chain_exists_bytes_exact. Qed.
Print Assumptions c04_chain_exists_bytes_exact.

(* the decoder never fails and keeps the length: byte for code point *)
Theorem c04_decode_total : forall b, length (decode_replace b) = length b.
Proof. intro b. unfold decode_replace. apply map_length. Qed.
Print Assumptions c04_decode_total.

(* non-vacuity: odd bytes in a comment (incl. the text of a header on the same line), a rule jumping to
   a chain called "Chain", foreign chains sshuttle-1230\xe9 and caf\xe9: the own chain is found iff it is there *)
Example c04_listing_odd_bytes :
  chain_in_output (nat_chain (bs "1230")) (join_lines (listing odd_nat)) = false /\
  chain_in_output (bs "Chain") (join_lines (listing odd_nat)) = true /\
  tbl_nolf odd_nat = true /\ forallb (fun ch : chain => nospace (fst ch)) odd_nat = true /\
  chain_in_output (nat_chain (bs "1230")) (join_lines (listing (odd_nat ++ [(nat_chain (bs "1230"), [])]))) = true.
Proof. exact listing_odd_bytes. Qed.

(* F90 — tbl_nolf is needed: iptables accepts a line feed inside `--comment` and prints it verbatim, so
   a foreign rule with the comment "x\nChain sshuttle-1230 (0 references)" makes the byte-level parse
   report a chain that does not exist.  (The session model tests line by line and so assumes rule text
   without line feeds; with such a rule present the real nat set-up fails at `-X sshuttle-1230`, nothing
   is created and nothing is left behind — the harness shows it on the real code.) *)
Theorem c04_listing_lf_refuted :
  chain_in_output (nat_chain (bs "1230")) (join_lines (listing forged_nat)) = true /\
  existsb (fun ch : chain => bytes_eqb (fst ch) (nat_chain (bs "1230"))) forged_nat = false /\
  chain_in_listing (nat_chain (bs "1230")) (listing forged_nat) = false /\
  tbl_nolf forged_nat = false /\
  forallb (fun ch : chain => nospace (fst ch)) forged_nat = true.
Proof. exact listing_lf_refuted. Qed.
Print Assumptions c04_listing_lf_refuted.

(* ================================================================== *)
(* "Undone on every exit path" — GENERAL theorems (Proofs/FwLife_general.v). *)
(* For EVERY configuration of the method (every port, every plan body),   *)
(* EVERY initial kernel state s0 that is well formed (chain names without *)
(* blanks, built-in OUTPUT/PREROUTING present: kst_wf) and holds nothing   *)
(* named for the session's ports (erase c s0 = s0; foreign rules, foreign  *)
(* chains, other sshuttle instances on other ports are all allowed),       *)
(* EVERY index k of the one external command that fails and EVERY cut of   *)
(* the dialogue:  sess_ok c s0 k cut = true, i.e.                          *)
(*  - cut before GO: no command at all, state untouched;                   *)
(*  - the fault (if any) before the finally block: final state = s0;       *)
(*  - the fault inside the finally block: (i) both families' restores and  *)
(*    the hosts restore still ran, (ii) nothing can be diverted unless the *)
(*    failing command is the chain listing (F42) / nft's `delete table`,   *)
(*    (iii) a later fault-free session on the same ports reaches STARTED   *)
(*    and ends in s0.                                                      *)

(* nat (methods/nat.py) without --user/--group *)
Theorem c04_nat_all_exits : forall c,
  c_method c = MNat -> c_owner c = None -> c_udp c = false -> cfg_wf c = true ->
  (forall f, pname_ok (fc_port (fcfg c f)) = true) ->
  forall s0 k cut, erase c s0 = s0 -> kst_wf s0 = true -> sess_ok c s0 k cut = true.
Proof. exact nat_all_exits. Qed.
Print Assumptions c04_nat_all_exits.

(* tproxy (methods/tproxy.py, repaired restore_firewall = F9 fixed), with or without UDP.
   tp_body_ordered: no rule of the tproxy/divert chain jumps to the mark chain and no rule of the
   divert chain jumps to the tproxy chain — restore deletes the chains in the order mark, tproxy,
   divert, so this is what `-X` needs (true of every rule tproxy.py generates). *)
Theorem c04_tproxy_all_exits : forall c,
  c_method c = MTproxy -> c_repaired c = true -> cfg_wf c = true ->
  (forall f, pname_ok (fc_port (fcfg c f)) = true) ->
  (forall f, fc_on (fcfg c f) = true -> tp_body_ordered (fc_port (fcfg c f)) (fc_body (fcfg c f)) = true) ->
  forall s0 k cut, erase c s0 = s0 -> kst_wf s0 = true -> sess_ok c s0 k cut = true.
Proof. exact tproxy_all_exits. Qed.
Print Assumptions c04_tproxy_all_exits.

(* nft (methods/nft.py).  nft_body_ok: every body rule names one of the chains nft.py creates. *)
Theorem c04_nft_all_exits : forall c,
  c_method c = MNft -> c_udp c = false -> cfg_wf c = true ->
  (forall f, fc_on (fcfg c f) = true -> nft_body_ok f (fc_port (fcfg c f)) (fc_body (fcfg c f)) = true) ->
  forall s0 k cut, erase c s0 = s0 -> sess_ok c s0 k cut = true.
Proof. exact nft_all_exits. Qed.
Print Assumptions c04_nft_all_exits.

(* Why the nft set-up may run over its own left-overs (the only method whose set-up does not begin with a restore):
   every set-up command is re-entrant.  The kernel model also knows `nft create chain` (which methods/nft.py does NOT
   issue): the same as `add chain` on a fresh name, an error (EEXIST) on an existing chain -- so it is never re-entrant,
   and over a table that a failed `delete table` left behind it fails where `add chain` succeeds.  (Kernel-level facts;
   they make the harness answer a changed set-up sequence the way the real nft does.) *)
Theorem c04_nft_create_chain_exact : forall t c spec L,
  nft_exec (NCreateChain t c spec) L =
  match find_tbl t L with
  | Some T => match find_chain c T with Some _ => None | None => nft_exec (NAddChain t c spec) L end
  | None => None
  end.
Proof. exact FwLife_gen_nft.nft_create_chain_spec. Qed.
Print Assumptions c04_nft_create_chain_exact.

Theorem c04_nft_add_chain_reentrant : forall t c spec L L',
  nft_exec (NAddChain t c spec) L = Some L' -> nft_exec (NAddChain t c spec) L' = Some L'.
Proof. exact FwLife_gen_nft.nft_add_chain_reentrant. Qed.
Print Assumptions c04_nft_add_chain_reentrant.

Theorem c04_nft_create_chain_not_reentrant : forall t c spec L L',
  nft_exec (NCreateChain t c spec) L = Some L' -> nft_exec (NCreateChain t c spec) L' = None.
Proof. exact FwLife_gen_nft.nft_create_chain_not_reentrant. Qed.
Print Assumptions c04_nft_create_chain_not_reentrant.

Theorem c04_nft_create_over_leftover : forall t c spec spec' L T rs,
  find_tbl t L = Some T -> find_chain c T = Some rs ->
  nft_exec (NCreateChain t c spec) L = None /\ nft_exec (NAddChain t c spec') L = Some L.
Proof. exact FwLife_gen_nft.nft_create_over_leftover. Qed.
Print Assumptions c04_nft_create_over_leftover.

(* non-vacuity: after a session whose `delete table` failed the table with the session's chain is there *)
Example c04_nft_create_over_leftover_witness :
  let t := nft_table V4 P1230 in
  let L := [(t, [(bs "prerouting", []); (bs "output", []); (t, [])])] in
  nft_exec (NCreateChain t t []) L = None /\ nft_exec (NAddChain t t []) L = Some L /\
  nft_exec (NCreateChain t t []) [(t, [])] = Some [(t, [(t, [])])].
Proof. vm_compute. repeat split. Qed.

(* non-vacuity: the sample plans and kernels satisfy every hypothesis ... *)
Example c04_general_hyps_satisfiable :
  (cfg_wf cfg_nat = true /\ cfg_wf cfg_tproxy = true /\ cfg_wf cfg_nft = true) /\
  (kst_wf ex_state = true /\ kst_wf k_empty = true) /\
  (erase cfg_nat ex_state = ex_state /\ erase cfg_tproxy ex_state = ex_state /\ erase cfg_nft ex_state = ex_state) /\
  pname_ok P1230 = true /\
  tp_body_ordered P1230 (tp_body P1230) = true /\
  nft_body_ok V6 P1230 (nft_body V6 P1230) = true /\ nft_body_ok V4 P1230 (nft_body V4 P1230) = true.
Proof. vm_compute. repeat split. Qed.

(* ... so for them every k and every cut is covered, without bound *)
Corollary c04_samples_all_exits : forall k cut,
  sess_ok cfg_nat ex_state k cut = true /\ sess_ok cfg_tproxy ex_state k cut = true /\
  sess_ok cfg_nft ex_state k cut = true.
Proof.
  intros k cut.
  destruct c04_general_hyps_satisfiable as ((W1 & W2 & W3) & (K1 & K2) & (E1 & E2 & E3) & Np & Ord & B6 & B4).
  split; [|split].
  - apply c04_nat_all_exits;
      [reflexivity | reflexivity | reflexivity | exact W1 | intros [|]; exact Np | exact E1 | exact K1].
  - apply c04_tproxy_all_exits;
      [reflexivity | reflexivity | exact W2 | intros [|]; exact Np | intros [|] _; exact Ord | exact E2 | exact K1].
  - apply c04_nft_all_exits;
      [reflexivity | reflexivity | exact W3 | intros [|] _; [exact B6 | exact B4] | exact E3].
Qed.
Print Assumptions c04_samples_all_exits.

(* nat WITH --user/--group (Proofs/FwLife_gen_owner.v): the own objects are those of the nat table plus
   the owner MARK rule at the head of mangle/OUTPUT (nat.py:39-44).  Every plan body, every clean
   well-formed start state, every cut and every failing command index k EXCEPT the one case that is
   finding F41: k inside the finally block and the k-th command is the tear-down's
   `-t mangle -D OUTPUT ... MARK` (is_mark_delete) — then the MARK rule stays for good
   (c04_nat_owner_refuted).  A failing chain listing (F42) is NOT excluded: sess_ok itself only excuses
   clause (ii) for it.  This was the open `Definition c04_all_exits_full`; it is now a theorem. *)
Theorem c04_all_exits_full :
  forall c s0 k cut,
    c_method c = MNat -> c_owner c <> None -> c_udp c = false -> cfg_wf c = true ->
    (forall f, pname_ok (fc_port (fcfg c f)) = true) ->
    erase c s0 = s0 -> kst_wf s0 = true ->
    (let r := session c cut (fault_at k) s0 in
     Nat.leb (r_fin_at r) k && match nth_cmd k (r_events r) with Some x => is_mark_delete x | None => false end = false) ->
    sess_ok c s0 k cut = true.
Proof.
  intros c s0 k cut Hm Ho Hu Hw Hn He Hk Hx. destruct (c_owner c) as [own|] eqn:O; [|contradiction].
  exact (nat_owner_all_exits c own Hm O Hu Hw Hn s0 He Hk k cut Hx).
Qed.
Print Assumptions c04_all_exits_full.

(* the same, spelled for a failing command that is known not to be the MARK deletion *)
Corollary c04_nat_owner_all_exits : forall c s0 k cut,
  c_method c = MNat -> c_owner c <> None -> c_udp c = false -> cfg_wf c = true ->
  (forall f, pname_ok (fc_port (fcfg c f)) = true) ->
  erase c s0 = s0 -> kst_wf s0 = true ->
  (forall x, nth_cmd k (r_events (session c cut (fault_at k) s0)) = Some x -> is_mark_delete x = false) ->
  sess_ok c s0 k cut = true.
Proof.
  intros c s0 k cut Hm Ho Hu Hw Hn He Hk Hx. apply c04_all_exits_full; try assumption.
  cbv zeta. apply andb_false_iff. right.
  destruct (nth_cmd k (r_events (session c cut (fault_at k) s0))) as [x|] eqn:E; [apply Hx; reflexivity | reflexivity].
Qed.
Print Assumptions c04_nat_owner_all_exits.

(* non-vacuity: the --user sample plan satisfies the hypotheses; the excluded case is exactly
   k = 21 / 27 for it (the two families' MARK deletions), every other k is covered for every cut *)
Example c04_owner_hyps_satisfiable :
  cfg_wf cfg_nat_user = true /\ c_owner cfg_nat_user <> None /\ erase cfg_nat_user ex_state = ex_state /\
  option_map is_mark_delete (nth_cmd 21 (r_events (session cfg_nat_user (full_cut cfg_nat_user) (fault_at 21) ex_state))) = Some true /\
  option_map is_mark_delete (nth_cmd 22 (r_events (session cfg_nat_user (full_cut cfg_nat_user) (fault_at 22) ex_state))) = Some false.
Proof. vm_compute. repeat split; discriminate. Qed.

(* pf has its own general theorems further down (c04_pf_identity, c04_pf_every_exit, c04_pf_all_exits: every
   script of failing commands).  The iptables/nft model has
   no other gap: the hypotheses above (well-formed kernel, body rules in own chains, tproxy's chain
   order, the F41 command excluded) are necessary for the statement as it stands. *)

(* The earlier finite sweeps (sample plans on port 1230, IPv6+IPv4, from a kernel with foreign
   rules, a foreign chain and a complete second instance on port 12300, and from an empty kernel;
   k over all command indices, cut over all dialogue positions) are kept; they are now instances of
   the general theorems. *)
Theorem c04_nat_all_exits_partial : forall k cut, k < 32 -> cut <= 10 ->
  sess_ok cfg_nat ex_state k cut = true /\ sess_ok cfg_nat k_empty k cut = true.
Proof.
  intros k cut Hk Hc. split; apply (sweep_sound _ _ 32 10); try assumption; vm_cast_no_check (eq_refl true).
Qed.
Print Assumptions c04_nat_all_exits_partial.

Theorem c04_tproxy_all_exits_partial : forall k cut, k < 62 -> cut <= 10 ->
  sess_ok cfg_tproxy ex_state k cut = true /\ sess_ok cfg_tproxy k_empty k cut = true.
Proof.
  intros k cut Hk Hc. split; apply (sweep_sound _ _ 62 10); try assumption; vm_cast_no_check (eq_refl true).
Qed.
Print Assumptions c04_tproxy_all_exits_partial.

Theorem c04_nft_all_exits_partial : forall k cut, k < 24 -> cut <= 10 ->
  sess_ok cfg_nft ex_state k cut = true /\ sess_ok cfg_nft k_empty k cut = true.
Proof.
  intros k cut Hk Hc. split; apply (sweep_sound _ _ 24 10); try assumption; vm_cast_no_check (eq_refl true).
Qed.
Print Assumptions c04_nft_all_exits_partial.

(* the session lengths behind those bounds: all command indices are covered *)
Example c04_bounds_cover :
  r_ncmds (session cfg_nat (full_cut cfg_nat) no_faults ex_state) = 28 /\
  r_ncmds (session cfg_tproxy (full_cut cfg_tproxy) no_faults ex_state) = 58 /\
  r_ncmds (session cfg_nft (full_cut cfg_nft) no_faults ex_state) = 20 /\
  full_cut cfg_nat = 10 /\ cfg_wf cfg_nat = true /\ cfg_wf cfg_tproxy = true /\ cfg_wf cfg_nft = true /\
  erase cfg_nat ex_state = ex_state /\ erase cfg_tproxy ex_state = ex_state.
Proof. vm_compute. repeat split. Qed.

(* non-vacuity: a tear-down fault really leaves something behind and is then recovered *)
Example c04_teardown_fault_nonvacuous :
  let r := session cfg_tproxy (full_cut cfg_tproxy) (fault_at 37) ex_state in
  r_fin_at r = 36 /\ kstate_eqb (r_final r) ex_state = false /\ no_divert cfg_tproxy (r_final r) = true /\
  r_final (session cfg_tproxy (full_cut cfg_tproxy) no_faults (r_final r)) = ex_state.
Proof. vm_compute. repeat split. Qed.

(* ================================================================== *)
(* Defects                                                              *)

(* F9 — tproxy.restore_firewall as found (bare _ipt, no nonfatal): with the single failing
   tear-down command `ip6tables -t mangle -F sshuttle-m-1230` (index 38, not a listing; likewise 37 =
   `-D OUTPUT -j sshuttle-m-1230` for the diversion) traffic is still diverted afterwards and a later fault-free session on the port never
   reaches STARTED.  Even a SET-UP failure (index 4: `-F sshuttle-m-1230`) is not undone. *)
Theorem c04_tproxy_asfound_refuted :
  exists k, let r := session cfg_tproxy_asfound (full_cut cfg_tproxy_asfound) (fault_at k) k_empty in
    Nat.leb (r_fin_at r) k = true /\ Nat.ltb k (r_ncmds r) = true /\
    option_map excused (nth_cmd k (r_events r)) = Some false /\
    no_divert cfg_tproxy_asfound (r_final r) = false /\
    has_mark MStarted (r_events (session cfg_tproxy_asfound (full_cut cfg_tproxy_asfound) no_faults (r_final r))) = false.
Proof. exists 38. vm_compute. repeat split. Qed.
Print Assumptions c04_tproxy_asfound_refuted.

Theorem c04_tproxy_asfound_setup_fault_refuted :
  exists k, let r := session cfg_tproxy_asfound (full_cut cfg_tproxy_asfound) (fault_at k) k_empty in
    Nat.ltb k (r_fin_at r) = true /\ kstate_eqb (r_final r) k_empty = false.
Proof. exists 4. vm_compute. repeat split. Qed.
Print Assumptions c04_tproxy_asfound_setup_fault_refuted.

(* F41 — nat with --user/--group: when the tear-down's `-t mangle -D OUTPUT ... MARK` fails, the MARK
   rule stays and no later session removes it (restore only looks at the nat chain). *)
Theorem c04_nat_owner_refuted :
  exists k, let r := session cfg_nat_user (full_cut cfg_nat_user) (fault_at k) k_empty in
    Nat.leb (r_fin_at r) k = true /\ Nat.ltb k (r_ncmds r) = true /\
    kstate_eqb (r_final (session cfg_nat_user (full_cut cfg_nat_user) no_faults (r_final r))) k_empty = false.
Proof. exists 21. vm_compute. repeat split. Qed.
Print Assumptions c04_nat_owner_refuted.

(* ... every other exit of that plan is fine *)
Theorem c04_nat_owner_all_exits_partial : forall k cut, k < 36 -> cut <= 10 -> k <> 21 -> k <> 27 ->
  sess_ok cfg_nat_user ex_state k cut = true.
Proof.
  intros k cut Hk Hc H1 H2.
  assert (H : forallb (fun k => Nat.eqb k 21 || Nat.eqb k 27 ||
                        forallb (fun cut => sess_ok cfg_nat_user ex_state k cut) (seq 0 11)) (seq 0 36) = true)
    by (vm_cast_no_check (eq_refl true)).
  rewrite forallb_forall in H. specialize (H k). rewrite in_seq in H.
  assert (Hk' : 0 <= k < 0 + 36) by (split; [apply Nat.le_0_l | exact Hk]).
  specialize (H Hk'). apply orb_true_iff in H as [H|H].
  - apply orb_true_iff in H as [H|H]; apply Nat.eqb_eq in H; contradiction.
  - rewrite forallb_forall in H. apply H. apply in_seq. split; [apply Nat.le_0_l | apply Nat.lt_succ_r; exact Hc].
Qed.
Print Assumptions c04_nat_owner_all_exits_partial.

(* F42 — a failing chain listing (`iptables -t nat -nL`, ipt_chain_exists) at tear-down skips that
   family's whole restore: the jump and the full chain stay until a later session cleans up. *)
Theorem c04_listing_fault_refuted :
  exists k, let r := session cfg_nat (full_cut cfg_nat) (fault_at k) k_empty in
    Nat.leb (r_fin_at r) k = true /\ option_map is_listing (nth_cmd k (r_events r)) = Some true /\
    no_divert cfg_nat (r_final r) = false.
Proof. exists 18. vm_compute. repeat split. Qed.
Print Assumptions c04_listing_fault_refuted.

(* F17 — pf on FreeBSD as found: the module was loaded and pf disabled before the session;
   the fault-free session ends with the module unloaded and the foreign anchor gone. *)
Theorem c04_pf_freebsd_asfound_refuted :
  let r := session (cfg_pf FreeBSD false) 7 no_faults ex_pf_state in
  pf_loaded (k_pf ex_pf_state) = true /\ pf_loaded (k_pf (r_final r)) = false /\ pf_anchors (k_pf (r_final r)) = [].
Proof. vm_compute. repeat split. Qed.
Print Assumptions c04_pf_freebsd_asfound_refuted.

(* pf, repaired flag (Proofs/FwLife_gen_pf.v) — GENERAL: every pf flavour (FreeBSD, OpenBSD, Darwin),
   every configuration (either or both families, any ports, any rule text), every cut of the dialogue
   (before GO, between HOST lines, a non-HOST line), NO failing command, every start state that is
   pf_start_ok: anchor names in the main ruleset contain no newline (what `pfctl -s all` prints one
   per line), ports printed without newline, no anchor named for the session's ports yet, and on Darwin
   the next two reference tokens are not outstanding.  Then the session is the identity on
   everything but the anchor CALLS pf.py appends to the main ruleset and never removes:
   iptables/nft untouched, module state, enabled state (`pfctl -e/-d` bookkeeping of
   _pf_context['started_by_sshuttle'], parsed from 'INFO:\nStatus: Disabled' — the parse is proved exact),
   Darwin's -E/-X tokens, and the anchors are as before; the main ruleset and `set skip on lo` are as
   before on FreeBSD, and elsewhere whenever lo is not skipped.  (With `set skip on lo` OpenBSD/Darwin
   REPLACE the main ruleset by 'match/pass on lo' and never restore it — pf.py:274-279, 353-359 — see
   c04_pf_identity_full_refuted.)  Exits with failing pfctl/kldload commands: c04_pf_every_exit, c04_pf_all_exits
   and the theorems after them (every script); a failing ioctl is an uncaught OSError outside the fault model. *)
Theorem c04_pf_identity : forall os c cut s0,
  c_method c = MPf os -> c_repaired c = true -> c_udp c = false -> pf_start_ok os c s0 ->
  let sf := r_final (session c cut no_faults s0) in
  sf = with_pf s0 (k_pf sf) /\
  pf_loaded (k_pf sf) = pf_loaded (k_pf s0) /\ pf_on (k_pf sf) = pf_on (k_pf s0) /\
  pf_refs (k_pf sf) = pf_refs (k_pf s0) /\ pf_anchors (k_pf sf) = pf_anchors (k_pf s0) /\
  (is_freebsd os || negb (pf_skip_lo (k_pf s0)) = true ->
   pf_main (k_pf sf) = pf_main (k_pf s0) /\ pf_skip_lo (k_pf sf) = pf_skip_lo (k_pf s0)).
Proof. exact pf_identity. Qed.
Print Assumptions c04_pf_identity.

Theorem c04_pf_identity_but_calls : forall os c cut s0,
  c_method c = MPf os -> c_repaired c = true -> c_udp c = false -> pf_start_ok os c s0 ->
  is_freebsd os || negb (pf_skip_lo (k_pf s0)) = true ->
  pf_same_but_calls (k_pf (r_final (session c cut no_faults s0))) (k_pf s0) = true.
Proof. exact pf_identity_bool. Qed.
Print Assumptions c04_pf_identity_but_calls.

(* `pfctl -s all` is parsed exactly (pf.py:67): for every pf state whose anchor names contain no newline *)
Theorem c04_pf_status_parse_exact : forall p,
  calls_ok (pf_calls p) = true ->
  is_infix (bs "INFO:" ++ ["010"%char] ++ bs "Status: Disabled") (join_lines (pf_status_lines p)) = negb (pf_enabled p).
Proof. exact dis_parse_exact. Qed.
Print Assumptions c04_pf_status_parse_exact.

Example c04_pf_hyps_satisfiable :
  pf_start_ok FreeBSD (cfg_pf FreeBSD true) ex_pf_state /\ pf_start_ok OpenBSD (cfg_pf OpenBSD true) ex_pf_state /\
  pf_start_ok Darwin (cfg_pf Darwin true) ex_pf_state.
Proof.
  assert (G : forall os, pf_start_ok os (cfg_pf os true) ex_pf_state).
  { intro os. split; [vm_compute; reflexivity|]. split.
    - intros f On. destruct f; [vm_compute in On; discriminate|]. split; vm_compute; reflexivity.
    - intros _. split; vm_compute; intros []. }
  split; [apply G | split; apply G].
Qed.

(* The statement without hypotheses on the start state is FALSE: on Darwin with `set skip on lo` in force the
   fault-free session leaves a different main ruleset behind (and lo no longer skipped). *)
Definition c04_pf_identity_full : Prop :=
  forall os c cut s0, c_method c = MPf os -> c_repaired c = true -> c_udp c = false ->
    pf_same_but_calls (k_pf (r_final (session c cut no_faults s0)))
                      (k_pf (erase c s0)) = true.

Definition ex_pf_skip_state : kstate :=
  mkK builtin_nat builtin_mangle builtin_nat builtin_mangle []
      (mkPf true false [] 1 true [bs "block all"] [(false, bs "com.apple")] [(bs "com.apple", bs "pass all")]).

Theorem c04_pf_identity_full_refuted : ~ c04_pf_identity_full.
Proof.
  intro H. specialize (H Darwin (cfg_pf Darwin true) 7 ex_pf_skip_state eq_refl eq_refl eq_refl).
  vm_compute in H. discriminate.
Qed.
Print Assumptions c04_pf_identity_full_refuted.

Theorem c04_pf_identity_partial : forall cut, cut <= 7 ->
  forallb (fun os => pf_same_but_calls (k_pf (r_final (session (cfg_pf os true) cut no_faults ex_pf_state)))
                                       (k_pf ex_pf_state)) [FreeBSD; OpenBSD; Darwin] = true.
Proof.
  intros cut Hc.
  assert (H : forallb (fun cut => forallb (fun os => pf_same_but_calls
              (k_pf (r_final (session (cfg_pf os true) cut no_faults ex_pf_state))) (k_pf ex_pf_state))
              [FreeBSD; OpenBSD; Darwin]) (seq 0 8) = true) by (vm_compute; reflexivity).
  rewrite forallb_forall in H. apply H. apply in_seq. split; [apply Nat.le_0_l | apply Nat.lt_succ_r; exact Hc].
Qed.
Print Assumptions c04_pf_identity_partial.

(* ================================================================== *)
(* pf under EVERY environment script (Proofs/FwLife_gen_pf_faults.v).   *)
(* `faults : nat -> bool` makes ANY set of external commands of the      *)
(* session (pfctl / kldload; set-up and tear-down; both families) return *)
(* non-zero without effect — as the k-th failing command does for the    *)
(* iptables/nft methods, but for whole sets of indices.  FreeBSD, OpenBSD *)
(* and Darwin (PfSense = FreeBSD with another ioctl layout), repaired     *)
(* code path (F17 fixed), every plan, every cut, every start state with   *)
(* pf_start_ok (see c04_pf_identity).                                      *)
(* Model/FwLife.v pf_restore follows the REPAIRED pf.disable under c_repaired (F150, flush half: the flush is
   wrapped in try/finally, `pfctl -d` / `pfctl -X` run even when it failed); c_repaired = false is the code as found.
     td_faulted faults r   some command with index in [r_fin_at r, r_ncmds r), i.e. one issued by the
                           finally block, is scripted to fail
     flush_failed r        the trace of r contains a failed `pfctl -a <anchor> -F all`
     disable_failed r      the trace of r contains a failed `pfctl -d` or `pfctl -X <token>`
     f43_hits os c cut faults s0   OpenBSD/Darwin, `set skip on lo` in force, the session reaches set-up
                           (cut after GO, pf loaded, a family active) and its first two commands
                           (`pfctl -s Interfaces -i lo -v`, `pfctl -f /dev/stdin`) are not scripted to fail
     own_del c L           the anchor list L without the (at most two) anchors named for c's ports     *)

(* EVERY exit — any script, any cut: iptables/nft untouched; module state as before; anchors of anybody else
   literally unchanged and in order; the main ruleset and `set skip` are as before EXCEPT exactly when
   f43_hits (finding F43, now characterised as an equivalence: it needs the first two set-up commands to
   succeed and nothing else — a later failing command does not undo it); a pf that was enabled before is
   never disabled (FreeBSD/OpenBSD), a reference sshuttle does not hold is never released (Darwin: the
   outstanding tokens before the session stay a prefix); both families' restores run. *)
Theorem c04_pf_every_exit : forall os c cut faults s0,
  c_method c = MPf os -> c_repaired c = true -> c_udp c = false -> pf_start_ok os c s0 ->
  let r := session c cut faults s0 in
  let sf := r_final r in
  sf = with_pf s0 (k_pf sf) /\
  pf_loaded (k_pf sf) = pf_loaded (k_pf s0) /\
  calls_ok (pf_calls (k_pf sf)) = true /\
  (pf_main (k_pf sf), pf_skip_lo (k_pf sf)) =
    (if f43_hits os c cut faults s0 then (pf_main (k_pf s0) ++ [skiptext os], false)
     else (pf_main (k_pf s0), pf_skip_lo (k_pf s0))) /\
  own_del c (pf_anchors (k_pf sf)) = pf_anchors (k_pf s0) /\
  (match os with
   | Darwin => pf_on (k_pf sf) = pf_on (k_pf s0) /\ exists l, pf_refs (k_pf sf) = pf_refs (k_pf s0) ++ l
   | _ => pf_refs (k_pf sf) = pf_refs (k_pf s0) /\ (pf_enabled (k_pf s0) = true -> pf_on (k_pf sf) = pf_on (k_pf s0))
   end) /\
  (c_nlines c <= cut -> forall f, fc_on (fcfg c f) = true -> has_mark (MRestore f) (r_events r) = true).
Proof. exact pf_every_exit. Qed.
Print Assumptions c04_pf_every_exit.

(* ALL EXITS but a failing `pfctl -d` / `pfctl -X <token>` — normal end, channel closed at any line, ANY set of
   failing set-up commands in either family, ANY failing flush of the finally block: module, enable state
   (`pfctl -e/-d` bookkeeping) and Darwin tokens are exactly those before the session; nobody else's anchor is
   touched and the session's own are gone unless their own flush failed (that content is removed by the next
   session: c04_pf_restartable); the main ruleset too unless f43_hits. *)
Theorem c04_pf_all_exits : forall os c cut faults s0,
  c_method c = MPf os -> c_repaired c = true -> c_udp c = false -> pf_start_ok os c s0 ->
  disable_failed (session c cut faults s0) = false ->
  let sf := r_final (session c cut faults s0) in
  sf = with_pf s0 (k_pf sf) /\
  pf_loaded (k_pf sf) = pf_loaded (k_pf s0) /\ pf_on (k_pf sf) = pf_on (k_pf s0) /\
  pf_refs (k_pf sf) = pf_refs (k_pf s0) /\
  own_del c (pf_anchors (k_pf sf)) = pf_anchors (k_pf s0) /\
  (flush_failed (session c cut faults s0) = false -> pf_anchors (k_pf sf) = pf_anchors (k_pf s0)) /\
  (pf_main (k_pf sf), pf_skip_lo (k_pf sf)) =
    (if f43_hits os c cut faults s0 then (pf_main (k_pf s0) ++ [skiptext os], false)
     else (pf_main (k_pf s0), pf_skip_lo (k_pf s0))).
Proof. exact pf_all_exits. Qed.
Print Assumptions c04_pf_all_exits.

(* the same as one boolean: the hypothesis is a boolean predicate on the script's run *)
Theorem c04_pf_all_exits_but_calls : forall os c cut faults s0,
  c_method c = MPf os -> c_repaired c = true -> c_udp c = false -> pf_start_ok os c s0 ->
  disable_failed (session c cut faults s0) || flush_failed (session c cut faults s0) || f43_hits os c cut faults s0 = false ->
  pf_same_but_calls (k_pf (r_final (session c cut faults s0))) (k_pf s0) = true.
Proof. exact pf_all_exits_bool. Qed.
Print Assumptions c04_pf_all_exits_but_calls.

(* stated on the script's indices: no command of the finally block is scripted to fail *)
Theorem c04_pf_all_exits_td : forall os c cut faults s0,
  c_method c = MPf os -> c_repaired c = true -> c_udp c = false -> pf_start_ok os c s0 ->
  td_faulted faults (session c cut faults s0) || f43_hits os c cut faults s0 = false ->
  pf_same_but_calls (k_pf (r_final (session c cut faults s0))) (k_pf s0) = true.
Proof. exact pf_all_exits_td_bool. Qed.
Print Assumptions c04_pf_all_exits_td.

(* in the shape of sess_ok's second clause: ONE failing command k that is not issued by the finally block *)
Corollary c04_pf_setup_fault_identity : forall os c cut k s0,
  c_method c = MPf os -> c_repaired c = true -> c_udp c = false -> pf_start_ok os c s0 ->
  (let r := session c cut (fault_at k) s0 in k < r_fin_at r \/ r_ncmds r <= k) ->
  f43_hits os c cut (fault_at k) s0 = false ->
  pf_same_but_calls (k_pf (r_final (session c cut (fault_at k) s0))) (k_pf s0) = true.
Proof. exact pf_setup_fault_identity. Qed.
Print Assumptions c04_pf_setup_fault_identity.

(* tear-down commands may fail, but no `pfctl -a <anchor> -F all` does: nothing the session loaded remains *)
Theorem c04_pf_flush_ok_clean : forall os c cut faults s0,
  c_method c = MPf os -> c_repaired c = true -> c_udp c = false -> pf_start_ok os c s0 ->
  flush_failed (session c cut faults s0) = false ->
  pf_anchors (k_pf (r_final (session c cut faults s0))) = pf_anchors (k_pf s0).
Proof. exact pf_flush_ok_clean. Qed.
Print Assumptions c04_pf_flush_ok_clean.

(* clause (iii) for pf, after ANY exit (any script): a later fault-free session on the same ports reaches STARTED
   and ends with every anchor as before the FIRST session — the anchor content a failing flush left behind is
   repaired — but it leaves the enable state and the Darwin references exactly as it found them: a pf left
   enabled / a reference left behind by a failing `pfctl -d` / `pfctl -X` stays for good (finding F150).
   fresh2: the next two Darwin tokens are not outstanding (as in pf_start_ok, now for the left-over state). *)
Theorem c04_pf_restartable : forall os c cut faults cut2 s0,
  c_method c = MPf os -> c_repaired c = true -> c_udp c = false -> pf_start_ok os c s0 ->
  pf_loaded (k_pf s0) = true -> c_nlines c <= cut2 ->
  let s1 := r_final (session c cut faults s0) in
  (os = Darwin -> fresh2 (k_pf s1)) ->
  let r2 := session c cut2 no_faults s1 in
  has_mark MStarted (r_events r2) = true /\
  r_final r2 = with_pf s0 (k_pf (r_final r2)) /\
  pf_loaded (k_pf (r_final r2)) = true /\
  pf_anchors (k_pf (r_final r2)) = pf_anchors (k_pf s0) /\
  pf_on (k_pf (r_final r2)) = pf_on (k_pf s1) /\ pf_refs (k_pf (r_final r2)) = pf_refs (k_pf s1).
Proof. exact pf_restartable. Qed.
Print Assumptions c04_pf_restartable.

(* non-vacuity: the sample plans (one family / both families) and start states (pf disabled, pf enabled,
   `set skip on lo`) satisfy pf_start_ok on every flavour; a script failing THREE commands — the first of the IPv4 half of set-up and two
   that are never issued — satisfies the boolean hypothesis, really ends the session with a Fatal during the
   IPv4 half of set-up after the IPv6 half had enabled pf, and on the skip-lo state a script failing command 0
   keeps F43 from happening. *)
Example c04_pf_fault_hyps_satisfiable :
  (forall os, pf_start_ok os (cfg_pf os true) ex_pf_state /\ pf_start_ok os (cfg_pf2 os) ex_pf_state /\
              pf_start_ok os (cfg_pf os true) ex_pf_on_state /\ pf_start_ok os (cfg_pf2 os) ex_pf_on_state /\
              pf_start_ok os (cfg_pf os true) ex_pf_skip_off_state /\ pf_start_ok os (cfg_pf2 os) ex_pf_skip_off_state) /\
  forallb (fun os =>
    let fl := faults_in [4; 40; 41] in
    let r := session (cfg_pf2 os) 7 fl ex_pf_state in
    negb (td_faulted fl r || f43_hits os (cfg_pf2 os) 7 fl ex_pf_state) &&
    match r_outcome r with ExitFatal => true | _ => false end &&
    has_mark (MSetup V4) (r_events r) && negb (has_mark MStarted (r_events r)) &&
    Nat.eqb (r_fin_at r) 5) [FreeBSD; OpenBSD; Darwin] = true /\
  forallb (fun os => negb (f43_hits os (cfg_pf2 os) 7 (fault_at 0) ex_pf_skip_off_state) &&
                     f43_hits os (cfg_pf2 os) 7 (fault_at 2) ex_pf_skip_off_state) [OpenBSD; Darwin] = true /\
  (* a script failing a set-up command of the IPv4 half (5) AND both flushes of the finally block (6, 8) satisfies
     the hypothesis of c04_pf_all_exits *)
  forallb (fun os =>
    let fl := faults_in [5; 6; 8] in
    let r := session (cfg_pf2 os) 7 fl ex_pf_state in
    negb (disable_failed r) && flush_failed r && td_faulted fl r) [FreeBSD; OpenBSD; Darwin] = true.
Proof. split; [exact pf_samples_start_ok | split; [|split]; vm_compute; reflexivity]. Qed.

(* ... so for the samples every script that spares the finally block is covered, without bound *)
Corollary c04_pf_samples_all_exits : forall os cut faults,
  td_faulted faults (session (cfg_pf2 os) cut faults ex_pf_state) = false ->
  pf_same_but_calls (k_pf (r_final (session (cfg_pf2 os) cut faults ex_pf_state))) (k_pf ex_pf_state) = true.
Proof.
  intros os cut faults H. apply (c04_pf_all_exits_td os); try reflexivity.
  - exact (proj1 (proj2 (pf_samples_start_ok os))).
  - rewrite H. unfold f43_hits. cbn [ex_pf_state k_pf pf_foreign pf_skip_lo]. rewrite !andb_false_r. reflexivity.
Qed.
Print Assumptions c04_pf_samples_all_exits.

(* ---- the exceptions, each with a witness ---- *)
(* Without the hypothesis on the script the statement is FALSE. *)
Definition c04_pf_all_exits_unrestricted : Prop :=
  forall os c cut faults s0,
    c_method c = MPf os -> c_repaired c = true -> c_udp c = false -> pf_start_ok os c s0 ->
    f43_hits os c cut faults s0 = false ->
    pf_same_but_calls (k_pf (r_final (session c cut faults s0))) (k_pf s0) = true.

Theorem c04_pf_all_exits_unrestricted_refuted : ~ c04_pf_all_exits_unrestricted.
Proof.
  intro H. specialize (H FreeBSD (cfg_pf FreeBSD true) 7 (fault_at 5) ex_pf_state eq_refl eq_refl eq_refl
                         (proj1 (pf_samples_start_ok FreeBSD)) eq_refl).
  vm_compute in H. discriminate.
Qed.
Print Assumptions c04_pf_all_exits_unrestricted_refuted.

(* (1) F150, flush half (FIXED by the try/finally of pending_fixes/F150.diff): a failing tear-down
   `pfctl -a sshuttle-1230 -F all`.  As found (c_repaired = false) Generic.disable stopped there (pf.py:71-76):
   `pfctl -d` was skipped, pf stayed enabled although it was disabled before the session, and the anchor, still
   loaded, kept diverting. *)
Theorem c04_pf_flush_fault_asfound_refuted :
  let r := session (cfg_pf FreeBSD false) 7 (fault_at 4) ex_pf_state in
  nth_cmd 4 (r_events r) = Some (Pf (PFlushAnchor (pf_anchor V4 P1230))) /\ r_fin_at r = 4 /\ r_ncmds r = 5 /\
  flush_failed r = true /\ disable_failed r = false /\
  pf_on (k_pf ex_pf_state) = false /\ pf_on (k_pf (r_final r)) = true /\
  map fst (pf_anchors (k_pf (r_final r))) = [bs "com.apple"; pf_anchor V4 P1230].
Proof. vm_compute. repeat split. Qed.
Print Assumptions c04_pf_flush_fault_asfound_refuted.

(* the repaired code on the same input: `pfctl -d` runs (6 commands), pf is disabled again; only the failed
   command's own effect is missing — the anchor keeps the session's rules, inert, as with nft's failing
   `delete table` — and the next session on the port removes it *)
Theorem c04_pf_flush_fault_repaired :
  let r := session (cfg_pf FreeBSD true) 7 (fault_at 4) ex_pf_state in
  let r2 := session (cfg_pf FreeBSD true) 7 no_faults (r_final r) in
  nth_cmd 4 (r_events r) = Some (Pf (PFlushAnchor (pf_anchor V4 P1230))) /\ nth_cmd 5 (r_events r) = Some (Pf PDisable) /\
  r_ncmds r = 6 /\ flush_failed r = true /\ pf_on (k_pf (r_final r)) = false /\
  map fst (pf_anchors (k_pf (r_final r))) = [bs "com.apple"; pf_anchor V4 P1230] /\
  pf_same_but_calls (k_pf (r_final r2)) (k_pf ex_pf_state) = true.
Proof. vm_compute. repeat split. Qed.
Print Assumptions c04_pf_flush_fault_repaired.

(* (2) F150 (the part that stays a known finding): a failing tear-down `pfctl -d` (OpenBSD; the same on FreeBSD): every rule is gone, but pf stays enabled,
   and no later session disables it (it finds pf enabled, so it does not count it as started by sshuttle). *)
Theorem c04_pf_disable_fault_refuted :
  let r := session (cfg_pf OpenBSD true) 7 (fault_at 5) ex_pf_state in
  let r2 := session (cfg_pf OpenBSD true) 7 no_faults (r_final r) in
  nth_cmd 5 (r_events r) = Some (Pf PDisable) /\ r_fin_at r = 4 /\ flush_failed r = false /\
  pf_anchors (k_pf (r_final r)) = pf_anchors (k_pf ex_pf_state) /\
  pf_on (k_pf ex_pf_state) = false /\ pf_on (k_pf (r_final r)) = true /\
  has_mark MStarted (r_events r2) = true /\ pf_on (k_pf (r_final r2)) = true.
Proof. vm_compute. repeat split. Qed.
Print Assumptions c04_pf_disable_fault_refuted.

(* (3) F150 on Darwin: a failing `pfctl -X <token>` leaves the session's reference on pf behind (the token was
   popped from _pf_context['Xtoken'] before pfctl ran, pf.py:350-351); later sessions take and release their own
   token only.  A failing flush of the IPv6 anchor no longer costs a reference (repaired): both are released. *)
Theorem c04_pf_release_fault_refuted :
  let r := session (cfg_pf Darwin true) 7 (fault_at 5) ex_pf_state in
  let r2 := session (cfg_pf Darwin true) 7 no_faults (r_final r) in
  let r' := session (cfg_pf2 Darwin) 7 (fault_at 8) ex_pf_state in
  let ra := session (mkCfg (MPf Darwin) (c_v6 (cfg_pf2 Darwin)) (c_v4 (cfg_pf2 Darwin)) None false false 6 [true]) 7 (fault_at 8) ex_pf_state in
  nth_cmd 5 (r_events r) = Some (Pf (PReleaseRef (bs "1"))) /\ disable_failed r = true /\
  pf_refs (k_pf ex_pf_state) = [] /\ pf_refs (k_pf (r_final r)) = [bs "1"] /\ pf_enabled (k_pf (r_final r)) = true /\
  pf_anchors (k_pf (r_final r)) = pf_anchors (k_pf ex_pf_state) /\
  pf_refs (k_pf (r_final r2)) = [bs "1"] /\
  nth_cmd 8 (r_events r') = Some (Pf (PFlushAnchor (pf_anchor V6 P1230))) /\ pf_refs (k_pf (r_final r')) = [] /\
  pf_refs (k_pf (r_final ra)) = [bs "1"].
Proof. vm_compute. repeat split. Qed.
Print Assumptions c04_pf_release_fault_refuted.

(* (4) F43 does not need the session to succeed: with `set skip on lo` the main ruleset is replaced as soon as
   the second command has run; a Fatal at the third command (`pfctl -s all`) ends the session with nothing else
   changed and the administrator's ruleset gone.  With the second command failing nothing is replaced. *)
Theorem c04_pf_f43_setup_fault_refuted :
  let r := session (cfg_pf Darwin true) 7 (fault_at 2) ex_pf_skip_off_state in
  let r1 := session (cfg_pf Darwin true) 7 (fault_at 1) ex_pf_skip_off_state in
  td_faulted (fault_at 2) r = false /\ has_mark MStarted (r_events r) = false /\
  pf_main (k_pf ex_pf_skip_off_state) = [bs "block all"] /\
  pf_main (k_pf (r_final r)) = [bs "block all"; bs "pass on lo" ++ ["010"%char]] /\ pf_skip_lo (k_pf (r_final r)) = false /\
  pf_same_but_calls (k_pf (r_final r1)) (k_pf ex_pf_skip_off_state) = true.
Proof. vm_compute. repeat split. Qed.
Print Assumptions c04_pf_f43_setup_fault_refuted.

(* two families: the second family's restore retries `pfctl -d` by accident (the counter was not decremented),
   so ONE failing `pfctl -d` is survived there — every single fault of this plan outside the two flushes *)
Theorem c04_pf_two_families_single_fault : forall k cut, k <> 7 -> k <> 9 -> k < 16 -> cut <= 7 ->
  pf_same_but_calls (k_pf (r_final (session (cfg_pf2 FreeBSD) cut (fault_at k) ex_pf_state))) (k_pf ex_pf_state) = true.
Proof.
  intros k cut H7 H9 Hk Hc.
  assert (H : forallb (fun k => forallb (fun cut => Nat.eqb k 7 || Nat.eqb k 9 ||
              pf_same_but_calls (k_pf (r_final (session (cfg_pf2 FreeBSD) cut (fault_at k) ex_pf_state))) (k_pf ex_pf_state))
              (seq 0 8)) (seq 0 16) = true) by (vm_compute; reflexivity).
  rewrite forallb_forall in H. assert (Ik : In k (seq 0 16)) by (apply in_seq; split; [apply Nat.le_0_l | exact Hk]).
  specialize (H k Ik). rewrite forallb_forall in H.
  assert (Ic : In cut (seq 0 8)) by (apply in_seq; split; [apply Nat.le_0_l | apply Nat.lt_succ_r; exact Hc]).
  specialize (H cut Ic). apply orb_true_iff in H as [H|H]; [|exact H].
  apply orb_true_iff in H as [H|H]; apply Nat.eqb_eq in H; contradiction.
Qed.
Print Assumptions c04_pf_two_families_single_fault.

(* fresh2 (hypothesis of c04_pf_restartable on Darwin) holds of the left-over state of witness (3) *)
Example c04_pf_restart_hyps_satisfiable :
  fresh2 (k_pf (r_final (session (cfg_pf Darwin true) 7 (fault_at 5) ex_pf_state))) /\
  fresh2 (k_pf (r_final (session (cfg_pf2 Darwin) 7 (fault_at 9) ex_pf_state))).
Proof. split; split; vm_compute; intro H; repeat (destruct H as [H|H]; try discriminate); try contradiction. Qed.

(* ================================================================== *)
(* Logging is total (Model/FwLog.v, Proofs/FwLog_lemmas.v).              *)
(* The tear-down runs when the client has been killed — typically because *)
(* the terminal went away, so the helper's stderr is a hung-up tty and     *)
(* every write to it fails.  With -v every command is preceded by a        *)
(* debug1(), and at any verbosity a failing nonfatal() command is followed *)
(* by a log(); an exception escaping from log() is not a Fatal, so         *)
(* nonfatal() would not stop it and the rest of the restore would be       *)
(* skipped.  What the code relies on:                                      *)

(* helpers.log (helpers.py:25-45) returns normally whenever each of its stream operations
   (sys.stdout.flush, every sys.stderr.write, sys.stderr.flush) succeeds or raises a class its
   except clauses name ... *)
Theorem c04_log_total : forall sw env nlines,
  (forall i, lout_sw sw (env i) = true) -> log_call sw env nlines = None.
Proof. exact log_call_total. Qed.
Print Assumptions c04_log_total.

(* ... and only then: what escapes was raised by an operation of that call and is not named *)
Theorem c04_log_escape_only_unnamed : forall sw env nlines e,
  log_call sw env nlines = Some e -> exists i, i <= S nlines /\ env i = LRaise e /\ sw e = false.
Proof. exact log_call_escape. Qed.
Print Assumptions c04_log_escape_only_unnamed.

(* the clauses `except (IOError, ValueError)` name exactly the subclasses of OSError and of
   ValueError (EIO of a hung-up tty, EPIPE, EBADF, "I/O operation on closed file",
   UnicodeEncodeError, ...) *)
Theorem c04_log_swallows_spec : forall e,
  log_swallows e = true <-> subclass e COSError = true \/ subclass e CValueError = true.
Proof. exact log_swallows_spec. Qed.
Print Assumptions c04_log_swallows_spec.

(* c04_log_faults_invisible: for EVERY verbosity, every message size, every outcome of every
   stream operation of every log call — as long as each raised class is one log() swallows —
   the session with its log points (sessionL: debug1 before each ipt/nft command, log after each
   failed nonfatal command, the debug calls of firewall.main incl. the guards of the finally
   block) has the same exit class, issues the same commands with the same results, passes the
   same kernel states and ends in the same state as the session without logging.  Every cut,
   every fault set, every initial state, every plan; nat, nft, tproxy.  Hence every C04 theorem
   above holds under log faults. *)
Theorem c04_log_faults_invisible : forall L pre c cut faults s0,
  all_sw L -> not_pf c = true ->
  rl_res (sessionL L pre c cut faults s0) = session c cut faults s0.
Proof. exact sessionL_erase. Qed.
Print Assumptions c04_log_faults_invisible.

(* the same for the real clauses, in terms of classes: every raised exception is an OSError or
   a ValueError (any subclass) *)
Corollary c04_log_faults_same_commands : forall L L' pre pre' c cut faults s0,
  lg_sw L = log_swallows -> lg_sw L' = log_swallows ->
  (forall j i e, lg_env L j i = LRaise e -> subclass e COSError = true \/ subclass e CValueError = true) ->
  (forall j i e, lg_env L' j i = LRaise e -> subclass e COSError = true \/ subclass e CValueError = true) ->
  not_pf c = true ->
  rl_res (sessionL L pre c cut faults s0) = rl_res (sessionL L' pre' c cut faults s0).
Proof.
  intros L L' pre pre' c cut faults s0 S S' E E' Hp.
  apply log_faults_invisible; [apply all_sw_oserror_valueerror | apply all_sw_oserror_valueerror | ]; assumption.
Qed.
Print Assumptions c04_log_faults_same_commands.

(* the "all exits" statement carried over: a hung-up terminal (every write to stderr — with
   `both` also the flush of stdout — raises OSError(EIO) from operation i0 of log call j0 on),
   any verbosity, any k-th command failing before the finally block or no command failing
   (k beyond the last command): the final state is the initial one. *)
Corollary c04_nat_all_exits_hangup : forall c v nl j0 i0 both pre,
  c_method c = MNat -> c_owner c = None -> c_udp c = false -> cfg_wf c = true ->
  (forall f, pname_ok (fc_port (fcfg c f)) = true) ->
  forall s0 k cut, erase c s0 = s0 -> kst_wf s0 = true ->
  let r := rl_res (sessionL (mkLog v log_swallows (env_from j0 i0 COSError both) nl) pre c cut (fault_at k) s0) in
  (cut < c_nlines c -> r_final r = s0 /\ r_events r = []) /\
  (c_nlines c <= cut -> k < r_fin_at r \/ r_ncmds r <= k -> r_final r = s0).
Proof.
  intros c v nl j0 i0 both pre Hm Ho Hu Hw Hn s0 k cut He Hk. cbv zeta.
  rewrite c04_log_faults_invisible;
    [| apply all_sw_from; reflexivity | unfold not_pf; rewrite Hm; reflexivity].
  pose proof (c04_nat_all_exits c Hm Ho Hu Hw Hn s0 k cut He Hk) as S. unfold sess_ok in S.
  split.
  - intro Hc. apply Nat.ltb_lt in Hc. rewrite Hc in S. apply andb_true_iff in S as [S1 S2].
    apply kstate_eqb_eq in S1. split; [exact S1|].
    destruct (r_events (session c cut (fault_at k) s0)); [reflexivity | discriminate].
  - intros Hc Hkk.
    assert (Hc' : Nat.ltb cut (c_nlines c) = false) by (apply Nat.ltb_ge; exact Hc).
    rewrite Hc' in S.
    assert (Hk' : Nat.ltb k (r_fin_at (session c cut (fault_at k) s0))
                  || Nat.leb (r_ncmds (session c cut (fault_at k) s0)) k = true).
    { apply orb_true_iff. destruct Hkk as [A|A]; [left; apply Nat.ltb_lt | right; apply Nat.leb_le]; exact A. }
    rewrite Hk' in S. apply kstate_eqb_eq in S. rewrite S. exact He.
Qed.
Print Assumptions c04_nat_all_exits_hangup.

(* non-vacuity: the injected environments satisfy the hypothesis *)
Example c04_log_hyps_satisfiable :
  all_sw (mkLog 2 log_swallows env_ok (fun _ => 1)) /\
  all_sw (mkLog 1 log_swallows (env_from 19 1 COSError false) (fun _ => 1)) /\
  all_sw (mkLog 0 log_swallows (env_once 3 0 CBrokenPipeError) (fun _ => 3)) /\
  log_swallows CUnicodeEncodeError = true /\ log_swallows CTimeoutError = true /\
  log_swallows CRuntimeError = false /\ log_swallows CTypeError = false.
Proof.
  split; [apply all_sw_ok |].
  split; [apply all_sw_from; reflexivity |].
  split; [apply all_sw_once; reflexivity |].
  vm_compute. repeat split.
Qed.

(* The hypothesis is needed.  With the narrower clause `except (BrokenPipeError, ValueError)`
   a verbose nat session whose terminal hangs up after STARTED (every stderr write raises
   OSError(EIO) from log call j0 on) "returns" normally having issued only the two chain
   listings of the tear-down, and the diverting rules stay; with the real clause the same
   session ends in the initial state. *)
Theorem c04_log_narrow_refuted :
  exists j0,
    let rn := sessionL (L_hup log_swallows_narrow 1 j0) pre_sample cfg_nat (full_cut cfg_nat) no_faults ex_state in
    let rs := sessionL (L_hup log_swallows 1 j0) pre_sample cfg_nat (full_cut cfg_nat) no_faults ex_state in
    log_swallows COSError = true /\ log_swallows_narrow COSError = false /\
    has_mark MStarted (r_events (rl_res rn)) = true /\ r_outcome (rl_res rn) = ExitReturn /\
    r_ncmds (rl_res rn) = r_fin_at (rl_res rn) + 2 /\
    no_divert cfg_nat (r_final (rl_res rn)) = false /\
    kstate_eqb (r_final (rl_res rs)) ex_state = true /\ r_ncmds (rl_res rs) = 28.
Proof. exact narrow_refuted. Qed.
Print Assumptions c04_log_narrow_refuted.

(* ================================================================== *)
(* The environment of firewall.main outside the packet filter           *)
(* (Model/FwEnv.v): how the control channel ends (EOF or a read error), *)
(* a failing STARTED write, a failing hosts-file update in the wait     *)
(* loop or at restore, a failing resolver-cache flush.                  *)
From SV Require Import Model.FwEnv Proofs.FwEnv_lemmas.

(* with nothing of that failing, session_e IS the session all theorems above speak about *)
Theorem c04_env_neutral : forall c cut faults s0,
  session_e c cut faults wenv_none s0 = session c cut faults s0.
Proof. exact session_e_neutral. Qed.
Print Assumptions c04_env_neutral.

(* whatever that environment does (every class of read error, every failing write of STARTED,
   a hosts-file update failing at any HOST line or at restore, the resolver flush failing in the
   try block or in the finally block), for every method incl. pf, every cut, every set of failing
   commands and every kernel state: the packet-filter commands issued, the point where the
   tear-down starts, pf.py's context and the final packet-filter state are those of `session` —
   so every exit theorem of this file holds for these exits as well. *)
Theorem c04_wait_phase_invisible : forall c cut faults w s0,
  let r := session_e c cut faults w s0 in
  let r' := session c cut faults s0 in
  r_final r = r_final r' /\ r_ncmds r = r_ncmds r' /\ r_fin_at r = r_fin_at r' /\
  r_py r = r_py r' /\ cmds_of (r_events r) = cmds_of (r_events r').
Proof. exact session_e_invisible. Qed.
Print Assumptions c04_wait_phase_invisible.

(* firewall.py:360-365: a write of STARTED that fails with an IOError (EPIPE: the client is gone)
   is the same session as the channel closing right after the GO line *)
Theorem c04_started_failure_is_cut : forall c cut faults w s0 e,
  c_nlines c <= cut ->
  w_flush_setup w = None -> w_started w = Some e -> started_swallows e = true ->
  session_e c cut faults w s0 = session c (c_nlines c) faults s0.
Proof. exact session_e_started_failure. Qed.
Print Assumptions c04_started_failure_is_cut.

(* firewall.py:226-237: a read error of a class below OSError (ECONNRESET of a socketpair whose
   peer died with unread data, EIO, ...) is the same session as an EOF at that point *)
Theorem c04_read_error_is_eof : forall c cut faults w s0 e,
  read_swallows e = true ->
  session_e c cut faults (mkWenv (CErr e) (w_flush_setup w) (w_started w) (w_hosts_fail w)
                                 (w_hosts_restore_fail w) (w_flush_teardown w)) s0 =
  session_e c cut faults (mkWenv CEof (w_flush_setup w) (w_started w) (w_hosts_fail w)
                                 (w_hosts_restore_fail w) (w_flush_teardown w)) s0.
Proof. exact session_e_read_error. Qed.
Print Assumptions c04_read_error_is_eof.

(* the classes a dead socket or pipe raises are caught; others are not (they end the helper
   through the finally block all the same: c04_wait_phase_invisible) *)
Example c04_env_classes :
  read_swallows CConnectionResetError = true /\ read_swallows COSError = true /\
  read_swallows CTimeoutError = true /\ started_swallows CBrokenPipeError = true /\
  read_swallows CValueError = false /\ started_swallows CRuntimeError = false.
Proof. vm_compute. repeat split. Qed.

(* ------------------------------------------------------------------ *)
(* Finding F120 (repaired by pending_fixes/F120.diff): the helper's      *)
(* SIGINT/SIGTERM handler relays with os.kill(sshuttle_pid, SIGINT); as  *)
(* found it lets ProcessLookupError escape when that process is gone.    *)
(* With the repaired handler a signal changes nothing: the session is    *)
(* `session`, and every theorem above applies.  As found, the exception  *)
(* lands in whatever the helper is doing; inside the finally block it    *)
(* ends the restore of one family (Model/FwEnv.v session_sig_asfound).   *)
Theorem c04_signal_relay_asfound_refuted :
  exists k,
    let r := session_sig_asfound cfg_nat (full_cut cfg_nat) no_faults (sig_at k) ex_state in
    let r' := session cfg_nat (full_cut cfg_nat) no_faults ex_state in
    r_fin_at r' <= k /\ k < r_ncmds r' /\
    kstate_eqb (r_final r') ex_state = true /\ r_ncmds r' = 28 /\
    r_outcome r = ExitReturn /\ r_ncmds r = 24 /\
    kstate_eqb (r_final r) ex_state = false /\ no_divert cfg_nat (r_final r) = false.
Proof. exact sig_relay_asfound_refuted. Qed.
Print Assumptions c04_signal_relay_asfound_refuted.

(* where a family's restore is one command (nft) even the raising handler is harmless:
   for every plan, cut, fault set, kernel state and every moment(s) the exception arrives *)
Theorem c04_signal_nft_harmless : forall c cut faults ab s0,
  c_method c = MNft ->
  r_final (session_sig_asfound c cut faults ab s0) = r_final (session c cut faults s0) /\
  r_events (session_sig_asfound c cut faults ab s0) = r_events (session c cut faults s0).
Proof. exact sig_nft_harmless. Qed.
Print Assumptions c04_signal_nft_harmless.
