(* Props/C08.v — C08: a fault in one flow never takes down the tunnel or other flows. *)
From Coq Require Import List NArith Ascii Bool Lia.
From SV Require Import Lib.Bytes Model.Wire Model.Chan Model.Stream
  Proofs.Stream_basic Proofs.Stream_wrap Proofs.Stream_cb Proofs.Stream_reg Proofs.Stream_fw
  Proofs.Stream_view Proofs.Stream_flow Proofs.Stream_props Proofs.Stream_assert Gen.Consts.
Import ListNotations.
Local Open Scope N_scope.

(* (1) A Proxy.callback never raises, whatever errno any recv / send / shutdown
   returns and whatever connect returns among in-progress, connected and the handled
   network-error set (NET_ERRS + EACCES + EPERM).  Only a connect errno outside that
   set is re-raised — by design ("error we've never heard of?! barf completely"). *)
Theorem c08_callback_never_raises : forall sd g p x o c,
  proxy_callback sd g p x o = Crash c -> c = CrReraise /\ handled_conn (io_conn o) = false.
Proof. exact callback_crash. Qed.
Print Assumptions c08_callback_never_raises.

(* (2) Containment: a callback of flow g — including one in which any socket call
   fails — changes no wrapper and no pipeline view of any other flow at either end;
   so C01/C02 keep holding for them (they are invariants of every reachable state). *)
Theorem c08_contained : forall w sd g o w',
  step w (EvCallback sd g o) = Ok w' ->
  forall rs f, f <> g -> view_of w' rs f = view_of w rs f /\
                         e_prox (get_end w' rs) f = e_prox (get_end w rs) f.
Proof. exact callback_contained. Qed.
Print Assumptions c08_contained.

(* (3) The faulted flow is closed, not left hanging: a socket error sets both
   shut flags of that socket wrapper (seterr = nowrite + noread), i.e. shutdown is
   issued and reading stops. *)
Theorem c08_error_closes_socket : forall s ok,
  s_sw (s_seterr s ok) = true /\ s_sr (s_seterr s ok) = true /\ s_fault (s_seterr s ok) = true.
Proof. intros s ok. destruct (seterr_spec s ok) as (_ & _ & A & B & C & _). auto. Qed.
Print Assumptions c08_error_closes_socket.

(* (4) Dispatching a frame (Mux.handle -> got_packet), in any reachable state: a late
   message for a closed flow, a message with an unknown command, a message for a flow
   whose wrapper has gone — none of them raises.  The only exceptions the dispatcher can
   raise are the `assert not self.channels.get(channel)` of CONNECT and an unhandled
   connect errno inside new_channel (c08_dispatch_no_crash_partial); and in every
   reachable state in which no frame of an older incarnation has reached a wrapper
   (w_stale = false — the situation C06 excludes) the CONNECT assertion itself never
   fires: the peer always frees an identifier before it sees its re-use
   (c08_connect_assert_never_fires), so an unhandled connect errno is the only way
   the dispatcher raises (c08_dispatch_no_crash). *)
Theorem c08_dispatch_no_crash_partial : forall maxc lbs evs w sd o c,
  run (world0 maxc lbs) evs = Ok w ->
  step w (EvDeliver sd o) = Crash c ->
  c = CrAssertConnect \/ (c = CrReraise /\ handled_conn (io_conn o) = false).
Proof.
  intros maxc lbs evs w sd o c Hrun. apply deliver_crash.
  - exact (run_Winv evs _ _ (Winv_world0 maxc lbs) Hrun).
  - exact (run_FWinv evs _ _ (FWinv_world0 maxc lbs) Hrun).
Qed.
Print Assumptions c08_dispatch_no_crash_partial.

Theorem c08_connect_assert_never_fires : forall maxc lbs evs w sd o,
  run (world0 maxc lbs) evs = Ok w -> w_stale w = false ->
  step w (EvDeliver sd o) <> Crash CrAssertConnect.
Proof. exact run_connect_assert. Qed.
Print Assumptions c08_connect_assert_never_fires.

Theorem c08_dispatch_no_crash : forall maxc lbs evs w sd o c,
  run (world0 maxc lbs) evs = Ok w -> w_stale w = false ->
  step w (EvDeliver sd o) = Crash c ->
  c = CrReraise /\ handled_conn (io_conn o) = false.
Proof.
  intros maxc lbs evs w sd o c Hrun Hst Hc.
  destruct (c08_dispatch_no_crash_partial maxc lbs evs w sd o c Hrun Hc) as [->|H]; [|exact H].
  exfalso. exact (run_connect_assert maxc lbs evs w sd o Hrun Hst Hc).
Qed.
Print Assumptions c08_dispatch_no_crash.

(* (5) "No identifier free" ends at most the new flow: the accept is dropped, every
   existing flow and queue is untouched. *)
Theorem c08_exhaustion_drops_only_new : forall e maxc payload chani',
  next_channel maxc (occ (e_mux e)) (x_chani (e_mux e)) = (None, chani') ->
  let e' := client_accept e maxc payload in
  e_prox e' = e_prox e /\ x_out (e_mux e') = x_out (e_mux e) /\ x_chan (e_mux e') = x_chan (e_mux e) /\
  e_next e' = e_next e.
Proof. intros e maxc payload chani' H. unfold client_accept. rewrite H. cbn. auto. Qed.
Print Assumptions c08_exhaustion_drops_only_new.

Theorem c08_consts : In ECONNREFUSED NET_ERRS /\ In ECONNRESET NET_ERRS /\ length NET_ERRS = 9%nat.
Proof. vm_compute. intuition. Qed.
Print Assumptions c08_consts.

(* non-vacuity: a refused destination is contained (flow 0 faulted, loop alive, flow 1 untouched) *)
Example c08_ex_refused :
  let io0 := mkIO ConnDone RecvAgain SendAgain true in
  match run (world0 65535 32768)
    [EvAccept []; EvAccept []; EvFlush Client; EvFlush Client; EvFlush Client;
     EvDeliver Server io0; EvDeliver Server (mkIO (ConnErr ENet) RecvAgain SendAgain true);
     EvDeliver Server io0; EvCallback Server 0 io0] with
  | Ok w => s_fault (pS (sv w 0)) = true /\ s_sw (pS (sv w 0)) = true /\ s_fault (pS (sv w 1)) = false
  | Crash _ => False
  end.
Proof. vm_compute. auto. Qed.
