(* Props/C09.v — C09: latency control bounds queued stream data and never wedges. *)
From Coq Require Import List NArith Ascii Bool Lia.
From SV Require Import Model.StreamQuiet Proofs.Stream_quiet Model.StreamDrain Proofs.Stream_drain Proofs.Stream_drain_clean Model.StreamLoop Proofs.Stream_loop Proofs.Stream_reg Proofs.Stream_flow Proofs.Stream_props Lib.Bytes Model.Wire Model.Chan Model.Stream
  Proofs.Stream_basic Proofs.Stream_wrap Proofs.Stream_cb Proofs.Stream_lat Gen.Consts.
Import ListNotations.
Local Open Scope N_scope.

(* (1) While a tunnel end waits for the acknowledgement (too_full), no batch of
       Proxy callbacks / pre_selects — any flows, any order, any I/O outcomes —
       queues a single byte of stream payload; otherwise each callback queues at
       most one 2048-byte frame, so one loop iteration with k callbacks
       overshoots the budget by at most 2048*k bytes (runonce issues at most 4
       callbacks per live connection). *)
Theorem c09_bound : forall sd evs w w',
  Forall (batch_ev sd) evs -> run w evs = Ok w' ->
  exists new, outq w' sd = outq w sd ++ new /\ tf w' sd = tf w sd /\
    full w' sd = full w sd + pay_len new /\
    data_len new <= 2048 * n_callbacks evs /\ (tf w sd = true -> data_len new = 0).
Proof. exact batch_bound. Qed.
Print Assumptions c09_bound.

(* (2) check_fullness: below the budget nothing happens; above it the end is
       paused and exactly one PING 'rttest' is queued (none if already paused). *)
Theorem c09_request_once : forall x lbs,
  let x' := check_fullness x lbs in
  (x_full x <= lbs -> x' = x) /\
  (lbs < x_full x -> x_too_full x' = true /\ x_full x' = x_full x + (if x_too_full x then 0 else 6) /\
     x_out x' = x_out x ++ (if x_too_full x then [] else [mkSF 0 CPing rttest None])).
Proof. exact check_fullness_spec. Qed.
Print Assumptions c09_request_once.

(* (3) Every PING that is handled is answered by a PONG with the same payload,
       whether or not the answering end is itself paused. *)
Theorem c09_ping_always_answered : forall sd e f o, sf_cmd f = CPing ->
  exists e', mux_got_packet sd e f o = Ok (e', false) /\
  x_out (e_mux e') = x_out (e_mux e) ++ [mkSF 0 CPong (sf_data f) None] /\
  x_too_full (e_mux e') = x_too_full (e_mux e) /\ e_prox e' = e_prox e.
Proof. exact ping_answered. Qed.
Print Assumptions c09_ping_always_answered.

(* (4) A PONG ends the pause and resets the budget, so transfers resume. *)
Theorem c09_pong_resumes : forall sd e f o, sf_cmd f = CPong ->
  exists e', mux_got_packet sd e f o = Ok (e', false) /\
  x_too_full (e_mux e') = false /\ x_full (e_mux e') = 0 /\ x_out (e_mux e') = x_out (e_mux e) /\
  e_prox e' = e_prox e.
Proof. exact pong_clears. Qed.
Print Assumptions c09_pong_resumes.

(* (5) With latency control disabled (the main loops never call check_fullness)
       no end is ever paused, for any run from the initial state. *)
Theorem c09_off_no_pause : forall maxc lbs evs w,
  forallb (fun ev => negb (is_check ev)) evs = true ->
  run (world0 maxc lbs) evs = Ok w -> forall sd, tf w sd = false.
Proof.
  intros maxc lbs evs w Hall Hrun. eapply run_no_pause; [exact Hall|exact Hrun|].
  intros [|]; reflexivity.
Qed.
Print Assumptions c09_off_no_pause.

(* (6) "Every such request is eventually answered, so transfers always resume": while an end is
   paused, its round-trip probe is OUTSTANDING — the PING 'rttest' is in its queue or on the link to
   the peer, or the PONG is in the peer's queue or on the link back (all runs, all I/O outcomes;
   together with (3) PING always answered and (4) PONG resumes, the probe can only move forward) *)
Theorem c09_outstanding :
  forall maxc lbs evs w sd,
  run (world0 maxc lbs) evs = Ok w -> tf w sd = true -> outstanding w sd = true.
Proof. exact q_c09_outstanding. Qed.
Print Assumptions c09_outstanding.

(* (7) ... hence the tunnel is never wedged: once all queues and links are drained no end is paused *)
Theorem c09_never_wedged :
  forall maxc lbs evs w,
  run (world0 maxc lbs) evs = Ok w ->
  w_cs w = [] -> w_sc w = [] -> outq w Client = [] -> outq w Server = [] ->
  tf w Client = false /\ tf w Server = false.
Proof. exact q_c09_never_wedged. Qed.
Print Assumptions c09_never_wedged.

(* (8) a paused end is never part of a quiescent state: something is always still enabled *)
Theorem c09_paused_not_quiescent :
  forall maxc lbs evs w sd,
  run (world0 maxc lbs) evs = Ok w -> tf w sd = true -> quiescentb w = false.
Proof. exact q_c09_paused_not_quiescent. Qed.
Print Assumptions c09_paused_not_quiescent.

(* (9) ... and the pause ENDS (Proofs/Stream_drain.v): from every reachable state without stale
   delivery the eager schedule reaches, without raising, a state in which neither end is paused
   (the probe's journey terminates; check_fullness is not part of the drain). *)
Theorem c09_pause_ends :
  forall maxc lbs evs w, run (world0 maxc lbs) evs = Ok w -> w_stale w = false ->
  exists drain w', Forall eager_event drain /\ run w drain = Ok w' /\
    (w_stale w' = true \/
     (quiescent_eagerb w' = true /\ tf w' Client = false /\ tf w' Server = false)).
Proof. exact d_c09_pause_ends. Qed.
Print Assumptions c09_pause_ends.

(* (9b) ... WITHOUT the escape clause "or a stale delivery happened" (Proofs/Stream_drain_clean.v):
   under the boolean hypothesis drain_cleanb w (C01 (3d): no frame or unsent byte of an older
   incarnation of an identifier can still reach a newer one; implied by no_reuseb w) the drain makes no
   stale delivery and ends strictly quiescent with neither end paused.  Without the hypothesis the
   statement is false of the model (c01_drain_unconditional_refuted). *)
Theorem c09_pause_ends_clean :
  forall maxc lbs evs w, run (world0 maxc lbs) evs = Ok w -> w_stale w = false -> drain_cleanb w = true ->
  exists w', Forall eager_event (drain_of w) /\ run w (drain_of w) = Ok w' /\
    w_stale w' = false /\ quiescent_eagerb w' = true /\ tf w' Client = false /\ tf w' Server = false.
Proof. exact dc_c09_pause_ends. Qed.
Print Assumptions c09_pause_ends_clean.

(* the paused example above is such a state (no identifier used twice) *)
Example c09_ex_paused_clean :
  match run (world0 65535 3) d_paused with
  | Ok w => w_stale w = false /\ tf w Client = true /\ no_reuseb w = true /\ drain_cleanb w = true
  | Crash _ => False
  end.
Proof. vm_compute. auto. Qed.

Example c09_ex_pause_ends :
  match run (world0 65535 3) d_paused with
  | Ok w =>
    w_stale w = false /\ quiescentb w = false /\ tf w Client = true /\
    s_conn (pS (sv w 0)) = true /\
    match run w (drain_of w) with
    | Ok w' => w_stale w' = false /\ quiescent_eagerb w' = true /\ tf w' Client = false /\
               dst_written w' 0 = d_big /\ length (drain_of w) = 21%nat
    | Crash _ => False
    end
  | Crash _ => False
  end.
Proof. exact drain_ex_paused. Qed.

Theorem c09_consts : LATENCY_BUFFER_SIZE = 32768 /\ lenN rttest = 6.
Proof. split; reflexivity. Qed.
Print Assumptions c09_consts.

Example c09_ex_pause :
  let x := mkMux [] (fun _ => None) 0 40000 false in
  x_too_full (check_fullness x LATENCY_BUFFER_SIZE) = true /\
  length (x_out (check_fullness (check_fullness x LATENCY_BUFFER_SIZE) LATENCY_BUFFER_SIZE)) = 1%nat.
Proof. vm_compute. split; reflexivity. Qed.

(* The main loop (Model/StreamLoop.v; see Props/C02.v (g)): in every state reached by complete iterations of the two
   loops, an end that is paused (too_full) and whose select() has nothing ready has no round-trip request left in its
   OWN queue: the request is on the wire towards the peer, or its answer already sits in the peer's queue — the
   sleeper will be woken.  (fx: runonce as found / repaired; both.) *)
Theorem c09_paused_sleeper_probe_out : forall (fx lat : bool) maxc lbs w sd,
  lreach_v fx lat maxc lbs w -> sleeps_eagerb_v fx sd w = true -> x_too_full (e_mux (get_end w sd)) = true ->
  has_ping (inlink w sd) = true \/ has_pong (x_out (e_mux (get_end w (other sd)))) = true.
Proof. exact paused_sleeper_probe_out_v. Qed.
Print Assumptions c09_paused_sleeper_probe_out.
