(* Props/C17.v — C17: automatically discovered routes are canonical and always
   reach the client.  Statements only; proofs are `exact <lemma>` (or a few
   lines of glue) into Proofs/Routes_lemmas.v, each followed by Print Assumptions.

   Model/Routes.v models _list_routes AS REPAIRED by pending_fixes/F7.diff; the
   code as found is `scan_line_asfound` (see c17_skips_garbage_asfound_refuted).
   Text functions are modelled on ASCII input, the only input reachable through
   line.decode("ASCII"); lines with a byte >= 128 are covered by all_ascii. *)
From Coq Require Import List NArith ZArith Ascii Bool.
From SV Require Import Lib.Bytes Model.Wire Model.Routes Proofs.Routes_lemmas Gen.Consts.
Import ListNotations.
Local Open Scope N_scope.

(* (1) Mask canonicalisation: for every address and every prefix length the
       AND with the width-w mask clears the host bits and keeps the network bits. *)
Theorem c17_mask : forall ip w, ip < 2 ^ 32 -> w <= 32 ->
  let net := N.land ip ((2 ^ w - 1) * 2 ^ (32 - w)) in
  net = (ip / 2 ^ (32 - w)) * 2 ^ (32 - w) /\
  net mod 2 ^ (32 - w) = 0 /\
  net / 2 ^ (32 - w) = ip / 2 ^ (32 - w) /\
  net < 2 ^ 32.
Proof.
  intros ip w Hip Hw. cbv zeta. fold (netmask w). rewrite (mask_land ip w Hip Hw).
  split; [reflexivity|]. split; [exact (network_host_bits ip w Hw)|].
  split; [exact (network_net_bits ip w Hw)|exact (network_lt ip w Hip)].
Qed.
Print Assumptions c17_mask.

(* (1b) ... and this is what the code computes (Python integers, _shl via 2 ** bits):
        width = min(ipw[1], mask); ip & _shl(_shl(1, width) - 1, 32 - width); inet_ntoa. *)
Theorem c17_mask_code : forall ip w0 mask,
  ip < 2 ^ 32 -> (0 <= Z.min w0 mask <= 32)%Z ->
  route_of (ip, w0) mask =
  Ok (mkRoute AF_INET (dotted_quad (network ip (Z.to_N (Z.min w0 mask)))) (Z.min w0 mask)).
Proof. exact route_of_ok. Qed.
Print Assumptions c17_mask_code.

(* (2) _maskbits: every contiguous netmask of width w gives w (0.0.0.0 gives 0);
       any other 32-bit value gives 32 - (index of its lowest set bit); None gives 32. *)
Theorem c17_maskbits : forall w x, w <= 32 ->
  maskbits (Some ((2 ^ w - 1) * 2 ^ (32 - w), x)) = Z.of_N w.
Proof. exact maskbits_contiguous. Qed.
Print Assumptions c17_maskbits.

Theorem c17_maskbits_any : forall m x j, j < 32 -> N.testbit m j = true ->
  (forall k, k < j -> N.testbit m k = false) ->
  maskbits (Some (m, x)) = (32 - Z.of_N j)%Z.
Proof. exact maskbits_lowest_bit. Qed.
Print Assumptions c17_maskbits_any.

Theorem c17_maskbits_range : forall nm, (0 <= maskbits nm <= 32)%Z /\ maskbits None = 32%Z.
Proof. intros nm. split; [exact (maskbits_range nm)|reflexivity]. Qed.
Print Assumptions c17_maskbits_range.

(* (3) Abbreviation rules of _ipmatch: 1..4 decimal octets a[.b[.c[.d]]] are
       zero-filled; the width is 8 * (number of octets) when absent and is capped
       at that value when given ('10/16' -> 10.0.0.0/8, '10.1.2/30' -> 10.1.2.0/24). *)
Theorem c17_abbrev : forall os, octets_ok os ->
  ipmatch (join_dot (map dec os)) = Ok (Some (ip_of os, (8 * Z.of_nat (length os))%Z)).
Proof. exact ipmatch_plain. Qed.
Print Assumptions c17_abbrev.

Theorem c17_abbrev_width : forall os w, octets_ok os -> w <= 32 ->
  ipmatch (join_dot (map dec os) ++ SLASH :: dec w) =
  Ok (Some (ip_of os, Z.min (Z.of_N w) (8 * Z.of_nat (length os)))).
Proof. exact ipmatch_width. Qed.
Print Assumptions c17_abbrev_width.

Theorem c17_ipmatch_quad : forall ip, ip < 2 ^ 32 ->
  ipmatch (dotted_quad ip) = Ok (Some (ip, 32%Z)) /\ ipmatch s_default = Ok (Some (0, 0%Z)).
Proof. intros ip H. split; [exact (ipmatch_quad ip H)|reflexivity]. Qed.
Print Assumptions c17_ipmatch_quad.

(* (4) Well-formed iproute2 lines: optional leading blanks, destination
       a[.b[.c[.d]]]/w (full or abbreviated, any host bits), then end of line or
       blank-separated ASCII text: the scanner yields the canonical network. *)
Theorem c17_iproute_line : forall lead os w rest, octets_ok os -> w <= 32 ->
  forallb is_space_s lead = true -> rest_ok rest -> all_ascii rest = true ->
  scan_line route_iproute (lead ++ (join_dot (map dec os) ++ SLASH :: dec w) ++ rest) =
  Ok (Some (mkRoute AF_INET (dotted_quad (network (ip_of os) (eff_width os w)))
                    (Z.of_N (eff_width os w)))).
Proof. exact iproute_line. Qed.
Print Assumptions c17_iproute_line.

(* (5) Well-formed netstat lines.  Linux: destination, gateway, contiguous genmask. *)
Theorem c17_netstat_line : forall lead ip sp1 gw sp2 w rest, ip < 2 ^ 32 -> w <= 32 ->
  forallb is_space_s lead = true -> spaces sp1 -> tokn gw -> all_ascii gw = true -> spaces sp2 ->
  rest_ok rest -> all_ascii rest = true ->
  scan_line route_netstat
    (lead ++ dotted_quad ip ++ sp1 ++ gw ++ sp2 ++ dotted_quad ((2 ^ w - 1) * 2 ^ (32 - w)) ++ rest) =
  Ok (Some (mkRoute AF_INET (dotted_quad (network ip w)) (Z.of_N w))).
Proof. exact netstat_linux_line. Qed.
Print Assumptions c17_netstat_line.

(* BSD: abbreviated destination without width, third column is a flags word. *)
Theorem c17_netstat_bsd_line : forall lead os sp1 gw sp2 flags rest, octets_ok os ->
  forallb is_space_s lead = true -> spaces sp1 -> tokn gw -> all_ascii gw = true -> spaces sp2 ->
  tokn flags -> all_ascii flags = true -> ipmatch flags = Ok None ->
  rest_ok rest -> all_ascii rest = true ->
  scan_line route_netstat (lead ++ join_dot (map dec os) ++ sp1 ++ gw ++ sp2 ++ flags ++ rest) =
  Ok (Some (mkRoute AF_INET (dotted_quad (network (ip_of os) (8 * N.of_nat (length os))))
                    (Z.of_N (8 * N.of_nat (length os))))).
Proof. exact netstat_bsd_line. Qed.
Print Assumptions c17_netstat_bsd_line.

(* general three-column form (covers BSD 'a.b/w' destinations and any third column) *)
Theorem c17_netstat_line_gen : forall lead c0 sp1 c1 sp2 c2 rest ip w0 maskw,
  forallb is_space_s lead = true -> tokn c0 -> spaces sp1 -> tokn c1 -> spaces sp2 -> tokn c2 -> rest_ok rest ->
  all_ascii (lead ++ c0 ++ sp1 ++ c1 ++ sp2 ++ c2 ++ rest) = true ->
  ipmatch c0 = Ok (Some (ip, w0)) -> ipmatch c2 = Ok maskw ->
  (Z.min w0 (maskbits maskw) <= 32)%Z ->
  scan_line route_netstat (lead ++ c0 ++ sp1 ++ c1 ++ sp2 ++ c2 ++ rest) =
  Ok (Some (mkRoute AF_INET
             (dotted_quad (network ip (Z.to_N (Z.min w0 (maskbits maskw)))))
             (Z.min w0 (maskbits maskw)))).
Proof. exact netstat_line_gen. Qed.
Print Assumptions c17_netstat_line_gen.

(* (5b) Windows `route PRINT -4` (sys.platform == 'win32'): destination, contiguous
        netmask of width w < 32, then " On-link " (blanks before it optional, anything
        ASCII behind it): the scanner yields the canonical network.  Host routes
        (netmask 255.255.255.255), destinations starting with 127. / 0. / 224. /
        169.254. and lines without " On-link " (routes through a gateway, headers,
        the IPv6 part) yield no route. *)
Theorem c17_windows_line : forall lead ip sp1 w sp2 rest, ip < 2 ^ 32 -> w < 32 ->
  forallb is_space_s lead = true -> spaces sp1 -> forallb is_space_s sp2 = true -> all_ascii rest = true ->
  win_skip (dotted_quad ip) = false ->
  scan_line route_windows
    (lead ++ dotted_quad ip ++ sp1 ++ dotted_quad ((2 ^ w - 1) * 2 ^ (32 - w)) ++ sp2 ++ s_onlink ++ rest) =
  Ok (Some (mkRoute AF_INET (dotted_quad (network ip w)) (Z.of_N w))).
Proof. exact windows_line. Qed.
Print Assumptions c17_windows_line.

(* general two-column form (any netmask value, abbreviated destinations) *)
Theorem c17_windows_line_gen : forall lead c0 sp1 c1 sp2 rest ip w0 maskw,
  forallb is_space_s lead = true -> tokn c0 -> spaces sp1 -> tokn c1 -> forallb is_space_s sp2 = true ->
  all_ascii (lead ++ c0 ++ sp1 ++ c1 ++ sp2 ++ s_onlink ++ rest) = true ->
  bytes_eqb c1 s_bcast = false -> win_skip c0 = false ->
  ipmatch c0 = Ok (Some (ip, w0)) -> ipmatch c1 = Ok maskw ->
  (Z.min w0 (maskbits maskw) <= 32)%Z ->
  scan_line route_windows (lead ++ c0 ++ sp1 ++ c1 ++ sp2 ++ s_onlink ++ rest) =
  Ok (Some (mkRoute AF_INET
             (dotted_quad (network ip (Z.to_N (Z.min w0 (maskbits maskw)))))
             (Z.min w0 (maskbits maskw)))).
Proof. exact windows_line_gen. Qed.
Print Assumptions c17_windows_line_gen.

Theorem c17_windows_skipped :
  (forall line, contains s_onlink line = false -> scan_line route_windows line = Ok None) /\
  (forall lead c0 sp1 c1 sp2 rest,
     forallb is_space_s lead = true -> tokn c0 -> spaces sp1 -> tokn c1 -> forallb is_space_s sp2 = true ->
     bytes_eqb c1 s_bcast = true \/ win_skip c0 = true ->
     scan_line route_windows (lead ++ c0 ++ sp1 ++ c1 ++ sp2 ++ s_onlink ++ rest) = Ok None) /\
  (forall ip, ip < 2 ^ 32 ->
     win_skip (dotted_quad ip) =
     (ip / 16777216 =? 127) || (ip / 16777216 =? 0) || (ip / 16777216 =? 224) ||
     ((ip / 16777216 =? 169) && ((ip / 65536) mod 256 =? 254))) /\
  (forall w, w < 32 -> bytes_eqb (dotted_quad ((2 ^ w - 1) * 2 ^ (32 - w))) s_bcast = false).
Proof.
  split; [exact windows_no_onlink|]. split; [exact windows_line_skipped|].
  split; [exact win_skip_spec|exact netmask_not_bcast].
Qed.
Print Assumptions c17_windows_skipped.

(* (6) Filter: list_routes keeps exactly the routes whose rendered address does
       not start with "0." or "127."; on a rendered address that is: first octet
       not 0 and not 127.  An iproute2 'default ...' line yields no route at all;
       a netstat 'default' destination is 0.0.0.0/0 and is dropped by the filter. *)
Theorem c17_filter : forall t out,
  list_routes t out = bind (raw_routes t out) (fun rs => Ok (filter keep_route rs)) /\
  (forall f ip w, ip < 2 ^ 32 ->
     keep_route (mkRoute f (dotted_quad ip) w) =
     negb (ip / 16777216 =? 0) && negb (ip / 16777216 =? 127)) /\
  (forall rest, rest_ok rest -> route_iproute (s_default ++ rest) = Ok None).
Proof.
  intros t out. split; [reflexivity|]. split; [exact keep_route_spec|exact iproute_default].
Qed.
Print Assumptions c17_filter.

(* (7) The scanner never fails: for EVERY tool (iproute2, netstat, Windows route,
       none) and EVERY tool output (arbitrary bytes) every
       line yields a canonical route or is skipped; the advertised list exists,
       every entry is canonical (host bits cleared, width 0..32) and passes the filter. *)
Theorem c17_skips_garbage : forall t line,
  scan_line (extractor t) line = Ok None \/
  exists r, scan_line (extractor t) line = Ok (Some r) /\ canonical_route r.
Proof. exact scan_line_total. Qed.
Print Assumptions c17_skips_garbage.

Theorem c17_list_routes_total : forall t out,
  exists rs, list_routes t out = Ok rs /\ Forall canonical_route rs /\ forallb keep_route rs = true.
Proof. exact list_routes_total. Qed.
Print Assumptions c17_list_routes_total.

(* The code as found raised on such lines (finding F7; witnesses replayed on the
   real code by harness/props/c17.py on every run). *)
Theorem c17_skips_garbage_asfound_refuted :
  exists t line e, scan_line_asfound (extractor t) line = Crash e.
Proof. exists IpRoute, line_abc, ValueError. exact (proj1 asfound_crashes). Qed.
Print Assumptions c17_skips_garbage_asfound_refuted.

Theorem c17_asfound_witnesses :
  scan_line_asfound route_iproute line_abc = Crash ValueError /\
  scan_line_asfound route_iproute line_xslash = Crash ValueError /\
  scan_line_asfound route_iproute line_xyy = Crash ValueError /\
  scan_line_asfound route_iproute line_300 = Crash OSError /\
  scan_line_asfound route_netstat line_300_netstat = Crash OSError /\
  scan_line_asfound route_iproute line_fs = Crash IndexError /\
  scan_line_asfound route_iproute line_nonascii = Crash UnicodeDecodeError.
Proof. exact asfound_crashes. Qed.
Print Assumptions c17_asfound_witnesses.

(* (8) Delivery.  Full statement: for every tool output the server's ROUTES
       message reaches the client, which adds exactly the advertised networks,
       in order, and then starts the firewall. *)
Definition c17_delivery_full_statement : Prop := forall t out,
  exists rs wire, list_routes t out = Ok rs /\ server_advertise t out = Ok wire /\
    forall v6, client_receive true true v6 wire = Some (mkOutcome (map net_of_route rs) true None).

(* Proved: the full statement minus exactly the tables whose rendered
   advertisement exceeds 65535 bytes (finding F6). *)
Theorem c17_delivery_partial : forall t out,
  exists rs, list_routes t out = Ok rs /\ Forall canonical_route rs /\
    (lenN (render_routes rs) <= 65535 ->
     exists wire, server_advertise t out = Ok wire /\
       forall v6, client_receive true true v6 wire =
                  Some (mkOutcome (map net_of_route rs) true None)).
Proof. exact delivery_partial. Qed.
Print Assumptions c17_delivery_partial.

(* Every larger advertisement trips Mux.send's assert ... *)
Theorem c17_delivery_too_big : forall t out rs, list_routes t out = Ok rs ->
  65535 < lenN (render_routes rs) -> server_advertise t out = Crash AssertionError.
Proof. exact delivery_too_big. Qed.
Print Assumptions c17_delivery_too_big.

(* ... and such tables exist: 5000 /24 routes printed by `ip route`. *)
Theorem c17_delivery_refuted : ~ c17_delivery_full_statement.
Proof.
  intros H. destruct (H IpRoute (big_table 5000)) as (rs & wire & _ & Hs & _).
  rewrite big_table_kills_server in Hs. discriminate.
Qed.
Print Assumptions c17_delivery_refuted.

(* without --auto-nets the message is ignored and the firewall is started *)
Theorem c17_delivery_auto_nets_off : forall v4 v6 payload,
  onroutes false v4 v6 payload = mkOutcome [] true None.
Proof. exact onroutes_off. Qed.
Print Assumptions c17_delivery_auto_nets_off.

(* ---- non-vacuity examples ---- *)
Definition bs (l : list N) : bytes := map ascii_of_N l.
(* "10.1.2.3/24 dev eth0\n" *)
Definition ex_ip_line : bytes := bs [49;48;46;49;46;50;46;51;47;50;52;32;100;101;118;32;101;116;104;48;10].
Example ex_iproute : scan_line route_iproute ex_ip_line =
  Ok (Some (mkRoute AF_INET (bs [49;48;46;49;46;50;46;48]) 24%Z)).       (* 10.1.2.0/24 *)
Proof. vm_compute. reflexivity. Qed.
(* "10.1/30 x\n" -> 10.1.0.0/16 *)
Example ex_abbrev : scan_line route_iproute (bs [49;48;46;49;47;51;48;32;120;10]) =
  Ok (Some (mkRoute AF_INET (bs [49;48;46;49;46;48;46;48]) 16%Z)).
Proof. vm_compute. reflexivity. Qed.
(* "10.9.8.7 0.0.0.0 255.255.0.0 U\n" -> 10.9.0.0/16 *)
Example ex_netstat : scan_line route_netstat
  (bs [49;48;46;57;46;56;46;55;32;48;46;48;46;48;46;48;32;50;53;53;46;50;53;53;46;48;46;48;32;85;10]) =
  Ok (Some (mkRoute AF_INET (bs [49;48;46;57;46;48;46;48]) 16%Z)).
Proof. vm_compute. reflexivity. Qed.
(* "    192.168.1.0    255.255.255.0         On-link     192.168.1.100    281\r\n" -> 192.168.1.0/24 *)
Definition ex_win_line : bytes :=
  bs [32;32;32;32;49;57;50;46;49;54;56;46;49;46;48;32;32;32;32;50;53;53;46;50;53;53;46;50;53;53;46;48;
      32;32;32;32;32;32;32;32;32;79;110;45;108;105;110;107;32;32;32;32;32;49;57;50;46;49;54;56;46;49;46;49;48;48;
      32;32;32;32;50;56;49;13;10].
Example ex_windows : scan_line route_windows ex_win_line =
  Ok (Some (mkRoute AF_INET (bs [49;57;50;46;49;54;56;46;49;46;48]) 24%Z)).
Proof. vm_compute. reflexivity. Qed.
(* "127.0.0.0 255.0.0.0 On-link 127.0.0.1 331\n" (loopback) and
   "0.0.0.0 0.0.0.0 192.168.1.1 192.168.1.100 25\n" (default route through a gateway): no route *)
Example ex_windows_skipped :
  scan_line route_windows (bs [49;50;55;46;48;46;48;46;48;32;50;53;53;46;48;46;48;46;48;32;79;110;45;108;105;110;107;32;
                               49;50;55;46;48;46;48;46;49;32;51;51;49;10]) = Ok None /\
  scan_line route_windows (bs [48;46;48;46;48;46;48;32;48;46;48;46;48;46;48;32;49;57;50;46;49;54;56;46;49;46;49;32;
                               49;57;50;46;49;54;56;46;49;46;49;48;48;32;50;53;10]) = Ok None.
Proof. vm_compute. split; reflexivity. Qed.
Example ex_windows_hyps : win_skip (dotted_quad 3232235776) = false /\ spaces (bs [32; 32]) /\ 3232235776 < 2 ^ 32.
Proof. split; [vm_compute; reflexivity|]. split; [split; [discriminate|reflexivity]|reflexivity]. Qed.
Example ex_octets_ok : octets_ok [10; 1] /\ ip_of [10; 1] = 167837696.
Proof. split; [|reflexivity]. split; [discriminate|]. split; [cbn; repeat constructor|repeat constructor]. Qed.
(* a two-route table plus junk is delivered: started, two networks *)
Example ex_delivery :
  match server_advertise IpRoute (ex_ip_line ++ line_abc ++ bs [49;48;46;49;47;51;48;32;120;10]) with
  | Ok wire => match client_receive true true false wire with
               | Some o => (length (added o), fw_started o, failed o)
               | None => (0%nat, false, None)
               end
  | Crash _ => (0%nat, false, None)
  end = (2%nat, true, None).
Proof. vm_compute. reflexivity. Qed.
