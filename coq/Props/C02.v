(* Props/C02.v — C02: end-of-stream follows all data; half-close; tear-down. *)
From Coq Require Import List NArith Ascii Bool Lia.
From SV Require Import Model.StreamQuiet Proofs.Stream_quiet Model.StreamDrain Proofs.Stream_drain Proofs.Stream_drain_clean Model.StreamLoop Proofs.Stream_loop Lib.Bytes Model.Wire Model.Chan Model.Stream
  Proofs.Stream_basic Proofs.Stream_wrap Proofs.Stream_cb Proofs.Stream_reg Proofs.Stream_view
  Proofs.Stream_flow Proofs.Stream_props Gen.Consts.
Import ListNotations.
Local Open Scope N_scope.

(* (1) End-of-stream after all data.  In every reachable state without stale
   delivery (see C01), for every flow and both directions: if shutdown(SHUT_WR) has
   been issued on the receiving socket (vfz) and no socket call of that end ever
   failed (vwfault = false), then every byte read at the sending end has been handed
   to the receiving socket, and the sending end has stopped reading. *)
Theorem c02_eof_after_data : forall maxc lbs evs w rs f,
  run (world0 maxc lbs) evs = Ok w -> w_stale w = false ->
  let v := view_of w rs f in
  vfz v = true -> vwfault v = true \/ (vD v = vA v /\ vrsr v = true).
Proof. intros maxc lbs evs w rs f H Hs. apply (eof_after_data maxc lbs); [exists evs; exact H|exact Hs]. Qed.
Print Assumptions c02_eof_after_data.

(* (2) On the wire no stream payload of a flow ever follows its EOF message. *)
Theorem c02_eof_message_last : forall maxc lbs evs w rs f,
  run (world0 maxc lbs) evs = Ok w -> w_stale w = false ->
  let v := view_of w rs f in vfz v = false -> dae false (vP v) = [].
Proof. intros maxc lbs evs w rs f H Hs. apply (eof_last_on_wire maxc lbs); [exists evs; exact H|exact Hs]. Qed.
Print Assumptions c02_eof_message_last.

(* (3) Half-close: the invariant of one direction never depends on the state of the
   other — while one direction is finished, the reverse one still loses nothing. *)
Theorem c02_half_close_no_loss : forall maxc lbs evs w f,
  run (world0 maxc lbs) evs = Ok w -> w_stale w = false ->
  let a := view_of w Client f in let b := view_of w Server f in
  (vfz a = false -> vD a ++ flat (vY a) ++ data_cat (vP a) ++ flat (vX a) = vA a) /\
  (vfz b = false -> vD b ++ flat (vY b) ++ data_cat (vP b) ++ flat (vX b) = vA b).
Proof.
  intros maxc lbs evs w f H Hs. split; apply (no_loss maxc lbs); try exact Hs; exists evs; exact H.
Qed.
Print Assumptions c02_half_close_no_loss.

(* (4) EOF and STOP_SENDING set flags on the peer and are never echoed. *)
Theorem c02_no_echo : forall sd e fr o e' st,
  (sf_cmd fr = CEof \/ sf_cmd fr = CStop) ->
  mux_got_packet sd e fr o = Ok (e', st) -> x_out (e_mux e') = x_out (e_mux e).
Proof. exact no_echo. Qed.
Print Assumptions c02_no_echo.

(* (5) Tear-down, locally: when a callback declares the flow finished (ok := False)
   both sockets have been shut for writing, both buffers are empty and both mux
   flags are set — so the identifier is released (see C06 c06_distinct: the channel
   table holds exactly the open wrappers). *)
Theorem c02_finished_means_closed : forall sd fid p x o p' x',
  proxy_callback sd fid p x o = Ok (p', x') -> p_ok p = true -> p_ok p' = false ->
  s_sr (p_s p') = true /\ s_sw (p_s p') = true /\ m_sr (p_m p') = true /\ m_sw (p_m p') = true /\
  s_buf (p_s p') = [] /\ m_buf (p_m p') = [].
Proof.
  intros sd fid p x o p' x' H Hok Hno. pose proof (callback_spec _ _ _ _ _ _ _ H) as F. destr_cb F.
  destruct (Fdone Hno) as [C|C]; [congruence|exact C].
Qed.
Print Assumptions c02_finished_means_closed.

(* (6) Known finding F22, as a witness on the faithful model: the application
   half-closes without having sent anything and the EOF reaches the server while the
   connect to the destination is still pending.  The server shuts the connecting
   socket down and, when the connect completes, abandons reading from it: the
   reverse direction never carries a byte although the destination neither closed
   nor failed.  (Full "half-close keeps working in every order" is therefore false
   of the code; (3) is what holds.) *)
Definition f22_events : list event :=
  let io0 := mkIO ConnDone RecvAgain SendAgain true in
  [EvAccept []; EvCallback Client 0 (mkIO ConnDone RecvEof SendAgain true);
   EvFlush Client; EvFlush Client; EvFlush Client;
   EvDeliver Server io0; EvDeliver Server (mkIO (ConnErr EInProgress) RecvAgain SendAgain true);
   EvDeliver Server io0;
   EvCallback Server 0 (mkIO (ConnErr EInProgress) RecvAgain SendAgain true);
   EvCallback Server 0 (mkIO ConnDone (RecvData [ascii_of_N 120]) SendAgain true)].

Theorem c02_half_close_before_connect_refuted :
  match run (world0 65535 32768) f22_events with
  | Ok w =>
    w_stale w = false /\
    (* the destination was connected, never closed, never failed ... *)
    s_fault (pS (sv w 0)) = false /\
    (* ... yet the server stopped reading from it without having read anything *)
    s_sr (pS (sv w 0)) = true /\ dst_read w 0 = []
  | Crash _ => False
  end.
Proof. vm_compute. auto. Qed.
Print Assumptions c02_half_close_before_connect_refuted.

(* The last sentence of C02: "no state reachable under a fair schedule is stuck with
   undelivered data or a half-open flow while nothing is pending".  Stated over the
   quiescent states of the model (StreamQuiet.quiescentb = nothing is pending: links and
   queues empty, no wait set holds a descriptor an eager environment reports ready): *)
(* (a) no undelivered data: in a quiescent state, for every flow and direction whose receiving
   socket has not been shut down and is connected, the peer's buffer, the frames on the way and
   the reading end's buffer are empty and everything read has been handed on *)
Theorem c02_no_stuck_data :
  forall maxc lbs evs w rs f,
  run (world0 maxc lbs) evs = Ok w -> w_stale w = false -> quiescentb w = true ->
  let v := view_of w rs f in
  vfz v = false -> s_conn (pS (wprox w rs f)) = false ->
  vY v = [] /\ vP v = [] /\ flat (vX v) = [] /\ vD v = vA v.
Proof. exact q_c02_no_stuck_data. Qed.
Print Assumptions c02_no_stuck_data.

(* (b) the handlers a quiescent state can contain: waiting for the socket to become readable,
   waiting for the peer, still connecting — or (4th alternative, the shape of finding F20) waiting
   for NOTHING although the termination test of Proxy.callback would succeed *)
Theorem c02_quiet_handler_shape :
  forall maxc lbs evs w sd fid p,
  run (world0 maxc lbs) evs = Ok w -> quiescentb w = true ->
  e_prox (get_end w sd) fid = Some p -> active p = true ->
  let x := e_mux (get_end w sd) in
  (In WSockR (pre_ws sd fid p x) /\ s_sr (p_s (pre_p sd fid p x)) = false) \/
  (In WMuxR (pre_ws sd fid p x) /\ m_sr (p_m (pre_p sd fid p x)) = false) \/
  s_conn (p_s p) = true \/
  (pre_ws sd fid p x = [] /\ finished_test (pre_p sd fid p x) = true).
Proof. exact q_c02_quiet_handler_shape. Qed.
Print Assumptions c02_quiet_handler_shape.

(* (c) no half-open flow waits for a peer that is gone or for a peer that waits for it: every active
   handler waits for the outside world (or has the F20 shape), or it has sent its EOF and its peer
   exists, is active, and itself waits for the outside world.  PARTIAL: the F20 shape is inside
   waits_outside; that the drain reaches a quiescent state is (e) below *)
Theorem c02_no_stuck_state_partial :
  forall maxc lbs evs w sd f p,
  run (world0 maxc lbs) evs = Ok w -> w_stale w = false -> quiescentb w = true ->
  e_prox (get_end w sd) f = Some p -> active p = true ->
  waits_outside sd f p (e_mux (get_end w sd)) \/
  (m_sw (p_m p) = true /\ m_sr (p_m p) = false /\
   exists q, e_prox (get_end w (other sd)) f = Some q /\ active q = true /\
             m_sr (p_m q) = true /\ m_sw (p_m q) = false /\
             waits_outside (other sd) f q (e_mux (get_end w (other sd)))).
Proof. exact q_c02_no_stuck_state_partial. Qed.
Print Assumptions c02_no_stuck_state_partial.

(* (d) the unrestricted sentence — every active handler of a quiescent state waits for something —
   is FALSE of the code as found: known finding F20 (witness evaluated by vm_compute: the
   application resets right after connecting; replayed on the real code by harness/props/c02.py) *)
Theorem c02_no_stuck_state_refuted :
  ~ (forall maxc lbs evs w sd fid p,
       run (world0 maxc lbs) evs = Ok w -> w_stale w = false -> quiescentb w = true ->
       e_prox (get_end w sd) fid = Some p -> active p = true ->
       pre_ws sd fid p (e_mux (get_end w sd)) <> []).
Proof. exact q_c02_no_stuck_state_refuted. Qed.
Print Assumptions c02_no_stuck_state_refuted.

(* (e) ... and such a state is REACHED (Proofs/Stream_drain.v): from every reachable state without
   stale delivery the explicit eager schedule drain_of w ends — without raising — in a stale or
   quiescent state, where (a) and (c) hold: nothing undelivered, no half-open flow waiting for a peer
   that is gone or that waits for it. *)
Theorem c02_eventually_not_stuck :
  forall maxc lbs evs w, run (world0 maxc lbs) evs = Ok w -> w_stale w = false ->
  exists drain w', Forall eager_event drain /\ run w drain = Ok w' /\
    (w_stale w' = true \/
     (quiescent_eagerb w' = true /\
      (forall rs f, let v := view_of w' rs f in
         vfz v = false -> vY v = [] /\ vP v = [] /\ flat (vX v) = [] /\ vD v = vA v) /\
      (forall sd f p, e_prox (get_end w' sd) f = Some p -> active p = true ->
         waits_outside sd f p (e_mux (get_end w' sd)) \/
         (m_sw (p_m p) = true /\ m_sr (p_m p) = false /\
          exists q, e_prox (get_end w' (other sd)) f = Some q /\ active q = true /\
                    m_sr (p_m q) = true /\ m_sw (p_m q) = false /\
                    waits_outside (other sd) f q (e_mux (get_end w' (other sd))))))).
Proof. exact d_c02_eventually_not_stuck. Qed.
Print Assumptions c02_eventually_not_stuck.

Theorem c02_drain_schedule :
  forall maxc lbs evs w, run (world0 maxc lbs) evs = Ok w -> w_stale w = false ->
  Forall eager_event (drain_of w) /\
  match run w (drain_of w) with
  | Ok w' => w_stale w' = true \/ quiescent_eagerb w' = true
  | Crash _ => False
  end.
Proof. exact eager_drain_sched. Qed.
Print Assumptions c02_drain_schedule.

(* (f) ... WITHOUT the escape clause "or a stale delivery happened" (Proofs/Stream_drain_clean.v).
   Dropping it unconditionally is false of the model (C01: c01_drain_unconditional_refuted — a frame
   of an older incarnation of an identifier already on the way to its newer holder); it holds under
   the boolean hypothesis drain_cleanb w (stated in C01 (3d); implied by no_reuseb w: no identifier
   used twice so far): the drain makes no stale delivery and ends strictly quiescent, where nothing is
   undelivered and no half-open flow waits for a peer that is gone or that waits for it. *)
Theorem c02_eventually_not_stuck_clean :
  forall maxc lbs evs w, run (world0 maxc lbs) evs = Ok w -> w_stale w = false -> drain_cleanb w = true ->
  exists w', Forall eager_event (drain_of w) /\ run w (drain_of w) = Ok w' /\
    w_stale w' = false /\ quiescent_eagerb w' = true /\
    (forall rs f, let v := view_of w' rs f in
       vfz v = false -> vY v = [] /\ vP v = [] /\ flat (vX v) = [] /\ vD v = vA v) /\
    (forall sd f p, e_prox (get_end w' sd) f = Some p -> active p = true ->
       waits_outside sd f p (e_mux (get_end w' sd)) \/
       (m_sw (p_m p) = true /\ m_sr (p_m p) = false /\
        exists q, e_prox (get_end w' (other sd)) f = Some q /\ active q = true /\
                  m_sr (p_m q) = true /\ m_sw (p_m q) = false /\
                  waits_outside (other sd) f q (e_mux (get_end w' (other sd))))).
Proof. exact dc_c02_eventually_not_stuck. Qed.
Print Assumptions c02_eventually_not_stuck_clean.

Theorem c02_drain_schedule_clean :
  forall maxc lbs evs w, run (world0 maxc lbs) evs = Ok w -> w_stale w = false -> drain_cleanb w = true ->
  Forall eager_event (drain_of w) /\
  match run w (drain_of w) with
  | Ok w' => w_stale w' = false /\ quiescent_eagerb w' = true
  | Crash _ => False
  end.
Proof. exact eager_drain_clean. Qed.
Print Assumptions c02_drain_schedule_clean.

(* the hypothesis cannot be weakened to nothing: each of its clauses has a witness (MAX_CHANNEL = 1)
   of a reachable state without stale delivery that violates only that clause and whose drain makes
   a stale delivery — (a) a frame of the old flow on the way to the client, (b) unsent bytes in the
   closed client end, (c) a frame of the old flow behind the new CONNECT, (d) unsent bytes in the
   server end that the frames on the way are about to close *)
Example c02_ex_clean_clauses_needed :
  (match run (world0 1 32768) dc_stale with
   | Ok w => w_stale w = false /\ drain_cleanb w = false /\
             match run w (drain_of w) with Ok w' => w_stale w' = true | Crash _ => False end
   | Crash _ => False end) /\
  (match run (world0 1 32768) dc_stale_b with
   | Ok w => w_stale w = false /\ drain_cleanb w = false /\
             match run w (drain_of w) with Ok w' => w_stale w' = true | Crash _ => False end
   | Crash _ => False end) /\
  (match run (world0 1 32768) (dc_stale_b ++ [EvCallback Client 0 dc_io0]) with
   | Ok w => w_stale w = false /\ drain_cleanb w = false /\
             match run w (drain_of w) with Ok w' => w_stale w' = true | Crash _ => False end
   | Crash _ => False end) /\
  (match run (world0 1 32768) dc_stale_d with
   | Ok w => w_stale w = false /\ drain_cleanb w = false /\
             match run w (drain_of w) with Ok w' => w_stale w' = true | Crash _ => False end
   | Crash _ => False end).
Proof. vm_compute. splits; reflexivity. Qed.

(* (g) The MAIN LOOP (Model/StreamLoop.v, Proofs/Stream_loop.v).  The statements above quantify over all orders of
   micro-steps; the real loops are structured: runonce = drop dead handlers; pre_select of every handler in list
   order (the multiplexer FIRST — and, since the repair of finding F160, once more at the end); select() WITHOUT
   timeout; callbacks of the handlers with a ready descriptor, in list order; then check_fullness.
   `iteration lat sd a w` is one such iteration of end sd as a sequence of micro-steps (a: what select() and the
   socket calls answer; lat: latency control on), `presel_pass` the part before select(), `sleepsb` = select() has
   nothing it could report by itself (the process sleeps until the other end or a new connection wakes it),
   `sleeps_eagerb` = nothing it waits for is ready in the eager environment of (a)-(f), `lreach` = reached from
   world0 by complete iterations of either end in any interleaving, with any answers, and connections arriving in
   between.  `…_asfound` is runonce as found (Mux.pre_select first and only once); names ending in `_v` take the
   variant as a parameter (false: as found, true: repaired).
   (g1) an iteration is a micro-step run, so every theorem above applies to states reached by iterations *)
Theorem c02_iteration_is_run : forall fx lat sd a w,
  iteration_v fx lat sd a w = run w (iter_events_v fx lat sd a w).
Proof. exact iteration_is_run_v. Qed.
Print Assumptions c02_iteration_is_run.

Theorem c02_loop_reachable : forall fx lat maxc lbs w,
  lreach_v fx lat maxc lbs w -> exists evs, run (world0 maxc lbs) evs = Ok w.
Proof. exact lreach_reachable_v. Qed.
Print Assumptions c02_loop_reachable.

(* the pass before select() never raises, and is itself a micro-step run *)
Theorem c02_pass_total : forall fx sd w,
  exists po, presel_pass_v fx sd w = Ok po /\ run w (pass_events sd w) = Ok (po_w po).
Proof. intros fx sd w. destruct (pass_never_crashes_v fx sd w) as (po & H). exists po. split; [exact H|exact (pass_is_run_v fx sd w po H)]. Qed.
Print Assumptions c02_pass_total.

(* (g2) the loop invariant the micro-step model cannot have: BETWEEN iterations every live handler owes nothing —
   a peer's EOF whose data is drained has been passed on (shutdown issued), an end-of-stream read with the buffer
   drained has been queued as EOF, nothing is kept for a closed direction.  (Frames are dispatched only inside
   Mux.callback, and whenever Mux.callback runs every proxy, also one it has just created, is called afterwards in
   the same iteration: every proxy holds both tunnel descriptors.) *)
Theorem c02_loop_settled : forall fx lat maxc lbs w sd f p,
  lreach_v fx lat maxc lbs w -> e_prox (get_end w sd) f = Some p -> live p = true -> settledb p = true.
Proof. intros fx lat maxc lbs w sd f p H Hp Hl. apply settledb_spec. exact (lreach_settled_v fx lat maxc lbs w H sd f p Hp Hl). Qed.
Print Assumptions c02_loop_settled.

(* (g3) NO LOST WAKE-UP (the code as repaired).  In every state reached by complete iterations: if select() of end
   sd has nothing ready (strict = true: nothing it could report by itself; strict = false: nothing ready in the
   eager environment) then its outgoing queue is EMPTY, and every handler the loop still runs owes nothing, has
   s.shut_write => m.shut_read and m.shut_write => s.shut_read, and has one of these shapes (sleep_shapeb): paused
   by latency control while holding data; own EOF sent, waiting for the peer's; all four flags set and buffers
   empty with ok still True (the shape of finding F20); and for strict = false also: connecting, or waiting for
   its socket to become readable. *)
Theorem c02_no_lost_wakeup : forall (strict lat : bool) maxc lbs w sd po,
  lreach lat maxc lbs w -> presel_pass sd w = Ok po ->
  sleeps_of (fun p fd => if strict then fd_cand fd else fd_ready p fd) sd po = true ->
  let e1 := get_end (po_w po) sd in
  x_out (e_mux e1) = [] /\
  forall f p1, e_prox e1 f = Some p1 -> active p1 = true -> sleep_shapeb strict p1 (e_mux e1) = true.
Proof. exact no_lost_wakeup. Qed.
Print Assumptions c02_no_lost_wakeup.

(* ... so both ends sleeping IS quiescence, and (a)-(c) hold of it *)
Theorem c02_both_sleep_quiescent : forall (strict lat : bool) maxc lbs w,
  lreach lat maxc lbs w ->
  (forall sd, (if strict then sleepsb sd w else sleeps_eagerb sd w) = true) ->
  (if strict then quiescent_eagerb w else quiescentb w) = true.
Proof. exact both_sleep_quiescent. Qed.
Print Assumptions c02_both_sleep_quiescent.

(* (g4) the code AS FOUND: the queue of a sleeping end holds EXACTLY the STOP_SENDING messages Proxy.pre_select
   queued in this very pass, after Mux.pre_select had found the queue empty (late_frames: one per handler with
   shut_write on its socket and no shut_read on its tunnel wrapper) — nothing iff no handler is in that situation
   (no_late_stopb); the handlers are as in (g3) *)
Theorem c02_no_lost_wakeup_asfound : forall (strict lat : bool) maxc lbs w sd po,
  lreach_asfound lat maxc lbs w -> presel_pass_asfound sd w = Ok po ->
  sleeps_of (fun p fd => if strict then fd_cand fd else fd_ready p fd) sd po = true ->
  let e1 := get_end (po_w po) sd in
  x_out (e_mux e1) = late_frames sd w /\
  (no_late_stopb sd w = true -> x_out (e_mux e1) = []) /\
  forall f p1, e_prox e1 f = Some p1 -> active p1 = true -> sleep_shapeb strict p1 (e_mux e1) = true.
Proof. exact no_lost_wakeup_asfound. Qed.
Print Assumptions c02_no_lost_wakeup_asfound.

Theorem c02_both_sleep_quiescent_asfound : forall (strict lat : bool) maxc lbs w,
  lreach_asfound lat maxc lbs w ->
  (forall sd, (if strict then sleepsb_asfound sd w else sleeps_eagerb_asfound sd w) = true) ->
  no_late_stopb Client w = true -> no_late_stopb Server w = true ->
  (if strict then quiescent_eagerb w else quiescentb w) = true.
Proof. exact both_sleep_quiescent_asfound. Qed.
Print Assumptions c02_both_sleep_quiescent_asfound.

(* (g5) the hypothesis cannot be dropped for the code as found: finding F160 (fixed).  The application stops reading
   (EPIPE) while data of the destination is on its way, the client sends STOP_SENDING; in the iteration in which
   the server dispatches it the destination socket fails.  That callback queues nothing; the next pre_select
   queues STOP_SENDING after Mux.pre_select found the queue empty; select() has nothing to report: the server
   sleeps with the message in its queue, the client keeps handler, socket and identifier of the flow.  Replayed on
   the real code by harness/props/stream_common.py (EXTRA_CASES["C02"], finding_id F160). *)
Theorem c02_no_lost_wakeup_asfound_refuted :
  ~ (forall lat maxc lbs w sd po, lreach_asfound lat maxc lbs w -> presel_pass_asfound sd w = Ok po ->
       sleeps_of (fun _ => fd_cand) sd po = true -> x_out (e_mux (get_end (po_w po) sd)) = []).
Proof. exact no_lost_wakeup_asfound_refuted. Qed.
Print Assumptions c02_no_lost_wakeup_asfound_refuted.

Example c02_ex_f160_state :
  lreach_asfound true 5 32768 f160_world /\
  sleepsb_asfound Server f160_world = true /\
  queue_after false Server f160_world = [mkSF 1 CStop [] (Some 0)] /\
  sleeps_eagerb_asfound Client f160_world = true /\
  no_late_stopb Server f160_world = false /\
  quiescentb f160_world = false /\
  x_chan (e_mux (w_cl f160_world)) 1 = Some 0 /\
  (* the same script on the repaired loop does not leave the server asleep *)
  sleepsb Server (world_of_v true f160_script) = false.
Proof.
  split; [exact f160_reached|]. destruct f160_state as (A & B & C & D & E & F & _ & G). splits; assumption.
Qed.

(* (g6) the same as booleans (what the driver evaluates and the harness compares with World.blocked), both variants *)
Theorem c02_sleep_ok : forall (strict fx lat : bool) maxc lbs w sd,
  lreach_v fx lat maxc lbs w ->
  (if strict then sleepsb_v fx sd w else sleeps_eagerb_v fx sd w) = true -> sleep_okb_v fx strict sd w = true.
Proof. exact sleep_okb_holds_v. Qed.
Print Assumptions c02_sleep_ok.

(* non-vacuity of (g3)/(g4): a reached state with a live handler at each end in which both ends sleep (the server
   with nothing select() could report), no late STOP_SENDING is due, and which is quiescent *)
Example c02_ex_sleeping_state :
  lreach_asfound true 5 32768 calm_world /\
  sleepsb_asfound Server calm_world = true /\ sleeps_eagerb_asfound Client calm_world = true /\
  no_late_stopb Client calm_world = true /\ no_late_stopb Server calm_world = true /\
  quiescentb calm_world = true.
Proof.
  split; [exact calm_reached|]. destruct calm_state as (A & B & C & D & _ & E). splits; assumption.
Qed.
