(* Props/C05.v — C05: the server is asked to reach the address and port the
   application dialled.  Statements only; proofs are `exact <lemma>` (or a few
   lines of glue) into Proofs/Addr_lemmas.v, each followed by Print Assumptions.
   Addresses are raw byte strings of length 4 / 16 (all 2^32 / 2^128 of them),
   ports are all p < 65536; e ranges over both host byte orders. *)
From Coq Require Import List NArith ZArith Ascii Bool.
From SV Require Import Lib.Bytes Gen.Consts Model.Addr Proofs.Addr_lemmas.
Import ListNotations.
Local Open Scope N_scope.

(* (1) original_dst on the kernel's struct sockaddr_in (followed by anything). *)
Theorem c05_sockaddr_in : forall e a p tail sn,
  length a = 4%nat -> p < 65536 ->
  original_dst AF_INET (inl (sockaddr_in e a p ++ tail)) sn = Ok (fmt4 a, p).
Proof. exact original_dst_in. Qed.
Print Assumptions c05_sockaddr_in.

(* (2) ... and on struct sockaddr_in6, for every flow label and scope id and
       whatever follows the 28 bytes (Linux leaves 36 stale bytes behind it). *)
Theorem c05_sockaddr_in6 : forall e a p flow scope tail sn,
  length a = 16%nat -> length flow = 4%nat -> p < 65536 ->
  original_dst AF_INET6 (inl (sockaddr_in6 e a p flow scope ++ tail)) sn = Ok (fmt6 a, p).
Proof. exact original_dst_in6. Qed.
Print Assumptions c05_sockaddr_in6.

(* (3) tproxy.recv_udp: '=HH' + htons on a host of either endianness, the
       message possibly preceded by unrelated control messages. *)
Theorem c05_cmsg4 : forall e a p tail pre post,
  length a = 4%nat -> p < 65536 -> forallb cmsg_other pre = true ->
  recv_udp_dst e (pre ++ (SOL_IP, IP_ORIGDSTADDR, sockaddr_in e a p ++ tail) :: post)
  = Ok (Some (fmt4 a, p)).
Proof. exact cmsg4. Qed.
Print Assumptions c05_cmsg4.

(* the IPv6 message data is sockaddr_in6 cut after the address (24 bytes, as
   Linux delivers it into CMSG_SPACE(24)) or longer: `tail` is arbitrary *)
Theorem c05_cmsg6 : forall e a p flow tail pre post,
  length a = 16%nat -> length flow = 4%nat -> p < 65536 -> forallb cmsg_other pre = true ->
  recv_udp_dst e (pre ++ (SOL_IPV6, IPV6_ORIGDSTADDR,
                          native_u16 e AF_INET6 ++ put_u16 p ++ flow ++ a ++ tail) :: post)
  = Ok (Some (fmt6_ntop a, p)).
Proof. exact cmsg6. Qed.
Print Assumptions c05_cmsg6.

(* (3k) the same through the control buffer as the KERNEL fills it (Linux put_cmsg: a message that
       does not fit is CUT to the room left and MSG_CTRUNC is reported).  recv_udp offers
       CMSG_SPACE(24): 24 bytes of data room behind one header.  struct sockaddr_in (16 bytes) is
       stored whole, no flag.  struct sockaddr_in6 is 28 bytes: for EVERY IPv6 datagram the kernel
       cuts it (inside the scope id, the address is intact) and sets MSG_CTRUNC - and the dialled
       destination is still what recv_udp returns.  Stated for every header size / alignment and
       every buffer with at least 24 bytes of data room. *)
Theorem c05_cmsg4_kernel : forall e a p hdr al room,
  length a = 4%nat -> p < 65536 -> hdr + 16 <= room ->
  recv_udp_kernel e hdr al room [(SOL_IP, IP_ORIGDSTADDR, sockaddr_in e a p)] = (Ok (Some (fmt4 a, p)), false).
Proof. exact cmsg4_kernel. Qed.
Print Assumptions c05_cmsg4_kernel.

Theorem c05_cmsg6_kernel : forall e a p flow scope hdr al room,
  length a = 16%nat -> length flow = 4%nat -> p < 65536 -> hdr + ANC_DATA_ROOM <= room ->
  fst (recv_udp_kernel e hdr al room [(SOL_IPV6, IPV6_ORIGDSTADDR, sockaddr_in6 e a p flow scope)])
  = Ok (Some (fmt6_ntop a, p)).
Proof. exact cmsg6_kernel. Qed.
Print Assumptions c05_cmsg6_kernel.

Theorem c05_cmsg6_kernel_always_ctrunc : forall e a p flow scope hdr al room,
  length a = 16%nat -> length flow = 4%nat -> length scope = 4%nat -> hdr <= room -> room < hdr + 28 ->
  snd (recv_udp_kernel e hdr al room [(SOL_IPV6, IPV6_ORIGDSTADDR, sockaddr_in6 e a p flow scope)]) = true.
Proof. exact cmsg6_kernel_ctrunc. Qed.
Print Assumptions c05_cmsg6_kernel_always_ctrunc.

(* the buffer recv_udp offers on 64-bit and 32-bit Linux satisfies both hypotheses: 24 bytes of data room, fewer than 28 *)
Example c05_ex_anc_room :
  cmsg_space 16 8 ANC_DATA_ROOM = 40 /\ cmsg_space 12 4 ANC_DATA_ROOM = 36 /\
  16 + ANC_DATA_ROOM <= 40 /\ 40 < 16 + 28 /\ 12 + ANC_DATA_ROOM <= 36 /\ 36 < 12 + 28.
Proof. repeat split; vm_compute; congruence. Qed.

(* (4) canonical texts parse back to the address and never contain ','. *)
Theorem c05_text_v4 : forall a, length a = 4%nat ->
  parse4 (fmt4 a) = Some a /\ ~ In COMMA (fmt4 a).
Proof. intros a H. split; [exact (parse4_fmt4 a H)|exact (fmt4_no_comma a)]. Qed.
Print Assumptions c05_text_v4.

(* RFC 5952 text as printed by ipaddress.IPv6Address.__str__ (fmt6: used by
   original_dst) and by inet_ntop (fmt6_ntop: used by recv_udp, getsockname,
   pf; dotted tail for ::a.b.c.d and ::ffff:a.b.c.d) *)
Theorem c05_text_v6 : forall a, length a = 16%nat ->
  parse6 (fmt6 a) = Some a /\ parse6 (fmt6_ntop a) = Some a /\
  ~ In COMMA (fmt6 a) /\ ~ In COMMA (fmt6_ntop a).
Proof.
  intros a H. split; [exact (parse6_fmt6 a H)|]. split; [exact (parse6_fmt6_ntop a H)|].
  split; [exact (fmt6_no_comma a H)|exact (fmt6_ntop_no_comma a H)].
Qed.
Print Assumptions c05_text_v6.

(* decimal and hexadecimal digit codecs, all n *)
Theorem c05_number_codecs : forall n,
  py_int (dec n) = Some (Z.of_N n) /\ undec (dec n) = Some n /\ undigits 16 hex_val (hex n) 0 = Some n.
Proof. intros n. split; [exact (py_int_dec n)|]. split; [exact (undec_dec n)|exact (unhex_hex n)]. Qed.
Print Assumptions c05_number_codecs.

(* (5) CONNECT payload b'%d,%s,%d' against server.new_channel *)
Theorem c05_connect_roundtrip : forall fam ip port,
  ~ In COMMA ip -> is_ascii7 ip = true ->
  new_channel (connect_payload fam ip port)
  = Ok (if fam =? 2 then FamV4 else FamV6, ip, Z.of_N port).
Proof. exact new_channel_connect. Qed.
Print Assumptions c05_connect_roundtrip.

(* (6) UDP header b"%s,%d," + payload (which may contain commas) against udp_req *)
Theorem c05_udp_header_roundtrip : forall ip port payload,
  ~ In COMMA ip -> udp_req (udp_frame ip port payload) = Ok (ip, Z.of_N port, payload).
Proof. exact udp_req_frame. Qed.
Print Assumptions c05_udp_header_roundtrip.

(* (7) pf.  The request line is at most 128 bytes for every pair of addresses
       of either family (fam printed with up to 5 digits): it fits the helper's
       readline(128) of sshuttle as found ... *)
Theorem c05_pf_request_fits : forall fam6 fam pa pt pp xa xt xp,
  fam < 65536 -> pp < 65536 -> xp < 65536 ->
  addr_text fam6 fam pa pt -> addr_text fam6 fam xa xt ->
  (length (pf_request fam (pt, pp) (xt, xp)) <= 128)%nat.
Proof. exact pf_fits. Qed.
Print Assumptions c05_pf_request_fits.

(* ... and the reader the code has today (regenerated from /repo: readline(128)
   as found, readline() after the F5 repair) does not cut such lines ... *)
Theorem c05_pf_reader_of_code : limit_ok readline_limit_code.
Proof. exact readline_limit_code_ok. Qed.
Print Assumptions c05_pf_reader_of_code.

(* ... so the helper (readline, decode, strip, firewall_command, query_nat)
   looks up exactly the state the client asked about, and answers with one line *)
Theorem c05_pf_query_roundtrip : forall fam6 lim fam kernel pa pt pp xa xt xp rest,
  limit_ok lim -> fam < 65536 -> pp < 65536 -> xp < 65536 ->
  addr_text fam6 fam pa pt -> addr_text fam6 fam xa xt ->
  let q := mkNatQuery (Z.of_N fam) 6 pa (Z.of_N pp) xa (Z.of_N xp) in
  helper_step fam6 lim kernel (pf_request fam (pt, pp) (xt, xp) ++ rest)
  = TOut (match kernel q with
          | NatFound ra rp => HReply (Some q) (s_SUCCESS ++ fmt_by_len ra ++ COMMA :: dec rp ++ [NL])
          | NatError m => HReply (Some q) (s_FAILURE ++ m ++ [NL])
          end) rest.
Proof. exact pf_query_roundtrip. Qed.
Print Assumptions c05_pf_query_roundtrip.

(* the whole dialogue: get_tcp_dstip returns the kernel's translated destination *)
Theorem c05_pf_dialogue_success : forall fam6 lim fam kernel pa pt pp xa xt xp ra rp,
  limit_ok lim -> fam < 65536 -> pp < 65536 -> xp < 65536 ->
  addr_text fam6 fam pa pt -> addr_text fam6 fam xa xt ->
  kernel (mkNatQuery (Z.of_N fam) 6 pa (Z.of_N pp) xa (Z.of_N xp)) = NatFound ra rp ->
  (length ra = 4%nat \/ length ra = 16%nat) ->
  pf_get_tcp_dstip fam6 fam lim kernel (inl (pt, pp)) (xt, xp) = Ok (fmt_by_len ra, Z.of_N rp).
Proof. exact pf_dialogue_success. Qed.
Print Assumptions c05_pf_dialogue_success.

(* the text in the reply is the inet_ntop text of the translated address *)
Theorem c05_pf_reply_text : forall ra,
  (length ra = 4%nat -> fmt_by_len ra = fmt4 ra) /\ (length ra = 16%nat -> fmt_by_len ra = fmt6_ntop ra).
Proof. intros ra. split; [exact (fmt_by_len_4 ra)|exact (fmt_by_len_16 ra)]. Qed.
Print Assumptions c05_pf_reply_text.

(* (8) the self-address guard: dropped iff original port = listening port and
       the address is local ... *)
Theorem c05_self_guard : forall islocal fam dst lp chan,
  onaccept_tcp islocal fam dst lp chan = AccDropSelf <-> (snd dst = lp /\ islocal (fst dst) = true).
Proof. exact self_guard_iff. Qed.
Print Assumptions c05_self_guard.

(* ... and when the pf look-up fails the fallback is the socket's own name,
   which trips the guard as soon as that name is local *)
Theorem c05_pf_failure_guard : forall fam6 lim fam kernel pa pt pp xa xt xp m islocal chan,
  limit_ok lim -> fam < 65536 -> pp < 65536 -> xp < 65536 ->
  addr_text fam6 fam pa pt -> addr_text fam6 fam xa xt ->
  kernel (mkNatQuery (Z.of_N fam) 6 pa (Z.of_N pp) xa (Z.of_N xp)) = NatError m ->
  is_ascii7 m = true -> islocal xt = true ->
  pf_get_tcp_dstip fam6 fam lim kernel (inl (pt, pp)) (xt, xp) = Ok (xt, Z.of_N xp) /\
  onaccept_tcp islocal fam (xt, xp) xp chan = AccDropSelf.
Proof.
  intros fam6 lim fam kernel pa pt pp xa xt xp m islocal chan Hlim Hf Hpp Hxp Tp Tx Hk Hm Hl. split.
  - eapply pf_dialogue_failure; eassumption.
  - apply self_guard_iff. split; [reflexivity|exact Hl].
Qed.
Print Assumptions c05_pf_failure_guard.

(* (9) composition: what ssnet.connect_dst (resp. UdpProxy.send) receives on
       the server is the destination the kernel reported, for each mechanism;
       `delivered` = nothing when the guard fires, else (family class, text, port),
       and by (4) the text denotes exactly the address a. *)
Theorem c05_end_to_end : forall islocal e chan (snip : bytes) lp,
  chan <> 0 ->
  (* nat / nft, IPv4 and IPv6: SO_ORIGINAL_DST *)
  (forall a p tail, length a = 4%nat -> p < 65536 ->
     e2e_nat islocal AF_INET (inl (sockaddr_in e a p ++ tail)) (snip, lp) chan
     = delivered islocal FamV4 (fmt4 a) p lp) /\
  (forall a p flow scope tail, length a = 16%nat -> length flow = 4%nat -> p < 65536 ->
     e2e_nat islocal AF_INET6 (inl (sockaddr_in6 e a p flow scope ++ tail)) (snip, lp) chan
     = delivered islocal FamV6 (fmt6 a) p lp) /\
  (* tproxy TCP: the transparent socket's own name *)
  (forall a p, e2e_text islocal AF_INET (sockname4 a p) p chan = delivered islocal FamV4 (fmt4 a) p p) /\
  (forall fam a p, fam <> 2 -> length a = 16%nat ->
     e2e_text islocal fam (sockname6 a p) p chan = delivered islocal FamV6 (fmt6_ntop a) p p) /\
  (* tproxy UDP: ancillary data; the payload travels unchanged *)
  (forall a p tail pre post payload, length a = 4%nat -> p < 65536 -> forallb cmsg_other pre = true ->
     e2e_udp e (pre ++ (SOL_IP, IP_ORIGDSTADDR, sockaddr_in e a p ++ tail) :: post) payload
     = Ok (Some (fmt4 a, Z.of_N p, payload))) /\
  (forall a p flow tail pre post payload, length a = 16%nat -> length flow = 4%nat -> p < 65536 ->
     forallb cmsg_other pre = true ->
     e2e_udp e (pre ++ (SOL_IPV6, IPV6_ORIGDSTADDR,
                        native_u16 e AF_INET6 ++ put_u16 p ++ flow ++ a ++ tail) :: post) payload
     = Ok (Some (fmt6_ntop a, Z.of_N p, payload))).
Proof.
  intros islocal e chan snip lp Hc.
  split; [intros; apply e2e_nat4; assumption|].
  split; [intros; apply e2e_nat6; assumption|].
  split; [intros; apply e2e_text4; assumption|].
  split; [intros; apply e2e_text6; assumption|].
  split; [intros; apply e2e_udp4; assumption|].
  intros; apply e2e_udp6; assumption.
Qed.
Print Assumptions c05_end_to_end.

(* pf: the destination the dialogue returned, handed to onaccept_tcp/new_channel *)
Theorem c05_end_to_end_pf : forall islocal chan fam ra rp lp,
  chan <> 0 -> (length ra = 4%nat \/ length ra = 16%nat) ->
  e2e_text islocal fam (fmt_by_len ra, rp) lp chan
  = delivered islocal (if fam =? 2 then FamV4 else FamV6) (fmt_by_len ra) rp lp.
Proof.
  intros islocal chan fam ra rp lp Hc Hra.
  exact (e2e_text_ok islocal fam (fmt_by_len ra) rp lp chan Hc (fmt_by_len_addr_ch ra Hra)).
Qed.
Print Assumptions c05_end_to_end_pf.

(* ------------------------------------------------------------------ *)
(* Non-vacuity: concrete instances (vm_compute).                        *)

Definition bs (l : list N) : bytes := map ch l.

(* 10.1.2.3:8080 on a little-endian host: the 16 bytes a real kernel returned
   in the design probe (02001f900a010203 + 8 zero bytes) *)
Example c05_ex_layout :
  sockaddr_in LE (bs [10; 1; 2; 3]) 8080 = bs [2; 0; 31; 144; 10; 1; 2; 3; 0; 0; 0; 0; 0; 0; 0; 0].
Proof. vm_compute. reflexivity. Qed.

Example c05_ex_nat4 :
  e2e_nat (fun _ => true) AF_INET (inl (sockaddr_in LE (bs [10; 1; 2; 3]) 8080)) (bs [49], 12300) 7
  = Ok (Some (FamV4, bs [49; 48; 46; 49; 46; 50; 46; 51], 8080%Z)).
Proof. vm_compute. reflexivity. Qed.

(* the guard fires: port = listening port and address local *)
Example c05_ex_guard :
  e2e_nat (fun _ => true) AF_INET (inl (sockaddr_in BE (bs [127; 0; 0; 1]) 12300)) (bs [49], 12300) 7 = Ok None.
Proof. vm_compute. reflexivity. Qed.

(* ::ffff:1.2.3.4 — the two printers differ ("::ffff:102:304" / "::ffff:1.2.3.4"),
   both parse back *)
Example c05_ex_mapped :
  let a := bs [0; 0; 0; 0; 0; 0; 0; 0; 0; 0; 255; 255; 1; 2; 3; 4] in
  fmt6 a = bs [58; 58; 102; 102; 102; 102; 58; 49; 48; 50; 58; 51; 48; 52] /\
  fmt6_ntop a = bs [58; 58; 102; 102; 102; 102; 58; 49; 46; 50; 46; 51; 46; 52] /\
  parse6 (fmt6 a) = Some a /\ parse6 (fmt6_ntop a) = Some a.
Proof. vm_compute. repeat split. Qed.

(* the longest pf request: two ffff:...:ffff addresses, ports 65535: 110 bytes *)
Example c05_ex_pf_longest :
  let a := bs (repeat 255 16) in
  addr_text 10 10 a (fmt6_ntop a) /\
  length (pf_request 10 (fmt6_ntop a, 65535) (fmt6_ntop a, 65535)) = 110%nat.
Proof.
  cbv zeta. split.
  - right. repeat split. discriminate.
  - vm_compute. reflexivity.
Qed.

(* a full pf dialogue on concrete data *)
Example c05_ex_pf_dialogue :
  let a := bs [10; 0; 0; 5] in let x := bs [127; 0; 0; 1] in
  pf_get_tcp_dstip 30 2 readline_limit_code (fun q => NatFound (bs [10; 1; 2; 3]) 8080) (inl (fmt4 a, 40000)) (fmt4 x, 12300)
  = Ok (bs [49; 48; 46; 49; 46; 50; 46; 51], 8080%Z).
Proof. vm_compute. reflexivity. Qed.

(* a request longer than 128 bytes WOULD be cut by readline(128): the bound in
   c05_pf_request_fits is what keeps the dialogue intact in sshuttle as found *)
Example c05_ex_readline_cuts :
  snd (readline_opt (Some 128%nat) (repeat (ch 65) 130 ++ [NL])) = [ch 65; ch 65; NL].
Proof. vm_compute. reflexivity. Qed.
