(* Props/C11.v — C11: forwarded UDP keeps datagram boundaries, payload and addressing.
   Statements only; every proof is `exact <lemma>` (or a few lines of glue) into
   Proofs/Dgram_lemmas.v, followed by Print Assumptions.  Model: Model/Dgram.v (the code after
   the repairs F3, F4, F10, F16; `as_found` = the code before them).                          *)
From Coq Require Import List NArith Ascii Bool.
From SV Require Import Lib.Bytes Lib.DgramLib Model.Chan Model.Dgram Proofs.Dgram_lemmas Model.DgramSys Proofs.DgramServer_lemmas Proofs.DgramSystem_lemmas Proofs.DgramMixed_lemmas Gen.Consts.
Import ListNotations.
Local Open Scope N_scope.

(* the header 'ip,port,' + payload (client.py 557-558 b"%s,%d,", server.py 283 b("%s,%r,")) decoded by split(b',', 2) + int(): for every address text without ',', every port, every payload (commas, NULs, anything) the three fields come back — the same function is used in both directions *)
Theorem c11_header_roundtrip :
  forall ip port data,
  no_comma ip ->
  split3 (dgram_hdr (ip, port) data) = Some (ip, dec port, data) /\ undec (dec port) = Some port.
Proof. exact hdr_roundtrip. Qed.
Print Assumptions c11_header_roundtrip.

(* a payload cut at 4096 behind a header with an address text of up to 61000 bytes and a port < 2^64 passes Mux.send's 65535 limit *)
Theorem c11_frame_size :
  forall ip port data,
  lenN ip <= 61000 -> port < 2 ^ 64 ->
  lenN (dgram_hdr (ip, port) (takeN BUFSIZE data)) <= 65535.
Proof. exact hdr_fits. Qed.
Print Assumptions c11_frame_size.

(* CLIENT, onaccept_udp for a source with a live association: exactly one UDP_DATA frame, header = dialled (ip, port), payload verbatim (cut at 4096), on the SAME identifier, no UDP_OPEN; the deadline is refreshed to now+30; then lazy expiry of the others *)
Theorem c11_shared_socket :
  forall cfg now src d payload c ch dl0,
  cinv cfg c -> cc_method cfg = MTproxy -> alookup addr_eqb src (c_udp c) = Some (ch, dl0) ->
  lenN (fst d) <= 61000 -> snd d < 2 ^ 64 ->
  let c1 := c_after_udp c (c_chan c) (c_chani c) src ch now in
  exists c', onaccept_udp all_fixed cfg now src (Some d) payload c =
      Ok (c', OFrame ch CMD_UDP_DATA (dgram_hdr d (takeN BUFSIZE payload)) :: closes now c1) /\
    cinv cfg c' /\ alookup addr_eqb src (c_udp c') = Some (ch, now + TIMEOUT) /\
    alookup N.eqb ch (c_chan c') = Some (KUdp src) /\
    c_udp c' = filter (fun p => negb (udp_expired now p)) (c_udp c1) /\ c_nq c' = c_nq c /\
    forall ch0 k, alookup N.eqb ch0 (c_chan c') = Some k -> alookup N.eqb ch0 (c_chan c) = Some k.
Proof. exact onaccept_udp_known. Qed.
Print Assumptions c11_shared_socket.

(* CLIENT, onaccept_udp for a source without association: a FRESH identifier (not in the channel table), UDP_OPEN(family) then exactly one UDP_DATA frame; both tables record it with deadline now+30; with no free identifier the datagram is dropped (F3 repaired) and expiry still runs *)
Theorem c11_one_to_one_capture_new :
  forall cfg now src d payload c,
  cfg_ok' cfg -> cinv cfg c -> cc_method cfg = MTproxy -> alookup addr_eqb src (c_udp c) = None ->
  lenN (fst d) <= 61000 -> snd d < 2 ^ 64 ->
  match fst (next_channel (cc_maxc cfg) (c_occ c) (c_chani c)) with
  | None =>
    exists c', onaccept_udp all_fixed cfg now src (Some d) payload c = Ok (c', closes now c) /\ cinv cfg c' /\
      c_udp c' = filter (fun p => negb (udp_expired now p)) (c_udp c) /\ c_nq c' = c_nq c /\
      forall ch0 k, alookup N.eqb ch0 (c_chan c') = Some k -> alookup N.eqb ch0 (c_chan c) = Some k
  | Some ch =>
    alookup N.eqb ch (c_chan c) = None /\
    let c1 := c_after_udp c (aset N.eqb ch (KUdp src) (c_chan c)) ch src ch now in
    exists c', onaccept_udp all_fixed cfg now src (Some d) payload c =
        Ok (c', OFrame ch CMD_UDP_OPEN (dec (cc_family cfg)) ::
                OFrame ch CMD_UDP_DATA (dgram_hdr d (takeN BUFSIZE payload)) :: closes now c1) /\
      cinv cfg c' /\ alookup addr_eqb src (c_udp c') = Some (ch, now + TIMEOUT) /\
      alookup N.eqb ch (c_chan c') = Some (KUdp src) /\
      c_udp c' = filter (fun p => negb (udp_expired now p)) (c_udp c1) /\ c_nq c' = c_nq c /\
      forall ch0 k, alookup N.eqb ch0 (c_chan c') = Some k -> ch0 = ch \/ alookup N.eqb ch0 (c_chan c) = Some k
  end.
Proof. exact onaccept_udp_new. Qed.
Print Assumptions c11_one_to_one_capture_new.

(* SERVER, udp_req: one UDP_DATA frame => exactly one sendto, identical payload, to the dialled (ip, port), on the one socket of the channel's UdpProxy (shared socket); a send error is logged *)
Theorem c11_one_to_one_sendto :
  forall fx ch s io hid u ip port payload,
  alookup N.eqb ch (s_udph s) = Some hid -> alookup N.eqb hid (s_h s) = Some (HUdp u) ->
  no_comma ip -> port <= 65535 ->
  udp_req fx ch FUdpData (dgram_hdr (ip, port) payload) s io =
    Ok (s, snd (pop io),
        [SSendto (u_sock u) (ip, port) payload (match fst (pop io) with IoErr _ => false | _ => true end)]).
Proof. exact udp_req_data_spec. Qed.
Print Assumptions c11_one_to_one_sendto.

(* SERVER, UdpProxy.callback: one received datagram => exactly one UDP_DATA frame 'peer_ip,peer_port,' + data (cut at 4096) *)
Theorem c11_one_to_one_reply_frame :
  forall fx u s io data peer,
  fst (pop io) = IoFrom data peer -> u_chan u <= 65535 -> lenN (fst peer) <= 61000 -> snd peer < 2 ^ 64 ->
  udp_callback fx u s io =
    Ok (s, snd (pop io), [SFrame (u_chan u) CMD_UDP_DATA (dgram_hdr peer (takeN BUFSIZE data)) 0]).
Proof. exact udp_callback_reply. Qed.
Print Assumptions c11_one_to_one_reply_frame.

(* CLIENT, udp_done: one such frame => exactly one datagram with the payload to the recorded source, sent from a socket bound to the replying host's (ip, port); a send error is logged (F16 repaired) *)
Theorem c11_one_to_one_reply_delivery :
  forall cfg c ch src ip port payload sr,
  cinv cfg c -> alookup N.eqb ch (c_chan c) = Some (KUdp src) -> no_comma ip ->
  got_packet all_fixed cfg ch (dgram_hdr (ip, port) payload) sr c =
    Ok (c, match sr with SendOk => [ODgram None (Some (ip, port)) src payload] | SendErr _ => [] end).
Proof. exact udp_done_spec. Qed.
Print Assumptions c11_one_to_one_reply_delivery.

(* CLIENT: an association whose deadline is < now is closed by the next expire_connections(now): UDP_CLOSE on its identifier, gone from both tables (so the next datagram of that source takes c11_one_to_one_capture_new: fresh identifier) *)
Theorem c11_idle_expiry :
  forall cfg now c src ch dl,
  cinv cfg c -> alookup addr_eqb src (c_udp c) = Some (ch, dl) -> dl < now ->
  exists c', expire now c = Ok (c', closes now c) /\ cinv cfg c' /\
    In (OFrame ch CMD_UDP_CLOSE []) (closes now c) /\
    alookup addr_eqb src (c_udp c') = None /\ alookup N.eqb ch (c_chan c') = None.
Proof. exact expire_idle. Qed.
Print Assumptions c11_idle_expiry.

(* CLIENT: an association with deadline >= now survives untouched (strict <) *)
Theorem c11_idle_keep :
  forall cfg now c src ch dl,
  cinv cfg c -> alookup addr_eqb src (c_udp c) = Some (ch, dl) -> now <= dl ->
  exists c', expire now c = Ok (c', closes now c) /\
    alookup addr_eqb src (c_udp c') = Some (ch, dl) /\ alookup N.eqb ch (c_chan c') = Some (KUdp src).
Proof. exact expire_keeps. Qed.
Print Assumptions c11_idle_keep.

(* SERVER: UDP_CLOSE marks the channel's handler dead, removes the channel and (F80 repaired) forgets the
   association at once *)
Theorem c11_idle_expiry_server_close :
  forall ch data s io hid u,
  alookup N.eqb ch (s_udph s) = Some hid -> alookup N.eqb hid (s_h s) = Some (HUdp u) ->
  exists s', udp_req all_fixed ch FUdpClose data s io = Ok (s', io, []) /\
    alookup N.eqb hid (s_h s') = Some (HUdp (set_uok u false)) /\ mem ch (s_chan s') = false /\
    s_udph s' = adel N.eqb ch (s_udph s).
Proof. intros ch data s io hid u. exact (udp_close_spec all_fixed ch data s io hid u). Qed.
Print Assumptions c11_idle_expiry_server_close.

(* SERVER sweep: a dead UdpProxy leaves udphandlers, a live one stays (then c10_server_handler_retired-style removal: sstep_handlers_ok) *)
Theorem c11_idle_expiry_server_sweep :
  forall now s ch hid u,
  NoDup (map fst (s_udph s)) -> alookup N.eqb ch (s_udph s) = Some hid -> alookup N.eqb hid (s_h s) = Some (HUdp u) ->
  alookup N.eqb ch (s_udph (sweep now s)) = if u_ok u then Some hid else None.
Proof. exact sweep_udp_spec. Qed.
Print Assumptions c11_idle_expiry_server_sweep.

(* SERVER: after every iteration only live handlers remain *)
Theorem c11_server_handlers_live :
  forall fx cfg s e s' o,
  sstep fx cfg s e = Ok (s', o) ->
  Forall (fun p => h_ok (snd p) = true) (s_h s').
Proof. exact sstep_handlers_ok. Qed.
Print Assumptions c11_server_handlers_live.

(* CLIENT: every protocol-conforming event from any reachable state is handled without exception (identifier exhaustion, send errors) *)
Theorem c11_no_crash_step :
  forall cfg c e,
  cfg_ok' cfg -> cinv cfg c -> ev_sane cfg c e ->
  exists c' o, cstep all_fixed cfg c e = Ok (c', o) /\ cinv cfg c' /\ c_nq c <= c_nq c' /\
    (forall q, in_table q c' -> in_table q c \/ c_nq c <= q) /\
    (forall q, (count_q q o <= 1)%nat /\ (count_q q o = 1%nat -> in_table q c /\ ~ in_table q c')).
Proof. exact cstep_ok. Qed.
Print Assumptions c11_no_crash_step.

(* CLIENT, whole runs: no exception ever *)
Theorem c11_no_crash :
  forall cfg,
  cfg_ok' cfg -> forall evs c, cinv cfg c -> sane_run cfg c evs ->
  snd (crun all_fixed cfg c evs) = Ok tt /\ cinv cfg (fst (fst (crun all_fixed cfg c evs))) /\
  length (snd (fst (crun all_fixed cfg c evs))) = length evs.
Proof. exact client_run_ok. Qed.
Print Assumptions c11_no_crash.

(* SERVER: a recvfrom error on a UdpProxy socket is logged, nothing else happens (F4 repaired) *)
Theorem c11_no_crash_recvfrom :
  forall u s io e,
  fst (pop io) = IoErr e ->
  udp_callback all_fixed u s io = Ok (s, snd (pop io), []).
Proof. exact udp_callback_error. Qed.
Print Assumptions c11_no_crash_recvfrom.

(* SERVER, the loop as a whole on UDP scripts (the former gap).  The handler-table invariant `sinv`
   (Proofs/DgramServer_lemmas.v; Props/C10.v c10_server_invariant, c10_server_step_invariant) — every open
   channel has a registered, present, live UdpProxy of that identifier — is carried through the frame dispatch,
   every handler visit, the sweeps and the removal of dead handlers; it makes the KeyError branches of udp_req
   unreachable.

   Full statement: for every script of UDP_OPEN / UDP_CLOSE / UDP_DATA frames as a conforming client sends them
   (16-bit identifiers; UDP_OPEN carries a decimal family and is never sent on an open identifier; UDP_DATA is
   'ip,port,' + payload with port <= 65535) and sockets whose recvfrom returns address-sized peers, the server
   loop never raises — any interleaving of associations, closes racing with data, identifiers re-used, any
   ready sets, any send/recv errors, any times.  *)
Theorem c11_server_no_crash_full :
  forall cfg evs,
    (forall e, In e evs -> forall f, In f (se_frames e) ->
       fst (fst (fst f)) <= 65535 /\
       ((snd (fst (fst f)) = FUdpOpen /\ exists fam, snd (fst f) = dec fam) \/ snd (fst (fst f)) = FUdpClose \/
        (snd (fst (fst f)) = FUdpData /\
         exists ip port p, no_comma ip /\ port <= 65535 /\ snd (fst f) = dgram_hdr (ip, port) p))) ->
    run_no_reopen [] evs ->
    (forall e, In e evs -> forall it, In it (se_io e) -> io_ok it) ->
    forall x, snd (srun all_fixed cfg s_init evs) <> Crash x.
Proof.
  intros cfg evs H. apply server_no_crash_udp. intros e He f Hf. destruct (H e He f Hf) as [A [[B C]|[B|B]]].
  - split; [split; [exact A|left; exact B]|intros _; exact C].
  - split; [split; [exact A|right; left; exact B]|intros D; congruence].
  - split; [split; [exact A|right; right; exact B]|intros D; destruct B as [B _]; congruence].
Qed.
Print Assumptions c11_server_no_crash_full.

(* the statement as first written (no discipline on identifiers, any UDP_OPEN body, any socket script): apart from
   the assertion of Mux.got_packet/Mux.send and int()'s ValueError nothing can be raised — in particular no
   KeyError, OverflowError, UnboundLocalError, OSError *)
Theorem c11_server_only_assert_value :
  forall cfg evs,
    (forall e, In e evs -> forall f, In f (se_frames e) ->
       fst (fst (fst f)) <= 65535 /\
       (snd (fst (fst f)) = FUdpOpen \/ snd (fst (fst f)) = FUdpClose \/
        (snd (fst (fst f)) = FUdpData /\ exists ip port p, no_comma ip /\ port <= 65535 /\ snd (fst f) = dgram_hdr (ip, port) p))) ->
    forall x, x <> XAssert -> x <> XValue -> snd (srun all_fixed cfg s_init evs) <> Crash x.
Proof. exact server_udp_only_assert_value. Qed.
Print Assumptions c11_server_only_assert_value.

(* why `<= 65535` is a hypothesis: the earlier formulation without it is false of the model (an identifier that
   cannot come off the wire — struct '!H' — reaches Mux.send: struct.error); not a defect of the code *)
Theorem c11_server_unbounded_channel_refuted : exists cfg evs,
  (forall e, In e evs -> forall f, In f (se_frames e) ->
     snd (fst (fst f)) = FUdpOpen \/ snd (fst (fst f)) = FUdpClose \/
     (snd (fst (fst f)) = FUdpData /\ exists ip port p, no_comma ip /\ port <= 65535 /\ snd (fst f) = dgram_hdr (ip, port) p)) /\
  exists x, x <> XAssert /\ x <> XValue /\ snd (srun all_fixed cfg s_init evs) = Crash x.
Proof.
  exists w_scfg, w_bigchan. split.
  - intros e [<-|[<-|[]]] f Hf; cbn in Hf; [|destruct Hf]. destruct Hf as [<-|[]]. left. reflexivity.
  - exists XStruct. split; [discriminate|]. split; [discriminate|exact bigchan_struct].
Qed.
Print Assumptions c11_server_unbounded_channel_refuted.

(* non-vacuity: a conforming UDP script (open, data, reply, close, re-open in a later iteration) satisfies the
   hypotheses of c11_server_no_crash_full and runs to the end *)
Example c11_server_conforming_example :
  run_no_reopen [] w_reopen_next_iteration /\ snd (srun all_fixed w_scfg s_init w_reopen_next_iteration) = Ok tt.
Proof. split; [cbn; repeat split; discriminate|vm_compute; reflexivity]. Qed.

(* SERVER, F80 repaired: no script whatsoever (16-bit identifiers) makes the loop leave through Fatal — with the
   repair udphandlers and mux.channels are opened and closed together (clause si_udph_chan of `sinv`) *)
Theorem c11_server_never_fatal :
  forall cfg evs,
    (forall e, In e evs -> forall f, In f (se_frames e) -> fst (fst (fst f)) <= 65535) ->
    snd (srun all_fixed cfg s_init evs) <> Fatal.
Proof. exact server_never_fatal. Qed.
Print Assumptions c11_server_never_fatal.

(* THE TWO-ENDED SYSTEM WITH DNS, UDP AND TCP-ACCEPT EVENTS MIXED (Proofs/DgramSystem_lemmas.v `ystep`,
   Proofs/DgramMixed_lemmas.v).

   Client-side lemma: whatever the client logic emits satisfies the server's preconditions.  For an accept step
   from a reachable client state (cinv), any event the kernel can deliver (ev_sane: sizes; udp_dst_ok dst_ok: the
   original destination of a UDP datagram is an address literal without comma and a 16-bit port), and any ghost
   view T of the server's mux.channels whose members are UDP associations of the client (TR): the emitted frames
   have 16-bit identifiers and well-formed bodies, never open an identifier of T (no_reopen), and T updated by
   the frames (track) again consists of UDP associations of the new client state. *)
Theorem c11_client_frames_conform :
  forall cc c e c' o T q,
  cfg_ok' cc -> cinv cc c -> is_accept e = true -> ev_sane cc c e -> udp_dst_ok dst_ok e ->
  cstep all_fixed cc c e = Ok (c', o) -> TR T c ->
  let new := flat_map (up_of q) o in
  Forall chan16 new /\ Forall body_ok new /\ no_reopen T new /\ TR (track T new) c'.
Proof. exact accept_conform. Qed.
Print Assumptions c11_client_frames_conform.

(* Hence, with NO hypothesis on identifier re-use: along every run of the composed system from y_init — any mix
   of DNS queries, UDP datagrams (any sources, destinations, payloads) and TCP accepts, any schedule of server
   iterations and deliveries, any socket outcomes, any times — the SERVER loop never raises and never leaves
   through Fatal.  Side conditions, all visible in run_sane / step_sane: 1 <= MAX_CHANNEL <= 65535 and
   family < 2^64 (cfg_ok'); listener events as the kernel delivers them (ev_sane, dst_ok); recvfrom peers as real
   sockets report them (io_ok2: address text of at most 61000 bytes without comma, port < 2^64). *)
Theorem c11_system_server_never_raises :
  forall cc sc, cfg_ok' cc -> forall evs,
  run_sane cc sc y_init evs -> server_never_fails cc sc y_init evs.
Proof. intros cc sc H evs. apply (system_server_never_fails cc sc H). apply minv_init. Qed.
Print Assumptions c11_system_server_never_raises.

(* END TO END: under the single system-level hypothesis no_stale_alloc_any — whenever the client puts an opening
   frame (DNS_REQ, UDP_OPEN, TCP_CONNECT) for identifier ch on the wire, nothing of a previous incarnation of ch
   is in flight (no opening frame of ch on the up link, no handler of ch on the server, no frame of ch on the down
   link) — NEITHER side ever raises nor leaves through Fatal (never_fails: at every event of the run the component
   that handles it returns Ok), same runs and side conditions as above. *)
Theorem c11_system_never_raises :
  forall cc sc, cfg_ok' cc -> forall evs,
  run_sane cc sc y_init evs -> no_stale_alloc_any cc sc y_init evs -> never_fails cc sc y_init evs.
Proof. intros cc sc H evs. exact (system_never_fails_init cc sc H evs). Qed.
Print Assumptions c11_system_never_raises.

(* the system invariants behind the two theorems are inductive: from any state satisfying them *)
Theorem c11_system_never_raises_inv :
  forall cc sc, cfg_ok' cc -> forall evs y,
  minv cc y -> kinv y -> run_sane cc sc y evs -> no_stale_alloc_any cc sc y evs -> never_fails cc sc y evs.
Proof. exact system_never_fails. Qed.
Print Assumptions c11_system_never_raises_inv.

(* F80 (genuine defect, repaired in the model; pending_fixes/F80.diff): in the code as found the frames the CLIENT
   emits kill the server.  One identifier (the scale model of "all other identifiers busy"): the association of w_a1
   expires when w_a2 shows up, w_a2 re-uses identifier 1; UDP_CLOSE 1, UDP_OPEN 1, UDP_DATA 1 reach the server in
   one read and udp_open raises Fatal('UDP connection channel 1 already open'); repaired, the second association
   is opened.  `before_f80` = every repair but F80. *)
Theorem c11_f80_refuted :
  (exists y, ystate_after before_f80 w_cfgT1 w_scfg y_init w_f80_accepts = Some y /\
             y_up y = [(1, FUdpClose, [], 0); (1, FUdpOpen, dec 2, 0); (1, FUdpData, dgram_hdr w_R ["b"%char], 0)] /\
             sstep before_f80 w_scfg (y_s y) (sev_of y 1 3 [] []) = Fatal) /\
  (exists y, ystate_after all_fixed w_cfgT1 w_scfg y_init w_f80_accepts = Some y /\
             exists s' o, sstep all_fixed w_scfg (y_s y) (sev_of y 1 3 [] []) = Ok (s', o) /\ s_chan s' = [1]).
Proof. exact f80_system. Qed.
Print Assumptions c11_f80_refuted.

(* F81 (known finding; needs incarnation numbers in the protocol): without no_stale_alloc_any the CLIENT can be
   killed.  One identifier; the DNS query of w_a1 is pending at the server and expired at the client; the UDP
   association of w_a2 re-uses identifier 1; the late DNS answer arrives on it and udp_done's split raises
   ValueError.  The run is sane (run_sane) and violates only the hypothesis. *)
Theorem c11_system_stale_crash_refuted :
  run_sane w_cfgT1 w_scfg y_init (w_sys_clientcrash ++ [YDeliver SendOk]) /\
  ~ never_fails w_cfgT1 w_scfg y_init (w_sys_clientcrash ++ [YDeliver SendOk]) /\
  exists y, ystate_after all_fixed w_cfgT1 w_scfg y_init w_sys_clientcrash = Some y /\
            y_down y = [(1, ["o"%char], Some 0)] /\
            cstep all_fixed w_cfgT1 (y_c y) (EFrame 1 ["o"%char] SendOk) = Crash XValue.
Proof.
  split; [exact (proj1 clientcrash_system)|]. split; [exact clientcrash_not_never_fails|exact (proj2 clientcrash_system)].
Qed.
Print Assumptions c11_system_stale_crash_refuted.

(* non-vacuity: a mixed run (DNS query and UDP association side by side, both replies delivered, the association
   expired and closed, a third identifier opened) satisfies both hypotheses *)
Example c11_system_mixed_example :
  run_sane w_cfgTN w_scfg y_init w_sys_mixed /\ no_stale_alloc_any w_cfgTN w_scfg y_init w_sys_mixed /\
  length (yrun w_cfgTN w_scfg y_init w_sys_mixed) = length w_sys_mixed.
Proof. split; [exact (proj1 mixed_hyps)|]. split; [exact (proj2 mixed_hyps)|]. rewrite mixed_run. reflexivity. Qed.

(* ---- the code as found: refuted ---- *)
Theorem c11_f3_refuted : exists cfg evs,
  snd (crun as_found cfg c_init evs) = Crash XStruct /\ snd (crun all_fixed cfg c_init evs) = Ok tt.
Proof. exists w_cfgT, w_f3u. split; vm_compute; reflexivity. Qed.
Print Assumptions c11_f3_refuted.

Theorem c11_f16_refuted : exists cfg evs,
  snd (crun as_found cfg c_init evs) = Crash XOSError /\ snd (crun all_fixed cfg c_init evs) = Ok tt.
Proof.
  exists w_cfgT, [EUdp 5 w_a1 (Some w_a2) ["x"%char]; EFrame 1 (dgram_hdr w_a2 ["r"%char]) (SendErr 99)].
  split; vm_compute; reflexivity.
Qed.
Print Assumptions c11_f16_refuted.

Theorem c11_f4_refuted : exists cfg evs,
  snd (srun as_found cfg s_init evs) = Crash XUnbound /\ snd (srun all_fixed cfg s_init evs) = Ok tt.
Proof. exists w_scfg, w_f4. split; vm_compute; reflexivity. Qed.
Print Assumptions c11_f4_refuted.

(* CLIENT, identifiers of FINISHED TCP flows (see Props/C10.v c10_tcp_end_releases_identifier): a datagram of a
   source without association is forwarded - UDP_OPEN then exactly one UDP_DATA with header and captured bytes -
   whenever one of the 1024 identifiers the cursor visits next is free; the identifier of a TCP flow that has
   finished is free *)
Theorem c11_datagram_forwarded_if_identifier_free :
  forall cfg now src d payload c k,
  cfg_ok' cfg -> cinv cfg c -> cc_method cfg = MTproxy -> alookup addr_eqb src (c_udp c) = None ->
  lenN (fst d) <= 61000 -> snd d < 2 ^ 64 ->
  (k < TRIES)%nat -> c_occ c (chan_iter (S k) (cc_maxc cfg) (c_chani c)) = false ->
  exists ch c' rest, onaccept_udp all_fixed cfg now src (Some d) payload c =
     Ok (c', OFrame ch CMD_UDP_OPEN (dec (cc_family cfg)) ::
             OFrame ch CMD_UDP_DATA (dgram_hdr d (takeN BUFSIZE payload)) :: rest).
Proof. exact udp_forwards_if_free. Qed.
Print Assumptions c11_datagram_forwarded_if_identifier_free.

Theorem c11_datagram_forwarded_after_tcp_end :
  forall cfg c tch c1 o1 now src d payload k,
  cfg_ok' cfg -> cinv cfg c -> alookup N.eqb tch (c_chan c) = Some KTcp ->
  cstep all_fixed cfg c (ETcpEnd tch) = Ok (c1, o1) ->
  cc_method cfg = MTproxy -> alookup addr_eqb src (c_udp c1) = None -> lenN (fst d) <= 61000 -> snd d < 2 ^ 64 ->
  (k < TRIES)%nat -> chan_iter (S k) (cc_maxc cfg) (c_chani c1) = tch ->
  exists ch c' rest, onaccept_udp all_fixed cfg now src (Some d) payload c1 =
     Ok (c', OFrame ch CMD_UDP_OPEN (dec (cc_family cfg)) ::
             OFrame ch CMD_UDP_DATA (dgram_hdr d (takeN BUFSIZE payload)) :: rest).
Proof. exact datagram_after_tcp_end. Qed.
Print Assumptions c11_datagram_forwarded_after_tcp_end.

Example c11_finished_tcp_identifier_reused :
  snd (fst (crun all_fixed w_cfgT c_init
        [ETcp 100 2 w_a1; EUdp 100 w_a1 (Some w_a2) []; ETcpEnd 1; EUdp 101 w_a1 (Some w_a2) []])) =
  [[OFrame 1 CMD_TCP_CONNECT (dec 2 ++ comma :: fst w_a1 ++ comma :: dec (snd w_a1))]; [];
   [OFrame 1 CMD_TCP_STOP_SENDING []; OFrame 1 CMD_TCP_EOF []];
   [OFrame 1 CMD_UDP_OPEN (dec 2); OFrame 1 CMD_UDP_DATA (dgram_hdr w_a2 [])]].
Proof. vm_compute. reflexivity. Qed.

(* ---- non-vacuity ---- *)
Example c11_init_reachable : cinv w_cfgT c_init.
Proof. exact (cinv_init w_cfgT). Qed.
Example c11_life_cycle :
  snd (fst (crun all_fixed {| cc_method := MTproxy; cc_maxc := 65535; cc_family := 2 |} c_init
        [EUdp 100 w_a1 (Some w_a2) [","%char]; EUdp 101 w_a1 (Some w_a2) []; EFrame 1 (dgram_hdr w_a2 [","%char]) SendOk;
         EUdp 132 w_a2 (Some w_a1) []; EUdp 133 w_a1 (Some w_a2) []])) =
  [[OFrame 1 CMD_UDP_OPEN (dec 2); OFrame 1 CMD_UDP_DATA (dgram_hdr w_a2 [","%char])];
   [OFrame 1 CMD_UDP_DATA (dgram_hdr w_a2 [])];
   [ODgram None (Some w_a2) w_a1 [","%char]];
   [OFrame 2 CMD_UDP_OPEN (dec 2); OFrame 2 CMD_UDP_DATA (dgram_hdr w_a1 []); OFrame 1 CMD_UDP_CLOSE []];
   [OFrame 3 CMD_UDP_OPEN (dec 2); OFrame 3 CMD_UDP_DATA (dgram_hdr w_a2 [])]].
Proof. vm_compute. reflexivity. Qed.
