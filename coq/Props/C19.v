(* Props/C19.v — C19: remote host names cannot corrupt the hosts file nor get
   lost in transit.  Statements only; proofs are `exact <lemma>` (or a few lines
   of glue) into Proofs/Hosts_lemmas.v, each followed by Print Assumptions.

   Model/Hosts.v models the code as repaired by pending_fixes/F13_F19.diff
   (client.onhostlist) and pending_fixes/F24_F25.diff (hostwatch); the
   `_asfound` definitions and `_refuted` theorems record the defects.

   The helper's reader (firewall._read_next_string_line) is modelled with its limit
   as a parameter: every helper / pipeline / end-to-end statement below passes
   Gen.Consts.fw_readline_limit, regenerated from firewall.py on every run.  Today
   that is None (readline() without a limit, F5 repaired) and the statements hold for
   HOST lines of EVERY length.  Their proofs need `fw_readline_limit = None` (by
   eq_refl): if the source gets a read limit again they stop checking, and only the
   `_any_limit` / `_asfound_partial` statements (with the length hypothesis) remain. *)
From Coq Require Import List NArith Ascii Bool.
From SV Require Import Lib.Bytes Model.Hosts Proofs.Hosts_lemmas Gen.Consts.
Import ListNotations.
Local Open Scope N_scope.

(* ------------------------------------------------------------------ *)
(* (1) The relay: scanner stream -> hostwatch_ready -> HOST_LIST payloads *)

(* For ALL byte streams and ALL cuttings into reads: as long as the server runs,
   payloads ++ leftover is the stream; the concatenated payloads are empty or end
   in a newline and the leftover has no newline — i.e. the payloads are exactly
   the longest newline-terminated prefix; every payload is itself a whole number
   of lines (no record split); and the records of the payloads, in order, are
   exactly the complete records of the stream (none lost, none repeated). *)
Theorem c19_relay_exactly_once : forall chunks,
  let '(ps, lo, st) := hw_run [] chunks in
  st = RunOk ->
  concat ps ++ lo = concat chunks /\
  complete (concat ps) /\ ~ In NL lo /\
  Forall complete ps /\
  concat (map records ps) = records (concat chunks).
Proof.
  intros chunks. pose proof (hw_run_spec chunks [] (fun H => H)) as H.
  destruct (hw_run [] chunks) as [[ps lo] st]. intros Hst.
  destruct (H Hst) as (H1 & H2 & H3 & H4). cbn [app] in *.
  split; [exact H1|]. split; [apply complete_concat; exact H3|].
  split; [rewrite H2; apply tail_no_nl|]. split; assumption.
Qed.
Print Assumptions c19_relay_exactly_once.

(* "complete" means: empty or ending in a newline (so the decomposition above is unique) *)
Theorem c19_complete_meaning : forall p,
  (complete p -> p = [] \/ exists q, p = q ++ [NL]) /\
  (forall p' r s, complete p' -> ~ In NL r -> p' ++ r = s -> r = tail_of s /\ records p' = records s).
Proof. intros p. split; [apply complete_inv|intros p' r s; apply complete_prefix_unique]. Qed.
Print Assumptions c19_complete_meaning.

(* The server keeps running (no Fatal, no failed assertion in Mux.send) for every
   cutting into non-empty reads of at most 4096 bytes, PROVIDED every scanner line
   is at most LINE_MAX = 61439 bytes (+ newline).  The bound is exact: see (1r). *)
Theorem c19_relay_total_partial : forall chunks,
  Forall (fun c => c <> [] /\ lenN c <= 4096) chunks ->
  Forall (fun l => lenN l <= LINE_MAX) (split_on NL (concat chunks)) ->
  snd (hw_run [] chunks) = RunOk.
Proof. intros chunks Hc HF. exact (hw_run_ok chunks [] (fun H => H) Hc HF). Qed.
Print Assumptions c19_relay_total_partial.

(* the full statement (no bound on the line length) is false on the code: F26 *)
Definition c19_relay_total_full : Prop := forall chunks,
  Forall (fun c => c <> [] /\ lenN c <= 4096) chunks -> snd (hw_run [] chunks) = RunOk.

Definition f26_chunks : list bytes :=
  repeat (repeat "a"%char (N.to_nat 4096)) 15 ++ [repeat "a"%char (N.to_nat 4095) ++ [NL]].

Theorem c19_relay_mux_limit_refuted : ~ c19_relay_total_full.
Proof.
  intros H. specialize (H f26_chunks).
  assert (Hb : forallb (fun c => match c with [] => false | _ :: _ => lenN c <=? 4096 end) f26_chunks = true)
    by (vm_compute; reflexivity).
  assert (Hc : Forall (fun c => c <> [] /\ lenN c <= 4096) f26_chunks).
  { apply Forall_forall. intros c Hin. rewrite forallb_forall in Hb. specialize (Hb c Hin).
    destruct c; [discriminate|]. split; [discriminate|]. apply N.leb_le. exact Hb. }
  assert (Hrun : snd (hw_run [] f26_chunks) = RunAssert) by (vm_compute; reflexivity).
  specialize (H Hc). rewrite Hrun in H. discriminate H.
Qed.
Print Assumptions c19_relay_mux_limit_refuted.

(* ------------------------------------------------------------------ *)
(* (2) Every line that reaches the hosts file has the form addr name marker *)

(* For ALL sequences of HOST_LIST payloads (arbitrary bytes — a superset of what any
   scanner can produce) and HOST lines of EVERY length: the helper (reading with the
   limit found in the source: none) accepts all the lines the client writes and every
   line it puts into the hosts file is `pad30(addr ' ' name) ' ' marker` with addr a
   dotted quad (4 fields of 1..3 digits, each <= 255) and name in [-A-Za-z0-9_.]+ . *)
Theorem c19_line_form : forall marker payloads,
  let ls := fst (client_run onhostlist payloads) in
  snd (helper_run fw_readline_limit [] ls) = None /\
  Forall (wf_line marker) (hosts_lines marker (fst (helper_run fw_readline_limit [] ls))).
Proof.
  intros marker payloads ls.
  exact (proj2 (pipeline_line_form fw_readline_limit marker payloads
                  (line_fits_whole fw_readline_limit eq_refl _))).
Qed.
Print Assumptions c19_line_form.

(* the same for ANY reader limit, provided every HOST line fits one read
   (line_fits None l = True, line_fits (Some n) l = lenN l <= n) *)
Theorem c19_line_form_any_limit : forall lim marker payloads,
  let ls := fst (client_run onhostlist payloads) in
  Forall (line_fits lim) ls ->
  snd (helper_run lim [] ls) = None /\
  Forall (wf_line marker) (hosts_lines marker (fst (helper_run lim [] ls))).
Proof. intros lim marker payloads ls Hl. exact (proj2 (pipeline_line_form lim marker payloads Hl)). Qed.
Print Assumptions c19_line_form_any_limit.

(* the helper as found read with readline(128): the statement needs the hypothesis
   that every HOST line is at most 128 bytes (F5 otherwise, see (2r) below) *)
Theorem c19_line_form_asfound_partial : forall marker payloads,
  let ls := fst (client_run onhostlist payloads) in
  Forall (fun l => lenN l <= READLINE_LIMIT_ASFOUND) ls ->
  snd (helper_run (Some READLINE_LIMIT_ASFOUND) [] ls) = None /\
  Forall (wf_line marker) (hosts_lines marker (fst (helper_run (Some READLINE_LIMIT_ASFOUND) [] ls))).
Proof.
  intros marker payloads ls Hl.
  exact (proj2 (pipeline_line_form (Some READLINE_LIMIT_ASFOUND) marker payloads Hl)).
Qed.
Print Assumptions c19_line_form_asfound_partial.

(* Exactly-once delivery into the helper's host map.  For ALL lists of well-formed
   records (names and addresses of EVERY length) and every starting map: fed the HOST
   lines of the records, the helper ends with the map in which each record was set
   once, in order (`delivered` = fold of hm_set), and is still waiting for input. *)
Theorem c19_helper_delivers : forall recs hm, Forall valid_rec recs ->
  helper_run fw_readline_limit hm (map rec_line recs) = (delivered hm recs, None).
Proof.
  intros recs hm Hv.
  exact (helper_run_delivers fw_readline_limit recs hm Hv (line_fits_whole fw_readline_limit eq_refl _)).
Qed.
Print Assumptions c19_helper_delivers.

(* ... and the lines the client writes for ANY payload sequence are the lines of
   well-formed records, each delivered exactly once *)
Theorem c19_pipeline_delivers : forall payloads,
  let ls := fst (client_run onhostlist payloads) in
  exists recs, Forall valid_rec recs /\ ls = map rec_line recs /\
    helper_run fw_readline_limit [] ls = (delivered [] recs, None).
Proof.
  intros payloads ls.
  exact (pipeline_delivers fw_readline_limit payloads (line_fits_whole fw_readline_limit eq_refl _)).
Qed.
Print Assumptions c19_pipeline_delivers.

Theorem c19_helper_delivers_any_limit : forall lim recs hm, Forall valid_rec recs ->
  Forall (line_fits lim) (map rec_line recs) ->
  helper_run lim hm (map rec_line recs) = (delivered hm recs, None).
Proof. intros lim recs hm Hv Hl. exact (helper_run_delivers lim recs hm Hv Hl). Qed.
Print Assumptions c19_helper_delivers_any_limit.

Theorem c19_helper_delivers_asfound_partial : forall recs hm, Forall valid_rec recs ->
  Forall (fun l => lenN l <= READLINE_LIMIT_ASFOUND) (map rec_line recs) ->
  helper_run (Some READLINE_LIMIT_ASFOUND) hm (map rec_line recs) = (delivered hm recs, None).
Proof. intros recs hm Hv Hl. exact (helper_run_delivers (Some READLINE_LIMIT_ASFOUND) recs hm Hv Hl). Qed.
Print Assumptions c19_helper_delivers_asfound_partial.

(* (2r) F5: with readline(128) the delivery statement is false without the length
   hypothesis.  Witness: the 129-byte line `HOST a{107},192.168.100.200\n` is read as
   128 bytes + "\n"; the blank second piece makes the helper return (firewall undone). *)
Definition f5_name : bytes := repeat "a"%char 107.
Definition f5_ip : bytes := ["1"; "9"; "2"; "."; "1"; "6"; "8"; "."; "1"; "0"; "0"; "."; "2"; "0"; "0"]%char.

Theorem c19_helper_delivers_asfound_refuted :
  ~ (forall recs hm, Forall valid_rec recs ->
       helper_run (Some READLINE_LIMIT_ASFOUND) hm (map rec_line recs) = (delivered hm recs, None)).
Proof.
  intros H. specialize (H [(f5_name, f5_ip)] []).
  assert (Hv : Forall valid_rec [(f5_name, f5_ip)]) by (repeat constructor).
  assert (Hlen : lenN (rec_line (f5_name, f5_ip)) = 129) by (vm_compute; reflexivity).
  assert (Hrun : helper_run (Some READLINE_LIMIT_ASFOUND) [] (map rec_line [(f5_name, f5_ip)])
                 = ([(f5_name, f5_ip)], Some HReturn)) by (vm_compute; reflexivity).
  specialize (H Hv). rewrite Hrun in H. discriminate H.
Qed.
Print Assumptions c19_helper_delivers_asfound_refuted.

(* the same defect three bytes later, as probed on the real helper (DESIGN §6 F5): the
   132-byte line `HOST a{110},192.168.100.200\n` sets the TRUNCATED address 192.168.100.
   and then fails with Fatal('expected command, got 200') *)
Theorem c19_line_form_reader_asfound_refuted : exists n i,
  valid_name n = true /\ valid_ip i = true /\ lenN (host_line n i) = 132 /\
  exists i', helper_run (Some READLINE_LIMIT_ASFOUND) [] [host_line n i] = ([(n, i')], Some HFatal) /\
    valid_ip i' = false.
Proof.
  exists (repeat "a"%char 110), f5_ip. split; [vm_compute; reflexivity|].
  split; [vm_compute; reflexivity|]. split; [vm_compute; reflexivity|].
  eexists. split; vm_compute; reflexivity.
Qed.
Print Assumptions c19_line_form_reader_asfound_refuted.

(* ... and such a line is one line whose whitespace-separated fields are exactly
   the address, the name and then the marker's words: nothing injected. *)
Theorem c19_line_fields : forall marker line, wf_line marker line -> ~ In NL marker ->
  ~ In NL line /\
  exists addr name, valid_ip addr = true /\ valid_name name = true /\
    ws_split is_space_s line = addr :: name :: ws_split is_space_s marker.
Proof.
  intros marker line (addr & name & Ha & Hn & ->) Hm. split.
  - exact (hosts_line_no_nl marker name addr Hn Ha Hm).
  - exists addr, name. split; [exact Ha|]. split; [exact Hn|].
    exact (hosts_line_fields marker name addr Hn Ha).
Qed.
Print Assumptions c19_line_fields.

(* what the two recognisers accept, character by character *)
Theorem c19_valid_meaning : forall name ip,
  (valid_name name = true -> name <> [] /\ forallb is_name_b name = true) /\
  (valid_ip ip = true -> exists a b c d, ip = a ++ DOT :: b ++ DOT :: c ++ DOT :: d /\
      octet_ok a = true /\ octet_ok b = true /\ octet_ok c = true /\ octet_ok d = true).
Proof. intros name ip. split; [apply valid_name_inv|apply valid_ip_inv]. Qed.
Print Assumptions c19_valid_meaning.

(* the client as found let empty names and non-addresses through: F19 *)
Theorem c19_line_form_asfound_refuted : exists payload n i,
  let '(ls, o) := client_run onhostlist_asfound [payload] in
  o = COk /\
  helper_run fw_readline_limit [] ls = ([(n, i)], None) /\ valid_name n = false /\ valid_ip i = false.
Proof.
  exists [","; "1"; "."; "."; "2"; NL]%char, [], ["1"; "."; "."; "2"]%char.
  vm_compute. repeat split.
Qed.
Print Assumptions c19_line_form_asfound_refuted.

(* ------------------------------------------------------------------ *)
(* (3) No name or address ends the session                              *)

(* For ALL payload sequences (arbitrary bytes as names and addresses, EVERY length)
   the repaired client never raises (the two asserts of sethostip are unreachable, a
   record without ',' is skipped), and the helper neither raises, nor reports Fatal,
   nor returns. *)
Theorem c19_no_session_end : forall payloads,
  snd (client_run onhostlist payloads) = COk /\
  snd (helper_run fw_readline_limit [] (fst (client_run onhostlist payloads))) = None.
Proof.
  intros payloads. split; [apply client_run_ok|].
  exact (proj1 (proj2 (pipeline_line_form fw_readline_limit [] payloads
                         (line_fits_whole fw_readline_limit eq_refl _)))).
Qed.
Print Assumptions c19_no_session_end.

(* the helper as found (readline(128)): only when the HOST lines fit the reader *)
Theorem c19_no_session_end_asfound_partial : forall payloads,
  snd (client_run onhostlist payloads) = COk /\
  (Forall (fun l => lenN l <= READLINE_LIMIT_ASFOUND) (fst (client_run onhostlist payloads)) ->
   snd (helper_run (Some READLINE_LIMIT_ASFOUND) [] (fst (client_run onhostlist payloads))) = None).
Proof.
  intros payloads. split; [apply client_run_ok|].
  intros Hl. exact (proj1 (proj2 (pipeline_line_form (Some READLINE_LIMIT_ASFOUND) [] payloads Hl))).
Qed.
Print Assumptions c19_no_session_end_asfound_partial.

(* ... and not otherwise (F5): one well-formed record with a 107-character name ends it *)
Theorem c19_no_session_end_reader_asfound_refuted : exists payload,
  snd (client_run onhostlist [payload]) = COk /\
  snd (helper_run (Some READLINE_LIMIT_ASFOUND) [] (fst (client_run onhostlist [payload]))) = Some HReturn.
Proof. exists (f5_name ++ COMMA :: f5_ip ++ [NL]). vm_compute. split; reflexivity. Qed.
Print Assumptions c19_no_session_end_reader_asfound_refuted.

(* skipped or delivered: the HOST lines written for a payload are exactly those of
   its well-formed records, in order; every other token is dropped *)
Theorem c19_filter_exact : forall payload,
  onhostlist payload = (flat_map record_lines (tokens payload), COk).
Proof. intros payload. unfold onhostlist. apply onhostlist_loop_spec. Qed.
Print Assumptions c19_filter_exact.

(* the helper side of one well-formed record *)
Theorem c19_helper_accepts : forall name ip, valid_name name = true -> valid_ip ip = true ->
  helper_line (host_line name ip) = HSet name ip.
Proof. exact helper_line_host. Qed.
Print Assumptions c19_helper_accepts.

(* the client as found: F13 (assert) and the missing-comma ValueError *)
Theorem c19_no_session_end_asfound_refuted :
  (exists payload, snd (onhostlist_asfound payload) = CCrash AssertionError) /\
  (exists payload, snd (onhostlist_asfound payload) = CCrash ValueError).
Proof.
  split.
  - exists ["b"; "a"; "d"; "!"; "h"; "o"; "s"; "t"; ","; "1"; "."; "2"; "."; "3"; "."; "4"; NL]%char.
    vm_compute. reflexivity.
  - exists ["n"; "o"; "c"; "o"; "m"; "m"; "a"; NL]%char. vm_compute. reflexivity.
Qed.
Print Assumptions c19_no_session_end_asfound_refuted.

(* ------------------------------------------------------------------ *)
(* (4) The scanner                                                     *)

(* found_host terminates within its two levels for every table, state, name and
   address; each record it prints carries the given address and either the RAW name
   or the short name, and only the short name is sanitised (kept characters, no '.') *)
Theorem c19_found_host_total : forall T st name ip,
  exists st' out, found_host T FH_FUEL st name ip = FhOk st' out /\
    Forall (fun r => snd r = ip /\ (fst r = name \/ fst r = short_name T name)) out /\
    Forall (fun c => ukeep T c = true /\ c <> 46) (short_name T name).
Proof.
  intros T st name ip. destruct (found_host_fuel T st name ip) as (st' & out & H1 & H2).
  exists st', out. split; [exact H1|]. split; [exact H2|apply short_name_chars].
Qed.
Print Assumptions c19_found_host_total.

Theorem c19_scanner_total : forall T st calls, found_hosts T st calls <> FhFuel.
Proof. intros T st calls. apply found_hosts_fuel. Qed.
Print Assumptions c19_scanner_total.

(* the host cache: as found a non-ASCII entry killed hostwatch (F25) *)
Theorem c19_cache_nonascii_asfound_refuted : exists T content,
  exists out, read_host_cache_asfound T [] content = ScanCrash out.
Proof.
  (* U+00F6 is a word character for CPython: the cache line "h\246st,1.2.3.4" *)
  exists (mkTables (fun c => c =? 246) (fun _ => false) (fun _ => false)).
  exists [104; 246; 115; 116; 44; 49; 46; 50; 46; 51; 46; 52; 10]. eexists. vm_compute. reflexivity.
Qed.
Print Assumptions c19_cache_nonascii_asfound_refuted.

Theorem c19_cache_total : forall T st content,
  exists st' out, read_host_cache T st content = ScanOk st' out.
Proof.
  intros T st content. unfold read_host_cache.
  pose proof (found_hosts_fuel T (cache_calls T content) st) as H.
  destruct (found_hosts T st (cache_calls T content)) as [st' out|]; [|contradiction].
  exists st', out. reflexivity.
Qed.
Print Assumptions c19_cache_total.

(* ------------------------------------------------------------------ *)
(* (5) End to end: scanner -> UTF-8 -> any cutting -> server -> client -> helper *)

(* For ALL scanner call sequences, tables, cuttings and names of EVERY length (as long
   as the server runs, see (1)): the records relayed are exactly the scanner's, the
   client survives, the helper keeps running and every hosts line is well formed. *)
Theorem c19_end_to_end : forall T calls st out chunks ps lo marker,
  found_hosts T [] calls = FhOk st out ->
  concat chunks = utf8 (out_text out) ->
  hw_run [] chunks = (ps, lo, RunOk) ->
  let ls := fst (client_run onhostlist ps) in
  concat (map records ps) = records (utf8 (out_text out)) /\
  snd (client_run onhostlist ps) = COk /\
  snd (helper_run fw_readline_limit [] ls) = None /\
  Forall (wf_line marker) (hosts_lines marker (fst (helper_run fw_readline_limit [] ls))).
Proof.
  intros T calls st out chunks ps lo marker _ Hc Hr ls.
  pose proof (c19_relay_exactly_once chunks) as H. rewrite Hr in H.
  destruct (H eq_refl) as (_ & _ & _ & _ & H5). rewrite Hc in H5.
  split; [exact H5|]. split; [apply client_run_ok|].
  exact (c19_line_form marker ps).
Qed.
Print Assumptions c19_end_to_end.

Theorem c19_end_to_end_asfound_partial : forall T calls st out chunks ps lo marker,
  found_hosts T [] calls = FhOk st out ->
  concat chunks = utf8 (out_text out) ->
  hw_run [] chunks = (ps, lo, RunOk) ->
  let ls := fst (client_run onhostlist ps) in
  concat (map records ps) = records (utf8 (out_text out)) /\
  snd (client_run onhostlist ps) = COk /\
  (Forall (fun l => lenN l <= READLINE_LIMIT_ASFOUND) ls ->
   snd (helper_run (Some READLINE_LIMIT_ASFOUND) [] ls) = None /\
   Forall (wf_line marker) (hosts_lines marker (fst (helper_run (Some READLINE_LIMIT_ASFOUND) [] ls)))).
Proof.
  intros T calls st out chunks ps lo marker _ Hc Hr ls.
  pose proof (c19_relay_exactly_once chunks) as H. rewrite Hr in H.
  destruct (H eq_refl) as (_ & _ & _ & _ & H5). rewrite Hc in H5.
  split; [exact H5|]. split; [apply client_run_ok|].
  intros Hl. exact (c19_line_form_asfound_partial marker ps Hl).
Qed.
Print Assumptions c19_end_to_end_asfound_partial.

(* as found, the raw name printed by found_host reaches the client's assert: F13 *)
Theorem c19_end_to_end_asfound_refuted : exists name ip,
  match found_hosts ascii_tables [] [(name, ip)] with
  | FhFuel => False
  | FhOk _ out =>
    let '(ps, _, st) := hw_run [] [utf8 (out_text out)] in
    st = RunOk /\ snd (client_run onhostlist_asfound ps) = CCrash AssertionError
  end.
Proof.
  (* found_host("bad!host", "10.0.0.1") prints "bad_host,10.0.0.1\nbad!host,10.0.0.1\n" *)
  exists [98; 97; 100; 33; 104; 111; 115; 116], [49; 48; 46; 48; 46; 48; 46; 49].
  vm_compute. split; reflexivity.
Qed.
Print Assumptions c19_end_to_end_asfound_refuted.

(* literals shared with /repo (regenerated on every run) *)
(* the reader limit used in every statement above IS the one in firewall.main, and it
   is "no limit"; should the source read with a limit again this (and the proofs of the
   unconditional theorems) no longer check *)
Theorem c19_consts :
  Consts.fw_readline_limit = None /\
  ~ In NL Consts.hosts_marker_pre /\ ~ In NL Consts.hosts_marker_post /\
  MUX_MAX = 65535 /\ LINE_MAX + 1 + 4096 = MUX_MAX + 1.
Proof.
  split; [reflexivity|]. split; [|split; [|split; reflexivity]].
  - apply (forallb_not_in (fun c => negb (Ascii.eqb c NL))); reflexivity.
  - apply (forallb_not_in (fun c => negb (Ascii.eqb c NL))); reflexivity.
Qed.
Print Assumptions c19_consts.

(* ------------------------------------------------------------------ *)
(* Non-vacuity: the hypotheses above are satisfiable by non-trivial inputs *)

Example c19_ex_relay :
  let s := ["a"; ","; "1"; NL; "b"; "c"; ","; "2"; NL; "d"]%char in
  hw_run [] [firstn 2 s; firstn 5 (skipn 2 s); skipn 7 s]
  = ([ []; ["a"; ","; "1"; NL]%char; ["b"; "c"; ","; "2"; NL]%char ], ["d"]%char, RunOk).
Proof. vm_compute. reflexivity. Qed.

Example c19_ex_pipeline :
  let payload := ["h"; "-"; "1"; "."; "x"; ","; "1"; "0"; "."; "0"; "."; "0"; "."; "2"; "5"; "5"; NL;
                  "b"; "a"; "d"; "!"; ","; "1"; "."; "2"; "."; "3"; "."; "4"; NL;
                  ","; "1"; "."; "."; "2"; NL; "n"; "o"; "c"; "o"; "m"; "m"; "a"; NL]%char in
  let ls := fst (client_run onhostlist [payload]) in
  helper_run fw_readline_limit [] ls = ([(["h"; "-"; "1"; "."; "x"]%char, ["1"; "0"; "."; "0"; "."; "0"; "."; "2"; "5"; "5"]%char)], None).
Proof. vm_compute. reflexivity. Qed.

(* a 1000-character name (HOST line of 1018 bytes) goes through the pipeline whole,
   followed by a second record *)
Example c19_ex_long_name :
  let nm := repeat "x"%char 1000 in
  let payload := nm ++ [","; "1"; "0"; "."; "1"; "1"; "."; "1"; "2"; "."; "1"; "3"; NL;
                        "z"; ","; "9"; "."; "9"; "."; "9"; "."; "9"; NL]%char in
  let ls := fst (client_run onhostlist [payload]) in
  map lenN ls = [1018; 15] /\
  helper_run fw_readline_limit [] ls =
    ([(nm, ["1"; "0"; "."; "1"; "1"; "."; "1"; "2"; "."; "1"; "3"]%char);
      (["z"]%char, ["9"; "."; "9"; "."; "9"; "."; "9"]%char)], None).
Proof. vm_compute. split; reflexivity. Qed.

(* the as-found hypothesis is satisfiable at its edge: a 128-byte HOST line *)
Example c19_ex_asfound_edge :
  let r := (repeat "a"%char 106, f5_ip) in
  lenN (rec_line r) = READLINE_LIMIT_ASFOUND /\
  helper_run (Some READLINE_LIMIT_ASFOUND) [] [rec_line r] = ([r], None).
Proof. vm_compute. split; reflexivity. Qed.

Example c19_ex_bound_tight :
  (* a 61439-byte line followed by a full 4096-byte read ending in a newline: 65535, accepted *)
  snd (hw_run [] (repeat (repeat "a"%char (N.to_nat 4096)) 14 ++
                  [repeat "a"%char (N.to_nat 4095); NL :: repeat "b"%char (N.to_nat 4094) ++ [NL]])) = RunOk.
Proof. vm_compute. reflexivity. Qed.
