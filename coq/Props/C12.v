(* Props/C12.v — C12: interception exists only alongside a verified, live tunnel.
   Statements only; every proof is `exact <lemma>` into Proofs/ClientLife_lemmas.v,
   followed by Print Assumptions.

   `run s` is the event trace of client.main (from its `try:` on, client.py:1165)
   and client._main under environment script `s` (Model/ClientLife.v): the
   result of ssh.connect, the deliveries of the server's first bytes and what a
   read past them does, poll() results, the daemon flag, per loop iteration the
   ssh liveness probe and the dispatched messages / injected exceptions of any
   class, the helper's behaviour during FirewallClient.start, and every failure
   the finally block itself can meet.  All theorems quantify over ALL scripts.

   FwClose is FirewallClient.done closing the control channel.  That the helper
   then restores the firewall ("EOF on stdin => restore", firewall.py:365-371)
   is property C04's; it is the assumption that connects FwClose to restoration. *)
From Coq Require Import List NArith ZArith Ascii Bool.
From SV Require Import Lib.Bytes Model.Wire Proofs.Wire_lemmas Model.ClientLife
  Proofs.ClientLife_lemmas Gen.Consts.
Import ListNotations.

(* (1) The helper is asked to install the rules only after the synchronisation
       string was verified AND a route message arrived; and at most once. *)
Theorem c12_start_after_routes : forall s pre post,
  run s = pre ++ FwStart :: post ->
  In SyncOk pre /\ In Routes pre /\ ~ In FwStart pre /\ ~ In FwStart post.
Proof. exact start_after_routes. Qed.
Print Assumptions c12_start_after_routes.

(* (2) Readiness is reported only after the helper confirmed (answered STARTED
       while alive), which in turn happens only after it was asked. *)
Theorem c12_ready_after_confirm : forall s pre post,
  run s = pre ++ NotifyReady :: post ->
  In FwStarted pre /\ In FwStart pre.
Proof. exact ready_after_confirm. Qed.
Print Assumptions c12_ready_after_confirm.

Theorem c12_confirm_after_start : forall s pre post,
  run s = pre ++ FwStarted :: post -> In FwStart pre.
Proof. exact started_after_start. Qed.
Print Assumptions c12_confirm_after_start.

(* (3) Once client.main reached its try block, EVERY trace — whatever exception
       class ended _main, at whatever step: ssh.connect, the handshake reads,
       daemonize, any loop iteration, inside fw.start or the notification —
       consists of _main's events, then MainEnd, then exactly one FwClose,
       followed only by the stop notification / pidfile removal and the exit.
       Nothing is said to the helper after the close and the close is never
       skipped, also when the finally block itself fails later on. *)
Theorem c12_close_always : forall s, exists pre e0 post e1,
  run s = MainEnter :: pre ++ MainEnd e0 :: FwClose :: post ++ [Exit e1] /\
  ~ In FwClose pre /\
  (forall x, In x post -> x = NotifyStop \/ x = DaemonCleanup).
Proof. exact close_always. Qed.
Print Assumptions c12_close_always.

(* (4) ssh found dead (poll() not None with any status, or in daemon mode the
       os.kill probe failing) at any iteration: the loop ends right there with
       Fatal unless an earlier iteration already ended it; no later iteration
       runs.  With (3): the channel is closed. *)
Theorem c12_dead_ssh_loop : forall s it tl, it_dead it <> None ->
  forall a armed,
  run_loop s armed (a ++ it :: tl) =
  (fst (run_loop s armed a),
   match snd (run_loop s armed a) with
   | Some e => Some e
   | None => Some (EFatal FSshExited)
   end).
Proof. exact run_loop_dead. Qed.
Print Assumptions c12_dead_ssh_loop.

Theorem c12_dead_ssh_raises : forall s iters armed,
  Exists (fun it => it_dead it <> None) iters ->
  snd (run_loop s armed iters) <> None.
Proof. exact run_loop_dead_raises. Qed.
Print Assumptions c12_dead_ssh_raises.

Theorem c12_dead_ssh : forall s a it tl,
  sync_ok s = true -> (s_daemon s = true -> s_daemonize s = None) ->
  s_iters s = a ++ it :: tl -> it_dead it <> None ->
  snd (run_loop s true a) = None ->
  exists pre post, run s = pre ++ MainEnd (EFatal FSshExited) :: FwClose :: post.
Proof. exact dead_ssh. Qed.
Print Assumptions c12_dead_ssh.

(* (5) No verified handshake, no interception: if ssh.connect failed, a read
       raised, the string was wrong or cut short, or ssh had already exited
       (sync_ok s = false), nothing but Upload happens before the close. *)
Theorem c12_no_intercept_without_sync : forall s, sync_ok s = false ->
  ~ In SyncOk (run s) /\ ~ In FwStart (run s) /\ ~ In Routes (run s) /\
  exists e post, run s = MainEnter :: Upload :: MainEnd e :: FwClose :: post.
Proof. exact no_sync_no_start. Qed.
Print Assumptions c12_no_intercept_without_sync.

Theorem c12_sync_event_iff : forall s, In SyncOk (run s) <-> sync_ok s = true.
Proof. exact sync_iff. Qed.
Print Assumptions c12_sync_event_iff.

(* ... stated on the byte stream (any segmentation): a stream the stream-level
   handshake specification of C07 rejects never leads to interception; in
   particular one that ends (EOF) before 12 bytes followed the second NUL. *)
Theorem c12_wrong_handshake : forall s, Forall nonempty (s_chunks s) ->
  fst (hs_spec client_sync (concat (s_chunks s))) = false ->
  ~ In SyncOk (run s) /\ ~ In FwStart (run s).
Proof. exact wrong_handshake. Qed.
Print Assumptions c12_wrong_handshake.

Theorem c12_missing_handshake : forall s, Forall nonempty (s_chunks s) ->
  (lenN (after_nul (after_nul (concat (s_chunks s)))) < lenN client_sync)%N ->
  ~ In SyncOk (run s) /\ ~ In FwStart (run s).
Proof. exact missing_handshake. Qed.
Print Assumptions c12_missing_handshake.

Theorem c12_bad_sync_event : forall s,
  s_connect s = None -> handshake s = HsDone false -> s_poll0 s = None ->
  exists post, run s = MainEnter :: Upload :: SyncBad :: FwClose :: post.
Proof. exact bad_sync_event. Qed.
Print Assumptions c12_bad_sync_event.

(* (6) STOPPING=1 is announced exactly when closing the helper succeeded
       (close did not raise and the helper exited with status 0 — in daemon
       mode the status is not waited for). *)
Theorem c12_stop_notified_iff_done_ok : forall s,
  In NotifyStop (run s) <-> done_ok s = true.
Proof. exact stop_iff_done_ok. Qed.
Print Assumptions c12_stop_notified_iff_done_ok.

(* ------------------------------------------------------------------ *)
(* Non-vacuity: concrete scripts meeting the hypotheses above.          *)

Definition ex_script (iters : list iter) : script :=
  mkScript false false None [server_sync] None None None iters
           (StReply true None) None None (WaitRv 0) None None.

Example c12_ex_good :
  run (ex_script [mkIter None [AHostList 1 HlNone]; mkIter None [ARoutes false]]) =
  [MainEnter; Upload; SyncOk; HostList; FwHost; Routes; FwStart; FwStarted; NotifyReady;
   MainEnd EStop; FwClose; NotifyStop; Exit EStop].
Proof. vm_compute. reflexivity. Qed.

(* a second ROUTES message ends the loop with Exception, it does not restart the helper *)
Example c12_ex_routes_twice :
  run (ex_script [mkIter None [ARoutes false]; mkIter None [ARoutes false]]) =
  [MainEnter; Upload; SyncOk; Routes; FwStart; FwStarted; NotifyReady; Routes;
   MainEnd (EOther CException); FwClose; NotifyStop; Exit (EOther CException)].
Proof. vm_compute. reflexivity. Qed.

Example c12_ex_dead_ssh :
  let s := ex_script [mkIter None [ARoutes false]; mkIter (Some 255%Z) []; mkIter None []] in
  sync_ok s = true /\ s_iters s = [mkIter None [ARoutes false]] ++ mkIter (Some 255%Z) [] :: [mkIter None []] /\
  snd (run_loop s true [mkIter None [ARoutes false]]) = None /\
  run s = [MainEnter; Upload; SyncOk; Routes; FwStart; FwStarted; NotifyReady;
           MainEnd (EFatal FSshExited); FwClose; NotifyStop; Exit (EFatal FSshExited)].
Proof. vm_compute. repeat split. Qed.

(* EOF two bytes before the end of the synchronisation string, in daemon mode,
   the helper exiting with status 3 is not waited for *)
Example c12_ex_missing :
  let s := mkScript true false None [firstn 12 server_sync] None None None
                    [mkIter None [ARoutes false]] (StReply true None) None None (WaitRv 3) None None in
  Forall nonempty (s_chunks s) /\
  (lenN (after_nul (after_nul (concat (s_chunks s)))) < lenN client_sync)%N /\
  sync_ok s = false /\
  run s = [MainEnter; Upload; SyncBad; FwClose; NotifyStop; DaemonCleanup; Exit (EFatal FBadSync)].
Proof. vm_compute. repeat split. constructor; [discriminate|constructor]. Qed.

(* an exception inside fw.start (^C while waiting for STARTED), then the helper
   exits non-zero: done() raises Fatal in the finally block, no STOPPING=1 *)
Example c12_ex_finally_fails :
  let s := mkScript false false None [server_sync] None None None [mkIter None [ARoutes false]]
                    (StReadExn (EOther CKeyboardInterrupt)) None None (WaitRv 1) None None in
  done_ok s = false /\
  run s = [MainEnter; Upload; SyncOk; Routes; FwStart; MainEnd (EOther CKeyboardInterrupt);
           FwClose; Exit (EFatal FCleanup)].
Proof. vm_compute. split; reflexivity. Qed.

(* ------------------------------------------------------------------ *)
(* Which process is "the helper": FirewallClient.__init__ (client.py:208-390),
   Model/FwInit.v.  It runs before client.main's `try:`; `run s` above starts
   where it has succeeded.  The candidates (sudo ..., doas ..., the bare command)
   are arbitrary: any of them may be absent, exit at once with any status, print
   any number of lines of anything before or instead of READY. *)
From Coq Require String.
From SV Require Import Model.FwInit Proofs.FwInit_lemmas.
Import String.StringSyntax.
Delimit Scope string_scope with string.

(* (8) The process the client goes on with was really started, had not exited with a
       failure status when looked at, and ANNOUNCED ITSELF with a READY line among its
       first 101 lines (whose text names the method the client then plans for); every
       candidate tried before it failed one of these tests. *)
Theorem c12_helper_verified : forall cs k m,
  fw_init cs = Some (k, m) ->
  exists c, nth_error cs k = Some c /\
    c_spawn c = true /\ (c_rv c = None \/ c_rv c = Some 0%Z) /\
    (exists line, In line (firstn 101 (c_lines c)) /\ is_ready line = true /\ m = method_of line) /\
    forall j c', (j < k)%nat -> nth_error cs j = Some c' -> cand_result c' = None.
Proof.
  intros cs k m H. destruct (fw_init_chosen cs k m H) as (c & Hn & Hr & Hb).
  destruct (cand_result_sound c m Hr) as (H1 & H2 & H3).
  exists c. repeat split; assumption.
Qed.
Print Assumptions c12_helper_verified.

(* (9) No helper, no session: start-up stops (Fatal, before the `try:` of client.main,
       hence before any event of `run`) exactly when every candidate failed. *)
Theorem c12_no_helper_iff_all_failed : forall cs,
  fw_init cs = None <-> forall c, In c cs -> cand_result c = None.
Proof. exact fw_init_none. Qed.
Print Assumptions c12_no_helper_iff_all_failed.

(* (10) Elevation commands are tried before the bare command, never by an administrator. *)
Theorem c12_try_order : forall admin doas_found sudo_found openbsd,
  (admin = true -> try_order admin doas_found sudo_found openbsd = [PDirect]) /\
  (admin = false -> exists a b, try_order admin doas_found sudo_found openbsd = [a; b; PDirect] /\
                     ((a = PSudo /\ b = PDoas) \/ (a = PDoas /\ b = PSudo))).
Proof. exact try_order_shape. Qed.
Print Assumptions c12_try_order.

(* sudo refuses (wrong password, status 1), doas is not installed, the bare command answers
   after a lecture line: the third candidate is the helper, for method nft *)
Example c12_ex_init :
  let rd := fun s => Lib.Bytes.bytes_of_string s in
  fw_init [ mkCand true [] (Some 1%Z); mkCand false [] None;
            mkCand true [rd "We trust you have received the usual lecture"%string; rd "READY nft
"%string] None ] = Some (2%nat, rd "nft"%string) /\
  fw_init [ mkCand true [rd "Sorry, try again."%string] (Some 0%Z); mkCand false [] None ] = None.
Proof. vm_compute. split; reflexivity. Qed.
