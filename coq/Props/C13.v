(* Props/C13.v — C13: the helper receives exactly the plan and host updates the
   client sent.  Statements only; every proof is `exact <lemma>` (or a few lines
   of glue) into Proofs/Dialogue_lemmas.v, followed by Print Assumptions.

   Reading guide (all definitions are in Model/Dialogue.v):
     render_plan p / render_dialogue p hs   bytes written by FirewallClient.start / sethostip
     helper_main lim input                  firewall.main reading `input` then EOF with
                                            stdin.readline(lim)  (lim = None: readline())
     helper = helper_main None              the reader as repaired (finding F5)
     helper_asfound = helper_main (Some 128) the reader as found
     hplan_of p / expected_events p hs      what the helper must reconstruct / must do *)
From Coq Require Import List NArith ZArith Ascii Bool.
From SV Require Import Lib.Bytes Lib.DialogueLib Model.Dialogue Proofs.Dialogue_lemmas Gen.Consts.
Import ListNotations.
Import String.StringSyntax.
Local Open Scope N_scope.

(* (1) Every line the client writes for a valid plan (IPv6 text <= 45 chars, family
       < 2^16, width <= 128, ports <= 65535, uid/gid/pid <= 2^32-1, mark <= 10 visible
       chars) is at most 70 bytes long, newline included — well below the 128 bytes
       the helper as found reads at a time.  70 is attained (c13_ex_longest_line). *)
Theorem c13_line_bound : forall p, valid_plan p = true ->
  render_plan p = concat (map with_nl (plan_lines p)) /\
  Forall (fun b => lenN (with_nl b) <= LINE_BOUND) (plan_lines p) /\
  LINE_BOUND = 70 /\ LINE_BOUND <= READ_LIMIT_ASFOUND.
Proof.
  intros p V. split; [reflexivity|]. split; [exact (plan_lines_bound p V)|].
  split; [reflexivity|]. discriminate.
Qed.
Print Assumptions c13_line_bound.

(* (2) For ALL valid plans and every read limit that is absent or >= 70 (so both
       for the repaired and the as-found reader): what the helper parses before it
       acts is exactly the plan, field by field (hplan_of, spelled out in
       c13_plan_fields), nothing is left over, and the helper sets up, confirms and
       at end of input cleans up exactly as expected. *)
Theorem c13_roundtrip : forall lim p,
  valid_plan p = true -> limit_ok lim = true ->
  parse_plan (chunks lim (render_plan p)) = POk (hplan_of p) [] /\
  helper_main lim (render_plan p) = (expected_events p [], ExReturn).
Proof. exact plan_roundtrip. Qed.
Print Assumptions c13_roundtrip.

(* (2b) hplan_of, field by field: family, network text, width, include/exclude,
        port range (includes and auto-nets first, then excludes, order kept), name
        servers, four ports, udp, user, group (decimal text or None), mark, pid. *)
Theorem c13_plan_fields : forall p,
  let hp := hplan_of p in
  h_subnets hp =
    map (fun s => mkHsubnet (Z.of_N (sn_family s)) (Z.of_N (sn_width s)) false (sn_ip s)
                            (Z.of_N (sn_fport s)) (Z.of_N (sn_lport s))) (p_include p ++ p_auto p)
    ++ map (fun s => mkHsubnet (Z.of_N (sn_family s)) (Z.of_N (sn_width s)) true (sn_ip s)
                               (Z.of_N (sn_fport s)) (Z.of_N (sn_lport s))) (p_exclude p) /\
  h_nslist hp = map (fun e => (Z.of_N (fst e), snd e)) (p_nslist p) /\
  (h_port_v6 hp, h_port_v4 hp, h_dns_v6 hp, h_dns_v4 hp) =
    (Z.of_N (p_port_v6 p), Z.of_N (p_port_v4 p), Z.of_N (p_dns_v6 p), Z.of_N (p_dns_v4 p)) /\
  h_udp hp = p_udp p /\
  h_user hp = option_map dec (p_user p) /\ h_group hp = option_map dec (p_group p) /\
  h_tmark hp = p_tmark p /\ h_pid hp = Z.of_N (p_pid p).
Proof. intros p. repeat split. Qed.
Print Assumptions c13_plan_fields.

(* (3) Host updates, repaired reader: for ALL valid plans and ALL lists of updates
       whose names are over [-A-Za-z0-9_.] and addresses over [0-9.] (whatever the
       client's own assertions let through) — names of ANY length, in particular
       up to the DNS limit of 253 — the helper rewrites the hosts file with exactly
       the successive maps and withdraws them at the end. *)
Theorem c13_host_roundtrip : forall p hs,
  valid_plan p = true -> forallb host_ok hs = true ->
  helper (render_dialogue p hs) = (expected_events p hs, ExReturn).
Proof. exact host_roundtrip_repaired. Qed.
Print Assumptions c13_host_roundtrip.

(* (3a) The reader as found (readline(128)): true exactly as far as every HOST line
        fits, i.e. len(name) + len(ip) <= 121 (names up to 106 chars for any dotted
        quad) ... *)
Theorem c13_host_roundtrip_asfound_partial : forall p hs,
  valid_plan p = true -> forallb host_ok hs = true ->
  forallb host_fits_asfound hs = true ->
  helper_asfound (render_dialogue p hs) = (expected_events p hs, ExReturn).
Proof.
  intros p hs V H F.
  exact (dialogue_roundtrip (Some READ_LIMIT_ASFOUND) p hs V H eq_refl (hosts_fit_asfound hs F)).
Qed.
Print Assumptions c13_host_roundtrip_asfound_partial.

(* (3b) ... and false beyond: finding F5.  Witness: a 108-character name with
        192.168.100.200; the helper enters the name with the address cut to
        "192.168.100.20" and then dies on the left-over "0". *)
Theorem c13_host_roundtrip_asfound_refuted : exists p hs,
  valid_plan p = true /\ forallb host_ok hs = true /\
  Forall (fun h => lenN (fst h) <= 253) hs /\
  helper_asfound (render_dialogue p hs) <> (expected_events p hs, ExReturn).
Proof.
  exists f5_plan, f5_hosts. split; [reflexivity|]. split; [reflexivity|]. split.
  - repeat constructor. apply N.leb_le. reflexivity.
  - vm_compute. discriminate.
Qed.
Print Assumptions c13_host_roundtrip_asfound_refuted.

(* (3c) The code under check (limit regenerated from /repo on every run): it is
        one of the two readers above, plans always survive it, and host updates
        survive it as far as their lines fit it (always, once the limit is gone). *)
Theorem c13_reader_of_code :
  (fw_readline_limit = None \/ fw_readline_limit = Some READ_LIMIT_ASFOUND) /\
  limit_ok fw_readline_limit = true.
Proof. split; [first [left; reflexivity | right; reflexivity]|reflexivity]. Qed.
Print Assumptions c13_reader_of_code.

Theorem c13_roundtrip_code : forall p hs,
  valid_plan p = true -> forallb host_ok hs = true -> hosts_fit fw_readline_limit hs = true ->
  helper_main fw_readline_limit (render_dialogue p hs) = (expected_events p hs, ExReturn).
Proof. intros p hs V H F. exact (dialogue_roundtrip fw_readline_limit p hs V H eq_refl F). Qed.
Print Assumptions c13_roundtrip_code.

(* (4) Truncation.  [plan_head_bytes p] is the dialogue up to and including the
       blank before the pid, the last field of the GO line (c13_plan_head). *)

(* (4a) A dialogue cut ANYWHERE before the first digit of the pid — after any whole
        line before GO, inside any of those lines, inside the GO line — makes the
        helper leave without a single call: no set-up, no STARTED, no hosts file. *)
Theorem c13_truncation : forall lim p pre,
  valid_plan p = true -> limit_ok lim = true ->
  prefix pre (plan_head_bytes p) ->
  fst (helper_main lim pre) = [].
Proof. exact no_action_before_pid. Qed.
Print Assumptions c13_truncation.

Theorem c13_plan_head : forall p,
  render_plan p = plan_head_bytes p ++ dec (p_pid p) ++ [nl].
Proof. exact render_plan_split. Qed.
Print Assumptions c13_plan_head.

(* (4b) A dialogue cut after any whole line from GO on is handled exactly as the
        shorter dialogue: set-up, the updates received so far, clean-up. *)
Theorem c13_truncation_after_line : forall lim p hs j,
  valid_plan p = true -> forallb host_ok hs = true ->
  limit_ok lim = true -> hosts_fit lim hs = true ->
  prefix (render_dialogue p (firstn j hs)) (render_dialogue p hs) /\
  helper_main lim (render_dialogue p (firstn j hs)) = (expected_events p (firstn j hs), ExReturn).
Proof. exact cut_after_line. Qed.
Print Assumptions c13_truncation_after_line.

(* (4c) For EVERY input whatsoever (any bytes, any cut, any read limit): either the
        helper called nothing, or what it did is: the set-up calls of the plan it
        parsed, WAIT, STARTED, then only hosts-file rewrites / rejected commands,
        and finally the clean-up of exactly that plan (the finally block) — however
        the loop ended (end of input, Fatal, ValueError, UnicodeDecodeError). *)
Theorem c13_cleanup_always : forall lim input,
  fst (helper_main lim input) = [] \/
  exists hp mid hm,
    fst (helper_main lim input) =
      setup_events hp ++ EvWait (h_pid hp) :: EvStarted :: mid ++ finally_events hp hm /\
    Forall host_phase_event mid.
Proof. exact cleanup_always. Qed.
Print Assumptions c13_cleanup_always.

(* (4d) The silent return (end of input before any line) happens with nothing done. *)
Theorem c13_silent_exit_did_nothing : forall lim input,
  snd (helper_main lim input) = ExSilent -> fst (helper_main lim input) = [].
Proof. exact exit_before_try. Qed.
Print Assumptions c13_silent_exit_did_nothing.

(* ------------------------------------------------------------------ *)
(* Non-vacuity                                                         *)

Definition ex_plan : plan :=
  mkPlan [mkSubnet 2 (B "1.2.3.0") 24 8000 9000;
          mkSubnet 10 (B "ffff:ffff:ffff:ffff:ffff:ffff:255.255.255.255") 128 65535 65535]
         [mkSubnet 2 (B "10.0.0.0") 8 0 0]
         [mkSubnet 10 (B "2404:6800:4004:80c::101f") 128 80 80]
         [(2, B "1.2.3.33"); (10, B "2404:6800:4004:80c::33")]
         1024 1025 1026 1027 true None (Some 4294967295) (B "0xffffffff") 12345.
Definition ex_hosts : list (bytes * bytes) :=
  [(B "my-host_1.example", B "10.1.2.3"); (repeat "x"%char 253, B "255.255.255.255");
   (B "my-host_1.example", B "10.1.2.4")].

Example c13_ex_valid : valid_plan ex_plan = true /\ forallb host_ok ex_hosts = true.
Proof. split; reflexivity. Qed.

(* the bound of (1) is attained: "10,128,1,<45 chars>,65535,65535\n" has 67 bytes with
   family 10 and 70 with a 5-digit family *)
Example c13_ex_longest_line :
  let s := mkSubnet 65535 (B "ffff:ffff:ffff:ffff:ffff:ffff:255.255.255.255") 128 65535 65535 in
  valid_subnet s = true /\ lenN (with_nl (route_line true s)) = LINE_BOUND.
Proof. split; reflexivity. Qed.

(* the example dialogue really exercises both families, three updates (one of
   253 characters, one overwriting an earlier one) and the clean-up *)
Example c13_ex_run :
  let '(ev, ex) := helper (render_dialogue ex_plan ex_hosts) in
  length ev = 10%nat /\ ex = ExReturn /\
  fst (helper_asfound (render_dialogue ex_plan ex_hosts)) <> ev.
Proof. vm_compute. repeat split. discriminate. Qed.

(* a cut inside the GO line, just before the pid: hypotheses of (4a) are met *)
Example c13_ex_cut :
  prefix (plan_head_bytes ex_plan) (plan_head_bytes ex_plan) /\
  lenN (plan_head_bytes ex_plan) = 257 /\
  helper_main None (plan_head_bytes ex_plan) = ([], ExCrash CValueError).
Proof. split; [apply prefix_refl|]. split; vm_compute; reflexivity. Qed.

(* one digit of the pid is enough for the GO line to be accepted (see the report):
   the helper sets up with pid 1 instead of 12345 and cleans up at once *)
Example c13_ex_cut_inside_pid :
  let '(ev, ex) := helper_main None (plan_head_bytes ex_plan ++ B "1") in
  In (EvWait 1) ev /\ ex = ExReturn /\ length ev = 6%nat.
Proof. vm_compute. repeat split. right. right. left. reflexivity. Qed.
