(* Props/C03.v — C03: traffic is intercepted exactly when its most specific
   subnet entry is an include.  Statements only; proofs are `exact <lemma>` (or a
   few lines of glue) into Proofs/FwRules_lemmas.v, FwTproxy_lemmas.v,
   FwPf_lemmas.v, each followed by Print Assumptions.

   What is proved is about the MODEL: rule generation faithful to
   sshuttle/methods/{nat,nft,tproxy,pf}.py (Model/FwRules.v, tied to /repo token
   for token by harness/props/c03.py) evaluated by the MODELLED kernel packet
   filter (Model/FwWalk.v, DESIGN.md §3).  Quantification: every plan (any
   number of entries of both families in any order, any name-server list, ports,
   user/group, udp flag, mark) satisfying wf_plan, every packet. *)
From Coq Require Import List NArith ZArith Ascii Bool String.
From SV Require Import Lib.Bytes Model.FwRules Model.FwWalk Model.FwStale Model.FwPfHook
  Proofs.FwRules_lemmas Proofs.FwTproxy_lemmas Proofs.FwPf_lemmas Proofs.FwStale_lemmas
  Proofs.FwPfHook_lemmas.
Import ListNotations.
Local Open Scope N_scope.

(* ------------------------------------------------------------------ sorting *)

(* (0) subnet_weight orders well-formed entries exactly as the property text
       says: narrower port range first, then longer prefix, exclusion winning. *)
Theorem c03_key_is_specificity : forall a b,
  wf_entry a -> wf_entry b -> key_leb a b = spec_leb a b.
Proof. exact key_leb_spec. Qed.
Print Assumptions c03_key_is_specificity.

(* (1) first match in the list sorted by descending key (sorted(..., reverse=True)),
       resp. last match in the ascending list (pf), is a matching entry of
       maximal key; entries of equal key carry the same exclude flag, so "which
       one of several maximal entries" never matters, and an exclude beats an
       otherwise equal include because the flag is the last key component. *)
Theorem c03_sorted_first_match : forall (f : entry -> bool) l,
  (forall e, find f (sort_desc l) = Some e ->
     In e l /\ f e = true /\ forall e', In e' l -> f e' = true -> key_leb e' e = true) /\
  (find f (sort_desc l) = None -> forall e, In e l -> f e = false) /\
  (forall e, find_last f (sort_asc l) = Some e ->
     In e l /\ f e = true /\ forall e', In e' l -> f e' = true -> key_leb e' e = true) /\
  (find_last f (sort_asc l) = None -> forall e, In e l -> f e = false) /\
  (forall a b, key_leb a b = true -> key_leb b a = true -> e_excl a = e_excl b).
Proof.
  intros f l. repeat split.
  - destruct (find_desc_max f _ e (sort_desc_sorted l) H) as (Hin & _ & _). apply sort_desc_In. exact Hin.
  - destruct (find_desc_max f _ e (sort_desc_sorted l) H) as (_ & Hf & _). exact Hf.
  - intros e' He' Hf'. destruct (find_desc_max f _ e (sort_desc_sorted l) H) as (_ & _ & Hmax).
    apply Hmax; [apply sort_desc_In; exact He'|exact Hf'].
  - intros H e He. apply (find_none f _ H). apply sort_desc_In. exact He.
  - destruct (find_asc_max f _ e (sort_asc_sorted l) H) as (Hin & _ & _). apply sort_asc_In. exact Hin.
  - destruct (find_asc_max f _ e (sort_asc_sorted l) H) as (_ & Hf & _). exact Hf.
  - intros e' He' Hf'. destruct (find_asc_max f _ e (sort_asc_sorted l) H) as (_ & _ & Hmax).
    apply Hmax; [apply sort_asc_In; exact He'|exact Hf'].
  - intros H e He. apply (find_last_none f _ H). apply sort_asc_In. exact He.
  - exact key_leb_antisym_excl.
Qed.
Print Assumptions c03_sorted_first_match.

(* (1b) the stability of Python's sorted() that the token-for-token
        correspondence relies on: within one key class the original order is kept *)
Theorem c03_sort_stable : forall k l,
  filter (key_eqb k) (sort_desc l) = filter (key_eqb k) l /\
  filter (key_eqb k) (sort_asc l) = filter (key_eqb k) l.
Proof. intros k l. split; [apply sort_desc_stable|apply sort_asc_stable]. Qed.
Print Assumptions c03_sort_stable.

(* (1c) the executable specification used as oracle by the harness is the
        specification *)
Theorem c03_spec_decided : forall es p, spec_interceptb es p = true <-> spec_intercept es p.
Proof. exact spec_interceptb_ok. Qed.
Print Assumptions c03_spec_decided.

(* traffic matching no entry / of the other family satisfies no specification *)
Theorem c03_no_entry_no_intercept : forall es p,
  (forall e, In e es -> e_fam e <> p_fam p \/ e_matches p e = false) -> ~ spec_intercept es p.
Proof. exact spec_no_match. Qed.
Print Assumptions c03_no_entry_no_intercept.

Theorem c03_ns_hit_meaning : forall pl p,
  ns_hit pl p = true <-> exists n, In n (pl_ns pl) /\ ns_fam n = p_fam p /\ ns_addr n = p_dst p.
Proof. exact ns_hit_ok. Qed.
Print Assumptions c03_ns_hit_meaning.

(* ---------------------------------------------------------------------- nat *)
(* owner_ok as nat implements it: with --user/--group only locally generated
   packets of that uid/gid are marked in mangle/OUTPUT and hence diverted *)
Theorem c03_nat_tcp : forall pl p,
  wf_plan pl -> p_proto p = Tcp ->
  (nat_verdict pl p = Divert (port_of pl (p_fam p)) <->
     spec_intercept (pl_entries pl) p /\ nat_owner_okb pl p = true) /\
  (nat_verdict pl p = Divert (port_of pl (p_fam p)) \/ nat_verdict pl p = Untouched).
Proof.
  intros pl p Hwf Hp.
  exact (verdict_iff _ _ _ _ (spec_and_iff _ _ _) (nat_tcp_eq pl p Hwf Hp)).
Qed.
Print Assumptions c03_nat_tcp.

Theorem c03_nat_dns : forall pl p,
  wf_plan pl -> p_proto p = Udp ->
  nat_verdict pl p =
  if (p_dport p =? 53) && ns_hit pl p && nat_owner_okb pl p
  then Divert (dns_of pl (p_fam p)) else Untouched.
Proof. exact nat_udp_eq. Qed.
Print Assumptions c03_nat_dns.

(* nat does not forward UDP: anything but DNS to a configured server is left alone *)
Corollary c03_nat_udp : forall pl p,
  wf_plan pl -> p_proto p = Udp -> (p_dport p =? 53) && ns_hit pl p = false ->
  nat_verdict pl p = Untouched.
Proof. intros pl p Hwf Hp H. rewrite (nat_udp_eq pl p Hwf Hp), H. reflexivity. Qed.
Print Assumptions c03_nat_udp.

(* ---------------------------------------------------------------------- nft *)
(* nft has no user/group support: owner_ok = True (F15: --group is accepted by
   the client and ignored; repaired under C15) *)
Theorem c03_nft_tcp : forall pl p,
  wf_plan pl -> p_proto p = Tcp -> p_dst_local p = false ->
  (nft_verdict pl p = Divert (port_of pl (p_fam p)) <-> spec_intercept (pl_entries pl) p) /\
  (nft_verdict pl p = Divert (port_of pl (p_fam p)) \/ nft_verdict pl p = Untouched).
Proof.
  intros pl p Hwf Hp Hl.
  exact (verdict_iff _ _ _ _ (spec_interceptb_ok _ _) (nft_tcp_eq pl p Hwf Hp Hl)).
Qed.
Print Assumptions c03_nft_tcp.

Theorem c03_nft_tcp_local : forall pl p,
  p_proto p = Tcp -> p_dst_local p = true -> nft_verdict pl p = Untouched.
Proof. exact nft_tcp_local. Qed.
Print Assumptions c03_nft_tcp_local.

Theorem c03_nft_dns : forall pl p,
  wf_plan pl -> p_proto p = Udp ->
  nft_verdict pl p =
  if (p_dport p =? 53) && ns_hit pl p then Divert (dns_of pl (p_fam p)) else Untouched.
Proof. exact nft_udp_eq. Qed.
Print Assumptions c03_nft_dns.

Corollary c03_nft_udp : forall pl p,
  wf_plan pl -> p_proto p = Udp -> (p_dport p =? 53) && ns_hit pl p = false ->
  nft_verdict pl p = Untouched.
Proof. intros pl p Hwf Hp H. rewrite (nft_udp_eq pl p Hwf Hp), H. reflexivity. Qed.
Print Assumptions c03_nft_udp.

(* ------------------------------------------------------------------- tproxy *)
(* first packet of a flow (no local socket yet); locally generated packets go
   mark chain -> re-route -> tproxy chain, forwarded ones tproxy chain only *)
Theorem c03_tproxy_tcp : forall pl p,
  wf_plan pl -> p_proto p = Tcp -> p_sock p = false -> p_dst_local p = false ->
  (tproxy_verdict pl p = Divert (port_of pl (p_fam p)) <-> spec_intercept (pl_entries pl) p) /\
  (tproxy_verdict pl p = Divert (port_of pl (p_fam p)) \/ tproxy_verdict pl p = Untouched).
Proof.
  intros pl p Hwf Hp Hs Hl.
  pose proof (tproxy_tcp_eq pl p Hwf Hp Hs) as H. rewrite Hl in H. cbn [negb andb] in H.
  exact (verdict_iff _ _ _ _ (spec_interceptb_ok _ _) H).
Qed.
Print Assumptions c03_tproxy_tcp.

(* full statement for UDP under tproxy: DNS to the configured servers and only
   those goes to the DNS listener; other UDP is diverted iff the udp flag is
   set, by the same rule as TCP *)
Definition c03_tproxy_dns_full : Prop := forall pl p,
  wf_plan pl -> p_proto p = Udp -> p_sock p = false ->
  tproxy_verdict pl p =
  if (p_dport p =? 53) && ns_hit pl p then Divert (dns_of pl (p_fam p))
  else if pl_udp pl && negb (p_dst_local p) && spec_interceptb (pl_entries pl) p
       then Divert (port_of pl (p_fam p)) else Untouched.

(* proved: the full statement minus exactly the F18 class (IPv6, UDP/53,
   destination shares the first 32 bits with a configured IPv6 name server
   without being one) — tproxy.py:150,153 print '%s/32' for both families and
   tests/client/test_methods_tproxy.py pins it *)
Theorem c03_tproxy_dns_partial : forall pl p,
  wf_plan pl -> p_proto p = Udp -> p_sock p = false -> f18_class pl p = false ->
  tproxy_verdict pl p =
  if (p_dport p =? 53) && ns_hit pl p then Divert (dns_of pl (p_fam p))
  else if pl_udp pl && negb (p_dst_local p) && spec_interceptb (pl_entries pl) p
       then Divert (port_of pl (p_fam p)) else Untouched.
Proof. exact tproxy_udp_partial_eq. Qed.
Print Assumptions c03_tproxy_dns_partial.

(* other UDP: diverted iff tproxy forwards UDP, by the same rule as TCP *)
Corollary c03_tproxy_udp : forall pl p,
  wf_plan pl -> p_proto p = Udp -> p_sock p = false -> p_dst_local p = false ->
  (p_dport p =? 53) = false ->
  (tproxy_verdict pl p = Divert (port_of pl (p_fam p)) <->
     pl_udp pl = true /\ spec_intercept (pl_entries pl) p) /\
  (tproxy_verdict pl p = Divert (port_of pl (p_fam p)) \/ tproxy_verdict pl p = Untouched).
Proof.
  intros pl p Hwf Hp Hs Hl Hd.
  assert (H18 : f18_class pl p = false).
  { unfold f18_class. rewrite Hp, Hd. destruct (p_fam p); reflexivity. }
  pose proof (tproxy_udp_partial_eq pl p Hwf Hp Hs H18) as H. rewrite Hd, Hl in H. cbn [negb andb] in H.
  rewrite andb_true_r in H.
  refine (verdict_iff _ _ _ _ _ H). rewrite andb_true_iff, spec_interceptb_ok. tauto.
Qed.
Print Assumptions c03_tproxy_udp.

(* what the code as found does for every UDP packet: the name-server test is a
   /32 prefix test *)
Theorem c03_tproxy_dns_asfound : forall pl p,
  wf_plan pl -> p_proto p = Udp -> p_sock p = false ->
  tproxy_verdict pl p =
  if (p_dport p =? 53) && ns_hit32 pl p then Divert (dns_of pl (p_fam p))
  else if pl_udp pl && negb (p_dst_local p) && spec_interceptb (pl_entries pl) p
       then Divert (port_of pl (p_fam p)) else Untouched.
Proof. exact tproxy_udp_asfound_eq. Qed.
Print Assumptions c03_tproxy_dns_asfound.

Theorem c03_tproxy_chains_agree : forall pl p,
  wf_plan pl -> p_sock p = false -> tproxy_marked pl p = tproxy_diverted pl p.
Proof. exact tproxy_chains_agree. Qed.
Print Assumptions c03_tproxy_chains_agree.

(* later packets of a diverted flow are handed to the flow's socket by -m socket *)
Theorem c03_tproxy_established : forall pl p,
  fam_active pl (p_fam p) = true -> p_sock p = true -> p_dst_local p = false ->
  p_origin p = Forwarded -> (p_proto p = Tcp \/ pl_udp pl = true) -> tp_dnshit pl p = false ->
  tproxy_verdict pl p = ToSocket.
Proof. exact tproxy_established. Qed.
Print Assumptions c03_tproxy_established.

(* ----------------------------------------------------------------------- pf *)
(* both rule shapes (FreeBsd = FreeBSD, Darwin, pfSense; OpenBsd); pf has no
   user/group support (F15).  pf_rules = None is the UnboundLocalError of
   pf.py:458-473 for "name servers but no subnet of this family". *)
Theorem c03_pf_tcp : forall os pl p,
  wf_plan pl -> p_proto p = Tcp -> p_src_lo p = false -> pf_rules os pl (p_fam p) <> None ->
  exists v, pf_verdict os pl p = Some v /\
  (v = Divert (port_of pl (p_fam p)) <-> spec_intercept (pl_entries pl) p) /\
  (v = Divert (port_of pl (p_fam p)) \/ v = Untouched).
Proof.
  intros os pl p Hwf Hp Hs Hne. eexists. split; [exact (pf_tcp_eq os pl p Hwf Hp Hs Hne)|].
  exact (verdict_iff _ _ _ _ (spec_interceptb_ok _ _) eq_refl).
Qed.
Print Assumptions c03_pf_tcp.

Theorem c03_pf_dns : forall os pl p,
  wf_plan pl -> p_proto p = Udp -> pf_rules os pl (p_fam p) <> None ->
  pf_verdict os pl p =
  Some (if (p_dport p =? 53) && ns_hit pl p then Divert (dns_of pl (p_fam p)) else Untouched).
Proof. exact pf_udp_eq. Qed.
Print Assumptions c03_pf_dns.

Corollary c03_pf_udp : forall os pl p,
  wf_plan pl -> p_proto p = Udp -> pf_rules os pl (p_fam p) <> None ->
  (p_dport p =? 53) && ns_hit pl p = false -> pf_verdict os pl p = Some Untouched.
Proof. intros os pl p Hwf Hp Hne H. rewrite (pf_udp_eq os pl p Hwf Hp Hne), H. reflexivity. Qed.
Print Assumptions c03_pf_udp.

Theorem c03_pf_empty_subnets_crash : forall os pl f,
  entries_of pl f = [] -> ns_of pl f <> [] -> pf_rules os pl f = None.
Proof. exact pf_rules_crash. Qed.
Print Assumptions c03_pf_empty_subnets_crash.

(* ------------------------------------- own objects left by a killed session *)
(* A session that is killed never runs its tear-down: the table / chains / anchor
   named for its port stay.  The next session on that port must install rules
   that decide by ITS entries alone.  nft.py does not call restore_firewall at
   set-up: it relies on `add table` / `add chain` being idempotent and on
   `flush chain <own chain>`.  For every content s6 / s4 of the session's own
   tables (any rules in the regular chain, any number of jumps in the two hook
   chains — a family the plan does not set up is not touched and must be empty),
   the verdict after set-up is the verdict on a clean packet filter; hence
   c03_nft_tcp / c03_nft_dns / c03_nft_udp hold on such a state too.  (The
   state the harness walks is the one the real commands of both sessions leave
   in the kernel model of C04, coq/Model/FwLife.v.) *)
Theorem c03_nft_stale_own_objects : forall pl s6 s4 p,
  (fam_active pl V6 = false -> s6 = nft_nothing) ->
  (fam_active pl V4 = false -> s4 = nft_nothing) ->
  nft_verdict_on s6 s4 (nft_cmds pl V6) (nft_cmds pl V4) p = nft_verdict pl p.
Proof. exact nft_verdict_stale. Qed.
Print Assumptions c03_nft_stale_own_objects.

Theorem c03_nft_stale_table : forall pl f s p,
  nft_table_outcome_on s (nft_setup pl f) p = nft_table_outcome (nft_setup pl f) p.
Proof. exact nft_table_stale. Qed.
Print Assumptions c03_nft_stale_table.

(* nat / tproxy: restore_firewall at the start of setup_firewall removes hooks
   and chains (its effect on every state is the life cycle proved under C04);
   inside the command list of C03 the part that empties is `-N c` + `-F c`:
   whatever an own chain held before, afterwards it holds this plan's rules *)
Theorem c03_ipt_own_chains_emptied : forall pl f acc,
  rules_of (nat_setup pl f) TNat CMain acc = rules_of (nat_setup pl f) TNat CMain [] /\
  (forall c, c = CMark \/ c = CTproxy \/ c = CDivert ->
     rules_of (tproxy_setup pl f) TMangle c acc = rules_of (tproxy_setup pl f) TMangle c []).
Proof.
  intros pl f acc. split; [apply nat_own_chain_emptied|].
  intros c Hc. apply tproxy_own_chain_emptied. exact Hc.
Qed.
Print Assumptions c03_ipt_own_chains_emptied.

(* ----------------------------------------------------- examples / witnesses *)
(* 10.0.0.0/8 include, 10.1.2.0/24 exclude, 10.1.2.3/32:8080 include,
   name server 10.0.0.53; IPv6: 2404:6800:4004:80c::/64 include, name server
   2404:6800:4004:80c::33 (the numbers of the existing test-suite) *)
Definition ex_plan : plan :=
  mkPlan
    [mkEntry V4 8 false (tx "10.0.0.0") 167772160 0 0;
     mkEntry V6 64 false (tx "2404:6800:4004:80c::") 0x240468004004080c0000000000000000 0 0;
     mkEntry V4 24 true (tx "10.1.2.0") 167838208 0 0;
     mkEntry V4 32 false (tx "10.1.2.3") 167838211 8080 8080]
    [mkNs V4 (tx "10.0.0.53") 167772213;
     mkNs V6 (tx "2404:6800:4004:80c::33") 0x240468004004080c0000000000000033]
    1024 12300 1026 12301 true (Some 1000) None (tx "0x01") 1.
Definition ex_pkt (dst dport : N) (pr : proto) : pkt :=
  mkPkt V4 dst pr dport false Local 1000 1000 false false.

(* the hypotheses are satisfiable and the verdicts are the interesting ones *)
Example c03_ex_wf : wf_plan ex_plan.
Proof. apply wf_planb_ok. vm_compute. reflexivity. Qed.
Example c03_ex_verdicts :
  (* most specific entry = the single-port include *)
  nat_verdict ex_plan (ex_pkt 167838211 8080 Tcp) = Divert 12300 /\
  (* same address, other port: the /24 exclude wins over the /8 include *)
  nat_verdict ex_plan (ex_pkt 167838211 80 Tcp) = Untouched /\
  nft_verdict ex_plan (ex_pkt 167838211 80 Tcp) = Untouched /\
  tproxy_verdict ex_plan (ex_pkt 167838211 80 Tcp) = Untouched /\
  pf_verdict FreeBsd ex_plan (ex_pkt 167838211 80 Tcp) = Some Untouched /\
  (* only the /8 include matches *)
  nft_verdict ex_plan (ex_pkt 168364297 80 Tcp) = Divert 12300 /\
  tproxy_verdict ex_plan (ex_pkt 168364297 80 Tcp) = Divert 12300 /\
  pf_verdict FreeBsd ex_plan (ex_pkt 168364297 80 Tcp) = Some (Divert 12300) /\
  pf_verdict OpenBsd ex_plan (ex_pkt 168364297 80 Tcp) = Some (Divert 12300) /\
  (* other owner (nat, --user 1000) *)
  nat_verdict ex_plan (mkPkt V4 168364297 Tcp 80 false Local 1001 1000 false false) = Untouched /\
  (* DNS *)
  nat_verdict ex_plan (ex_pkt 167772213 53 Udp) = Divert 12301 /\
  tproxy_verdict ex_plan (ex_pkt 167772213 53 Udp) = Divert 12301 /\
  (* other UDP: only tproxy (udp flag set) *)
  nft_verdict ex_plan (ex_pkt 168364297 4000 Udp) = Untouched /\
  tproxy_verdict ex_plan (ex_pkt 168364297 4000 Udp) = Divert 12300 /\
  spec_interceptb (pl_entries ex_plan) (ex_pkt 167838211 8080 Tcp) = true /\
  spec_interceptb (pl_entries ex_plan) (ex_pkt 167838211 80 Tcp) = false.
Proof. vm_compute. repeat split; reflexivity. Qed.

(* observation: nat's LOCAL return rule is the last rule of the chain
   (nat.py:78-80) and therefore dead: a local address inside an included subnet
   IS redirected by nat, unlike nft / tproxy (outside the property, which speaks
   about non-local destinations) *)
Example c03_ex_nat_local_redirected :
  nat_verdict ex_plan (mkPkt V4 168364297 Tcp 80 true Local 1000 1000 false false) = Divert 12300 /\
  nft_verdict ex_plan (mkPkt V4 168364297 Tcp 80 true Local 1000 1000 false false) = Untouched.
Proof. vm_compute. split; reflexivity. Qed.

(* F18: UDP/53 to 2404:6800:ffff::1 — not a configured server, matching no
   entry — is diverted to the DNS listener by tproxy *)
Definition f18_pkt : pkt :=
  mkPkt V6 0x24046800ffff00000000000000000001 Udp 53 false Local 1000 1000 false false.
Theorem c03_tproxy_dns_refuted : ~ c03_tproxy_dns_full.
Proof.
  intros H. specialize (H ex_plan f18_pkt c03_ex_wf eq_refl eq_refl). vm_compute in H. discriminate.
Qed.
Print Assumptions c03_tproxy_dns_refuted.
Example c03_ex_f18 :
  f18_class ex_plan f18_pkt = true /\ ns_hit ex_plan f18_pkt = false /\
  tproxy_verdict ex_plan f18_pkt = Divert 1026 /\ nft_verdict ex_plan f18_pkt = Untouched.
Proof. vm_compute. repeat split; reflexivity. Qed.

(* the theorem c03_nft_stale_table rests on `flush chain <own chain>`: with that
   one command left out, a rule of the killed session (192.168.0.0/16 included)
   still diverts 192.168.1.1:80 although the running plan has no such entry *)
Definition ex_left : nft_left :=
  mkLeft [[NTcpAny V4; NDaddr V4 (tx "192.168.0.0") 3232235520 16; NRedirect 12300]] 1 1.
Example c03_ex_nft_flush_needed :
  nft_table_outcome_on ex_left (nft_setup_noflush ex_plan V4) (ex_pkt 3232235777 80 Tcp) = ORedirect 12300 /\
  nft_table_outcome (nft_setup_noflush ex_plan V4) (ex_pkt 3232235777 80 Tcp) = OFall 0 /\
  nft_table_outcome_on ex_left (nft_setup ex_plan V4) (ex_pkt 3232235777 80 Tcp) = OFall 0 /\
  spec_interceptb (pl_entries ex_plan) (ex_pkt 3232235777 80 Tcp) = false.
Proof. vm_compute. repeat split; reflexivity. Qed.

(* ------------------------------------------------- pf: the complete state *)
(* The anchor's rules decide only where the MAIN ruleset calls the anchor
   (Model/FwPfHook.v: rdr-anchor for the rdr rules, anchor for the pass rules,
   pf enabled).  With both calls present and pf enabled the complete state
   decides as the property demands; *)
Theorem c03_pf_state_tcp : forall os pl p ls,
  wf_plan pl -> p_proto p = Tcp -> p_src_lo p = false ->
  pf_rules os pl (p_fam p) = Some ls ->
  pf_state_verdict_of os hook_all ls p =
  (if spec_interceptb (pl_entries pl) p then Divert (port_of pl (p_fam p)) else Untouched).
Proof. exact pf_state_tcp_eq. Qed.
Print Assumptions c03_pf_state_tcp.

Theorem c03_pf_state_hooked : forall os ls p,
  pf_state_verdict_of os hook_all ls p = pf_verdict_of os ls p.
Proof. exact pf_state_hooked. Qed.
Print Assumptions c03_pf_state_hooked.

(* ... and that hypothesis is needed: without the filter `anchor` call (whatever
   the rdr-anchor call and the anchor's content), or with pf disabled, NOTHING
   is diverted — every rule set, every packet. *)
Theorem c03_pf_state_no_filter_call : forall os h ls p,
  h_pass h = false -> pf_state_verdict_of os h ls p = Untouched.
Proof. exact pf_state_no_filter_call. Qed.
Print Assumptions c03_pf_state_no_filter_call.

Theorem c03_pf_state_disabled : forall os h ls p,
  h_enabled h = false -> pf_state_verdict_of os h ls p = Untouched.
Proof. exact pf_state_disabled. Qed.
Print Assumptions c03_pf_state_disabled.

(* main ruleset holding `rdr-anchor "sshuttle-12300"` only: the included
   10.9.8.9:80 goes out unproxied; rdr-anchor missing (FreeBSD): routed to lo0
   but not translated there *)
Example c03_ex_pf_hooks :
  (forall ls, pf_rules FreeBsd ex_plan V4 = Some ls ->
     pf_state_verdict_of FreeBsd hook_all ls (ex_pkt 168364297 80 Tcp) = Divert 12300 /\
     pf_state_verdict_of FreeBsd (mkHook true true false) ls (ex_pkt 168364297 80 Tcp) = Untouched /\
     pf_state_verdict_of FreeBsd (mkHook true false true) ls (ex_pkt 168364297 80 Tcp) = Stray) /\
  spec_interceptb (pl_entries ex_plan) (ex_pkt 168364297 80 Tcp) = true.
Proof. split; [intros ls H; vm_compute in H; injection H as <-; vm_compute; repeat split; reflexivity | vm_compute; reflexivity]. Qed.
