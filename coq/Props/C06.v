(* Props/C06.v — C06: flow identifiers keep concurrent flows apart. *)
From Coq Require Import List NArith Ascii Bool Lia.
From SV Require Import Lib.Bytes Model.Wire Model.Chan Model.Stream
  Proofs.Chan_lemmas Proofs.Stream_basic Proofs.Stream_reg Proofs.Stream_fw Gen.Consts.
Import ListNotations.
Local Open Scope N_scope.

(* (1) The allocator: a returned identifier is free, never 0, within 1..MAX_CHANNEL
       and becomes the cursor; it is the FIRST free one on the cyclic walk. *)
Theorem c06_next_channel_some : forall maxc occ chani c chani',
  next_channel maxc occ chani = (Some c, chani') ->
  chani' = c /\ occ c = false /\ c <> 0 /\ 1 <= c /\ (1 <= maxc -> c <= maxc) /\
  exists k, (k < TRIES)%nat /\ c = chan_iter (S k) maxc chani /\
            forall j, (j < k)%nat -> occ (chan_iter (S j) maxc chani) = true.
Proof.
  intros maxc occ chani c chani' H.
  destruct (next_channel_loop_some _ _ _ _ _ _ H) as (A & B & C & D & E).
  repeat split; auto. lia.
Qed.
Print Assumptions c06_next_channel_some.

(* (1b) "no identifier free" is reported only when the 1024 identifiers after the
        cursor (cyclically, skipping 0) are all occupied; occupied ones are skipped. *)
Theorem c06_next_channel_none : forall maxc occ chani chani',
  next_channel maxc occ chani = (None, chani') ->
  forall j, (j < TRIES)%nat -> occ (chan_iter (S j) maxc chani) = true.
Proof. intros maxc occ chani chani' H. exact (proj2 (next_channel_loop_none _ _ _ _ _ H)). Qed.
Print Assumptions c06_next_channel_none.

Theorem c06_next_channel_finds : forall maxc occ chani k,
  (k < TRIES)%nat -> occ (chan_iter (S k) maxc chani) = false ->
  exists c, fst (next_channel maxc occ chani) = Some c.
Proof. intros. eapply next_channel_loop_finds; eassumption. Qed.
Print Assumptions c06_next_channel_finds.

(* (2) In every reachable state of the two-ended system — any sequence of
       micro-steps, any I/O outcomes, any MAX_CHANNEL incl. wrap-around — on each
       end: open flows own pairwise distinct, non-zero identifiers, and the
       channel table holds exactly the open flows. *)
Theorem c06_distinct : forall maxc lbs evs w sd,
  run (world0 maxc lbs) evs = Ok w ->
  let e := get_end w sd in
  (forall g h p q, e_prox e g = Some p -> e_prox e h = Some q ->
     closed (p_m p) = false -> closed (p_m q) = false ->
     m_chan (p_m p) = m_chan (p_m q) -> g = h) /\
  (forall g p, e_prox e g = Some p -> m_chan (p_m p) <> 0) /\
  (forall c g, x_chan (e_mux e) c = Some g <->
     exists p, e_prox e g = Some p /\ m_chan (p_m p) = c /\ closed (p_m p) = false).
Proof.
  intros maxc lbs evs w sd Hrun.
  pose proof (run_Winv evs _ _ (Winv_world0 maxc lbs) Hrun) as W.
  pose proof (run_FWinv evs _ _ (FWinv_world0 maxc lbs) Hrun) as F.
  pose proof (Winv_get w sd W) as R. cbv zeta. split; [|split].
  - intros g h p q. apply Rinv_distinct. exact R.
  - destruct F as [_ _ Fc Fs]. destruct sd; [exact Fc|exact Fs].
  - intros c g. split.
    + apply (r_reg _ R).
    + intros (p & Hp & <- & Ho). apply (r_open _ R g p Hp Ho).
Qed.
Print Assumptions c06_distinct.

(* (3) A message for an identifier that is not registered (flow already closed,
       identifier not reassigned) is discarded: nothing changes at all. *)
Theorem c06_late_dropped : forall sd e f o,
  (sf_cmd f = CData \/ sf_cmd f = CEof \/ sf_cmd f = CStop) ->
  x_chan (e_mux e) (sf_ch f) = None ->
  mux_got_packet sd e f o = Ok (e, false).
Proof.
  intros sd e f o Hc Hn. unfold mux_got_packet.
  destruct Hc as [H|[H|H]]; rewrite H, Hn; reflexivity.
Qed.
Print Assumptions c06_late_dropped.

(* (4) A message for a registered identifier reaches only the flow registered
       for it: every other flow of that end is untouched. *)
Theorem c06_only_registered : forall sd e f o e' st g,
  (sf_cmd f = CData \/ sf_cmd f = CEof \/ sf_cmd f = CStop) ->
  x_chan (e_mux e) (sf_ch f) = Some g ->
  mux_got_packet sd e f o = Ok (e', st) ->
  forall h, h <> g -> e_prox e' h = e_prox e h.
Proof.
  intros sd e f o e' st g Hc Hg. unfold mux_got_packet.
  destruct Hc as [H|[H|H]]; rewrite H, Hg;
    (destruct (e_prox e g) as [p|]; [|discriminate]);
    destruct (m_got_packet (p_m p) (e_mux e) _ (sf_data f)) as [[m' x']|cr]; try discriminate;
    intros Heq h Hh; apply ok_pair_inj in Heq; destruct Heq as [<- _];
    cbn [set_prox e_prox]; apply upd_other; exact Hh.
Qed.
Print Assumptions c06_only_registered.

(* (5) The control identifier 0 carries only PING/PONG; the constants used by
       the model are the ones in /repo (regenerated). *)
Theorem c06_consts : MAX_CHANNEL = 65535 /\ TRIES = 1024%nat.
Proof. split; reflexivity. Qed.
Print Assumptions c06_consts.

(* non-vacuity: a wrap-around history with MAX_CHANNEL = 2 reaches a state with two open flows *)
Example c06_ex_wrap :
  exists w, run (world0 2 32768) [EvAccept []; EvAccept []; EvAccept []] = Ok w /\
  e_next (w_cl w) = 2 /\ x_chan (e_mux (w_cl w)) 1 = Some 0 /\ x_chan (e_mux (w_cl w)) 2 = Some 1.
Proof. eexists. split; [reflexivity|]. vm_compute. auto. Qed.
