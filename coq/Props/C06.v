(* Props/C06.v — C06: flow identifiers keep concurrent flows apart. *)
From Coq Require Import List NArith Ascii Bool Lia.
From SV Require Import Lib.Bytes Model.Wire Model.Chan Model.Stream
  Proofs.Chan_lemmas Proofs.Stream_basic Proofs.Stream_wrap Proofs.Stream_cb Proofs.Stream_reg Proofs.Stream_fw
  Proofs.Stream_view Proofs.Stream_flow Proofs.Stream_assert Gen.Consts.
Import ListNotations.
Local Open Scope N_scope.

(* (1) The allocator: a returned identifier is free, never 0, within 1..MAX_CHANNEL
       and becomes the cursor; it is the FIRST free one on the cyclic walk. *)
Theorem c06_next_channel_some : forall maxc occ chani c chani',
  next_channel maxc occ chani = (Some c, chani') ->
  chani' = c /\ occ c = false /\ c <> 0 /\ 1 <= c /\ (1 <= maxc -> c <= maxc) /\
  exists k, (k < TRIES)%nat /\ c = chan_iter (S k) maxc chani /\
            forall j, (j < k)%nat -> occ (chan_iter (S j) maxc chani) = true.
Proof.
  intros maxc occ chani c chani' H.
  destruct (next_channel_loop_some _ _ _ _ _ _ H) as (A & B & C & D & E).
  repeat split; auto. lia.
Qed.
Print Assumptions c06_next_channel_some.

(* (1b) "no identifier free" is reported only when the 1024 identifiers after the
        cursor (cyclically, skipping 0) are all occupied; occupied ones are skipped. *)
Theorem c06_next_channel_none : forall maxc occ chani chani',
  next_channel maxc occ chani = (None, chani') ->
  forall j, (j < TRIES)%nat -> occ (chan_iter (S j) maxc chani) = true.
Proof. intros maxc occ chani chani' H. exact (proj2 (next_channel_loop_none _ _ _ _ _ H)). Qed.
Print Assumptions c06_next_channel_none.

Theorem c06_next_channel_finds : forall maxc occ chani k,
  (k < TRIES)%nat -> occ (chan_iter (S k) maxc chani) = false ->
  exists c, fst (next_channel maxc occ chani) = Some c.
Proof. intros. eapply next_channel_loop_finds; eassumption. Qed.
Print Assumptions c06_next_channel_finds.

(* (2) In every reachable state of the two-ended system — any sequence of
       micro-steps, any I/O outcomes, any MAX_CHANNEL incl. wrap-around — on each
       end: open flows own pairwise distinct, non-zero identifiers, and the
       channel table holds exactly the open flows. *)
Theorem c06_distinct : forall maxc lbs evs w sd,
  run (world0 maxc lbs) evs = Ok w ->
  let e := get_end w sd in
  (forall g h p q, e_prox e g = Some p -> e_prox e h = Some q ->
     closed (p_m p) = false -> closed (p_m q) = false ->
     m_chan (p_m p) = m_chan (p_m q) -> g = h) /\
  (forall g p, e_prox e g = Some p -> m_chan (p_m p) <> 0) /\
  (forall c g, x_chan (e_mux e) c = Some g <->
     exists p, e_prox e g = Some p /\ m_chan (p_m p) = c /\ closed (p_m p) = false).
Proof.
  intros maxc lbs evs w sd Hrun.
  pose proof (run_Winv evs _ _ (Winv_world0 maxc lbs) Hrun) as W.
  pose proof (run_FWinv evs _ _ (FWinv_world0 maxc lbs) Hrun) as F.
  pose proof (Winv_get w sd W) as R. cbv zeta. split; [|split].
  - intros g h p q. apply Rinv_distinct. exact R.
  - destruct F as [_ _ Fc Fs]. destruct sd; [exact Fc|exact Fs].
  - intros c g. split.
    + apply (r_reg _ R).
    + intros (p & Hp & <- & Ho). apply (r_open _ R g p Hp Ho).
Qed.
Print Assumptions c06_distinct.

(* (2b) Re-use across the tunnel.  The allocating side (the client) may hand an
       identifier out again as soon as ITS flow is closed, while frames of the old
       incarnation may still be travelling.  In every reachable state in which no
       frame has yet reached a wrapper of another incarnation: whenever the CONNECT
       of the new incarnation is the next frame the server will dispatch, the server
       has already freed that identifier — the peer always frees an identifier before
       it sees its re-use, so the new flow can never be confused with the old server
       end.  (And older incarnations of one end that share an identifier with a newer
       one are closed: c06_older_incarnation_closed.) *)
Theorem c06_peer_frees_first : forall maxc lbs evs w fr tl f,
  run (world0 maxc lbs) evs = Ok w -> w_stale w = false ->
  path w Client = fr :: tl -> sf_cmd fr = CConnect -> sf_fid fr = Some f ->
  x_chan (e_mux (w_sv w)) (sf_ch fr) = None.
Proof. exact run_identifier_free. Qed.
Print Assumptions c06_peer_frees_first.

Theorem c06_older_incarnation_closed : forall maxc lbs evs w sd g h p q,
  run (world0 maxc lbs) evs = Ok w -> w_stale w = false ->
  g < h -> e_prox (get_end w sd) g = Some p -> e_prox (get_end w sd) h = Some q ->
  m_chan (p_m p) = m_chan (p_m q) -> closed (p_m p) = true.
Proof.
  intros maxc lbs evs w sd g h p q Hr Hst.
  destruct (run_GSinv evs _ _ (Ginv_world0 maxc lbs) (Sinv_world0 maxc lbs) Hr Hst) as [_ S].
  destruct sd; [apply (e_hist _ (s_cl w S))|apply (e_hist _ (s_sv w S))].
Qed.
Print Assumptions c06_older_incarnation_closed.

(* non-vacuity: with MAX_CHANNEL = 1 the only identifier is re-used by the second
   flow; its CONNECT is the next frame for the server, no delivery was stale, the client
   has the identifier registered for flow 1 and the server has freed it. *)
Definition c06_io_idle := mkIO ConnDone RecvAgain SendAgain true.
Definition c06_io_eof := mkIO ConnDone RecvEof SendAgain true.
Definition c06_reuse_run : list event :=
  [EvAccept []; EvFlush Client; EvFlush Client; EvDeliver Server c06_io_idle; EvDeliver Server c06_io_idle;
   EvCallback Client 0 c06_io_eof; EvFlush Client; EvDeliver Server c06_io_idle;
   EvCallback Server 0 c06_io_eof; EvFlush Server; EvFlush Server; EvFlush Server;
   EvDeliver Client c06_io_idle; EvDeliver Client c06_io_idle; EvDeliver Client c06_io_idle;
   EvAccept []; EvFlush Client; EvFlush Client; EvDeliver Server c06_io_idle].
Example c06_ex_reuse :
  match run (world0 1 65536) c06_reuse_run with
  | Ok w => w_stale w = false /\
            map (fun f => (sf_ch f, sf_cmd f, sf_fid f)) (path w Client) = [(1, CConnect, Some 1)] /\
            x_chan (e_mux (w_cl w)) 1 = Some 1 /\ x_chan (e_mux (w_sv w)) 1 = None /\
            e_next (w_cl w) = 2 /\ e_next (w_sv w) = 1
  | Crash _ => False
  end.
Proof. vm_compute. repeat split; reflexivity. Qed.

(* (3) A message for an identifier that is not registered (flow already closed,
       identifier not reassigned) is discarded: nothing changes at all. *)
Theorem c06_late_dropped : forall sd e f o,
  (sf_cmd f = CData \/ sf_cmd f = CEof \/ sf_cmd f = CStop) ->
  x_chan (e_mux e) (sf_ch f) = None ->
  mux_got_packet sd e f o = Ok (e, false).
Proof.
  intros sd e f o Hc Hn. unfold mux_got_packet.
  destruct Hc as [H|[H|H]]; rewrite H, Hn; reflexivity.
Qed.
Print Assumptions c06_late_dropped.

(* (4) A message for a registered identifier reaches only the flow registered
       for it: every other flow of that end is untouched. *)
Theorem c06_only_registered : forall sd e f o e' st g,
  (sf_cmd f = CData \/ sf_cmd f = CEof \/ sf_cmd f = CStop) ->
  x_chan (e_mux e) (sf_ch f) = Some g ->
  mux_got_packet sd e f o = Ok (e', st) ->
  forall h, h <> g -> e_prox e' h = e_prox e h.
Proof.
  intros sd e f o e' st g Hc Hg. unfold mux_got_packet.
  destruct Hc as [H|[H|H]]; rewrite H, Hg;
    (destruct (e_prox e g) as [p|]; [|discriminate]);
    destruct (m_got_packet (p_m p) (e_mux e) _ (sf_data f)) as [[m' x']|cr]; try discriminate;
    intros Heq h Hh; apply ok_pair_inj in Heq; destruct Heq as [<- _];
    cbn [set_prox e_prox]; apply upd_other; exact Hh.
Qed.
Print Assumptions c06_only_registered.

(* (5) The control identifier 0 carries only PING/PONG; the constants used by
       the model are the ones in /repo (regenerated). *)
Theorem c06_consts : MAX_CHANNEL = 65535 /\ TRIES = 1024%nat.
Proof. split; reflexivity. Qed.
Print Assumptions c06_consts.

(* non-vacuity: a wrap-around history with MAX_CHANNEL = 2 reaches a state with two open flows *)
Example c06_ex_wrap :
  exists w, run (world0 2 32768) [EvAccept []; EvAccept []; EvAccept []] = Ok w /\
  e_next (w_cl w) = 2 /\ x_chan (e_mux (w_cl w)) 1 = Some 0 /\ x_chan (e_mux (w_cl w)) 2 = Some 1.
Proof. eexists. split; [reflexivity|]. vm_compute. auto. Qed.
