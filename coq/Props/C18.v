(* Props/C18.v — C18: the remote end runs the client's own code with the
   client's options.  Statements only; proofs are in Proofs/Assemble_lemmas.v.

   zlib is not modelled: every theorem about packaging quantifies over ALL
   compressor / decompressor pairs (any state types, any functions) and assumes
   only `sync_flush_law` for them — an explicit hypothesis of the theorem, so
   Print Assumptions stays "Closed under the global context". *)
From Coq Require Import List NArith ZArith Ascii Bool.
From SV Require Import Lib.Bytes Model.Wire Proofs.Wire_lemmas Model.Assemble Proofs.Assemble_lemmas Proofs.AssembleSync_lemmas Gen.Consts.
Import ListNotations.
Local Open Scope N_scope.

(* (1) The length line: b'%d\n' % n read back by int(stdin.readline()) gives n,
       for every n; the digits contain no newline and are never empty. *)
Theorem c18_decimal_len_roundtrip : forall n,
  parse_int_line (dec n ++ [nl]) = Some n /\ nl_free (dec n) /\ dec n <> [].
Proof.
  intros n. split; [apply parse_int_line_dec|]. split; [|apply dec_nonnil].
  eapply Forall_impl; [|apply dec_digits]. intros a; apply is_digit_not_nl.
Qed.
Print Assumptions c18_decimal_len_roundtrip.

(* (2) Segmentation: whatever the cutting of the server's stdin into raw reads,
       the bootstrap one-liner plus assembler.py (on the BufferedReader) behave
       as a function of the byte stream alone — same assembler text, same
       modules, same exception if any, same unread remainder. *)
Theorem c18_segmentation :
  forall (dstate : Type) (decompress : dstate -> bytes -> dstate * bytes) pre d0 n chunks,
  (fst (remote_run dstate decompress pre d0 n chunks),
   map_left stream_of (snd (remote_run dstate decompress pre d0 n chunks)))
  = remote_spec dstate decompress pre d0 n (concat chunks).
Proof. exact remote_run_spec. Qed.
Print Assumptions c18_segmentation.

Corollary c18_cut_independent :
  forall (dstate : Type) (decompress : dstate -> bytes -> dstate * bytes) pre d0 n c1 c2,
  concat c1 = concat c2 ->
  fst (remote_run dstate decompress pre d0 n c1) = fst (remote_run dstate decompress pre d0 n c2) /\
  map_left stream_of (snd (remote_run dstate decompress pre d0 n c1)) =
  map_left stream_of (snd (remote_run dstate decompress pre d0 n c2)).
Proof.
  intros dstate decompress pre d0 n c1 c2 H.
  pose proof (remote_run_spec dstate decompress pre d0 n c1) as H1.
  pose proof (remote_run_spec dstate decompress pre d0 n c2) as H2.
  rewrite H, <- H2 in H1. injection H1 as E1 E2. split; assumption.
Qed.
Print Assumptions c18_cut_independent.

(* (2b) the loop's fuel (one unit per byte of input) is never exhausted *)
Theorem c18_loop_terminates :
  forall (dstate : Type) (decompress : dstate -> bytes -> dstate * bytes) pre d0 n chunks,
  snd (remote_run dstate decompress pre d0 n chunks) <> AsmFuel.
Proof. exact remote_run_no_fuel. Qed.
Print Assumptions c18_loop_terminates.

(* (3) c18_modules.  For ALL lists of (name, data argument) given to empackage —
       names ASCII, newline-free, non-blank and unchanged by strip(), parents
       before children; data of ANY size and content, an empty/None data falling
       back to get_module_source(name), itself of any size including empty —
       for ALL assembler texts, ALL bytes following the upload, ALL cuttings of
       the stream into reads, and ALL codecs obeying the sync-flush law:
       the one-liner reads exactly the assembler; the assembler registers
       exactly the packaged modules, in order, byte for byte; the loop stops at
       the terminating empty name, and stdin is left exactly at `rest`. *)
Theorem c18_modules :
  forall (zstate dstate : Type)
         (compress : zstate -> bytes -> zstate * bytes)
         (flush_sync : zstate -> zstate * bytes)
         (decompress : dstate -> bytes -> dstate * bytes)
         (insync : zstate -> dstate -> Prop),
  sync_flush_law zstate dstate compress flush_sync decompress insync ->
  forall (get_src : bytes -> bytes) pre z0 d0 mods asm rest chunks,
  insync z0 d0 ->
  Forall name_ok (map fst mods) ->
  parents_ok pre (map fst mods) ->
  concat chunks = asm ++ package_all zstate compress flush_sync get_src z0 mods ++ nl :: rest ->
  exists left,
    remote_run dstate decompress pre d0 (lenN asm) chunks
    = (asm, AsmDone (map (effective get_src) mods) left)
    /\ stream_of left = rest.
Proof. exact remote_run_upload. Qed.
Print Assumptions c18_modules.

(* (4) c18_options.  Rendering "%s=%r\n" lines and executing them gives the same
       (key, value) list back, for all identifiers as keys and all values among
       bool / int (any size, any sign) / None / strings of printable ASCII
       without ' and \ (what to_nameserver can be). *)
Theorem c18_options : forall opts,
  Forall (fun kv => opt_ok kv = true) opts ->
  eval_options (render_options opts) = Some opts.
Proof. exact eval_render_options. Qed.
Print Assumptions c18_options.

(* (5) ssh.connect's own upload (six modules, options module second) fed to the
       real bootstrap: the remote module table is the client's sources with the
       rendered options in place. *)
Theorem c18_connect :
  forall (zstate dstate : Type)
         (compress : zstate -> bytes -> zstate * bytes)
         (flush_sync : zstate -> zstate * bytes)
         (decompress : dstate -> bytes -> dstate * bytes)
         (insync : zstate -> dstate -> Prop),
  sync_flush_law zstate dstate compress flush_sync decompress insync ->
  forall (get_src : bytes -> bytes) pre z0 d0 opts chunks rest,
  insync z0 d0 -> opts <> [] ->
  concat chunks = fst (connect_upload zstate compress flush_sync get_src z0 opts)
                  ++ snd (connect_upload zstate compress flush_sync get_src z0 opts) ++ rest ->
  exists left,
    remote_run dstate decompress pre d0 (boot_read_len get_src) chunks
    = (get_src n_assembler, AsmDone (connect_sources get_src opts) left)
    /\ stream_of left = rest.
Proof. exact connect_assembles. Qed.
Print Assumptions c18_connect.

(* (6) c18_nothing_before_sync.  In every start-up trace of the client (every
       server output and delivery cutting, every poll() result, seed hosts or
       not, whatever the first write accepts): the bytes written on the pipe
       before the sync string is verified are exactly the two uploads;
       SyncOk is only reached when the stream really carries the sync string and
       the server is alive; anything written afterwards is a prefix of the
       multiplexer's first frame. *)
Theorem c18_nothing_before_sync : forall content content2 e,
  writes_before_sync (client_startup content content2 e) = [content; content2] /\
  (In CSyncOk (client_startup content content2 e) -> Forall nonempty (ce_server e) ->
     ce_poll e = None /\ fst (hs_spec client_sync (concat (ce_server e))) = true) /\
  (writes_after_sync (client_startup content content2 e) = [] \/
   exists k, writes_after_sync (client_startup content content2 e) = [takeN k ping_frame]).
Proof.
  intros c1 c2 e. split; [apply writes_before_sync_startup|].
  split; [apply sync_ok_verified | apply writes_after_sync_startup].
Qed.
Print Assumptions c18_nothing_before_sync.

(* (7) c18_server_sync_first.  Whatever the options, the first bytes the server
       puts on stdout are the sync string (regenerated from server.py), and the
       client's handshake accepts exactly that, leaving the rest to the mux. *)
Theorem c18_server_sync_first : forall lbs later,
  stdout_of (server_main_start lbs ++ later) = server_sync ++ stdout_of later /\
  hs_spec client_sync (stdout_of (server_main_start lbs ++ later)) = (true, stdout_of later).
Proof.
  intros lbs later. rewrite server_stdout_sync_first. split; reflexivity.
Qed.
Print Assumptions c18_server_sync_first.

(* (7b) c18_connected_iff_announced.  "... until the server has announced itself, so both
       ends always speak the same protocol version": the client goes on past its
       announcement check ("Connected to server.") EXACTLY when ssh is alive and the
       12 bytes that follow the second NUL of the server's output are the announcement
       the client expects — for every output, every delivery cutting, seed hosts or not.
       (6) has the "only if" half; this adds the "if" half and spells out the
       stream-level meaning of hs_spec. *)
Theorem c18_connected_iff_announced : forall content content2 e,
  Forall nonempty (ce_server e) ->
  (In CSyncOk (client_startup content content2 e) <->
   (ce_poll e = None /\
    takeN (lenN client_sync) (after_nul (after_nul (concat (ce_server e)))) = client_sync)).
Proof.
  intros c1 c2 e HF. rewrite (sync_ok_exactly c1 c2 e HF), hs_spec_exact. reflexivity.
Qed.
Print Assumptions c18_connected_iff_announced.

(* (7c) c18_short_announcement_refused.  A server output that ENDS before the 12 bytes of
       the announcement are complete (a proper prefix of it — "SSHUTTLE", "S" —, nothing
       after the two NULs, no second NUL, nothing at all) never gets the client past the
       check, whatever the state of the ssh process. *)
Theorem c18_short_announcement_refused : forall content content2 e,
  Forall nonempty (ce_server e) ->
  lenN (after_nul (after_nul (concat (ce_server e)))) < lenN client_sync ->
  ~ In CSyncOk (client_startup content content2 e).
Proof. intros c1 c2 e. apply sync_short_refused. Qed.
Print Assumptions c18_short_announcement_refused.

Example c18_ex_short_announcement :
  (* the hypothesis of (7c) is satisfiable and its conclusion is not vacuous: the same
     stream completed by its last byte is accepted *)
  let e s := mkCenv [s] None None None in
  let cut := [NUL; NUL] ++ takeN 11 client_sync in
  (lenN (after_nul (after_nul cut)) <? lenN client_sync) = true /\
  existsb (fun ev => match ev with CSyncOk => true | _ => false end)
          (client_startup [] [] (e cut)) = false /\
  existsb (fun ev => match ev with CSyncOk => true | _ => false end)
          (client_startup [] [] (e ([NUL; NUL] ++ client_sync))) = true.
Proof. vm_compute. repeat split. Qed.

(* (8) End to end: what the client has written when it starts waiting for the
       sync string, cut arbitrarily, makes the remote interpreter hold the
       client's module sources and option values — and nothing of it is left
       unread, so the server's raw reads on fd 0 start exactly at the first
       multiplexer byte. *)
Theorem c18_end_to_end :
  forall (zstate dstate : Type)
         (compress : zstate -> bytes -> zstate * bytes)
         (flush_sync : zstate -> zstate * bytes)
         (decompress : dstate -> bytes -> dstate * bytes)
         (insync : zstate -> dstate -> Prop),
  sync_flush_law zstate dstate compress flush_sync decompress insync ->
  forall (get_src : bytes -> bytes) pre z0 d0 opts e chunks,
  insync z0 d0 -> opts <> [] -> Forall (fun kv => opt_ok kv = true) opts ->
  let up := connect_upload zstate compress flush_sync get_src z0 opts in
  concat chunks = concat (writes_before_sync (client_startup (fst up) (snd up) e)) ->
  exists left,
    remote_run dstate decompress pre d0 (boot_read_len get_src) chunks
    = (get_src n_assembler, AsmDone (connect_sources get_src opts) left)
    /\ stream_of left = []
    /\ remote_options (connect_sources get_src opts) = Some opts.
Proof.
  intros zstate dstate compress flush_sync decompress insync law get_src pre z0 d0 opts e chunks
         Hin Hne Hok up Hc.
  rewrite writes_before_sync_startup in Hc. cbn [concat] in Hc. rewrite app_nil_r in Hc.
  destruct (connect_assembles zstate dstate compress flush_sync decompress insync law get_src
              pre z0 d0 opts chunks [] Hin Hne) as (left & H1 & H2).
  - rewrite app_nil_r. exact Hc.
  - exists left. split; [exact H1|]. split; [exact H2|].
    rewrite remote_options_connect. apply eval_render_options. exact Hok.
Qed.
Print Assumptions c18_end_to_end.

(* ------------------------------------------------------------------ *)
(* Non-vacuity.  The zlib hypothesis is satisfiable — by the trivial codec and
   by one whose decompressor depends on the shared stream position. *)
Example c18_ex_law_identity :
  sync_flush_law unit unit (fun _ x => (tt, x)) (fun _ => (tt, [])) (fun _ c => (tt, c)) (fun _ _ => True).
Proof. exact identity_law. Qed.

Example c18_ex_law_stateful :
  sync_flush_law N N stub_compress stub_flush stub_decompress stub_insync /\ stub_insync 0 0.
Proof. split; [exact stub_law | reflexivity]. Qed.

(* a concrete upload: three modules (one empty, one via the get_module_source
   fall-back, a child after its parent), trailing bytes, cut into odd pieces *)
Example c18_ex_run :
  let src := fun n : bytes => if bytes_eqb n ["p"]%char then ["x"; "="; "1"; nl]%char else [] in
  let mods := [ (["p"]%char, []); (["p"; "."; "c"]%char, ["#"]%char); (["e"]%char, []) ] in
  let up := ["A"; "S"; "M"]%char ++ stub_package [(["p"]%char, ["x"; "="; "1"; nl]%char)] mods ++ [nl] ++ ["z"]%char in
  Forall name_ok (map fst mods) /\ parents_ok [] (map fst mods) /\
  exists left,
    stub_remote_run [] 3 [firstn 5 up; firstn 1 (skipn 5 up); skipn 6 up]
    = (["A"; "S"; "M"]%char,
       AsmDone [ (["p"]%char, ["x"; "="; "1"; nl]%char); (["p"; "."; "c"]%char, ["#"]%char); (["e"]%char, []) ] left)
    /\ stream_of left = ["z"]%char.
Proof.
  cbv zeta. split.
  - repeat (apply Forall_cons; [split; [reflexivity | split; [discriminate | split; [repeat constructor | reflexivity]]]|]).
    apply Forall_nil.
  - split; [repeat split; reflexivity|]. eexists. split; vm_compute; reflexivity.
Qed.

Example c18_ex_options :
  let opts := [ (["l"; "c"]%char, PvBool true); (["n"]%char, PvInt (-32768)); (["t"]%char, PvNone);
                (["n"; "s"]%char, PvStr [":"; ":"; "1"; "@"; "5"; "3"]%char) ] in
  Forall (fun kv => opt_ok kv = true) opts /\ eval_options (render_options opts) = Some opts.
Proof. cbv zeta. split; [repeat constructor | vm_compute; reflexivity]. Qed.

(* the name hypothesis is needed: a name that strip() changes is registered
   under a different name on the remote side *)
Example c18_ex_name_hypothesis_needed :
  exists name, ~ name_ok name /\
    snd (stub_remote_run [] 0 [stub_package [] [(name, ["#"]%char)] ++ [nl]])
    <> AsmDone [(name, ["#"]%char)] (mkReader [] []).
Proof.
  exists [" "; "m"]%char. split.
  - intros (H & _). vm_compute in H. discriminate.
  - vm_compute. discriminate.
Qed.

Example c18_ex_client_trace :
  let e := mkCenv [[zero; zero]; firstn 5 client_sync; skipn 5 client_sync] None None (Some 4) in
  client_startup ["a"]%char ["b"]%char e
  = [CWrite ["a"]%char; CWrite ["b"]%char; CQueue ping_frame; CSyncOk; CWrite (firstn 4 ping_frame)].
Proof. vm_compute. reflexivity. Qed.

(* ------------------------------------------------------------------ *)
(* The remote command line (-r given): ssh.py:115-189.  What ssh carries to the
   remote host is ONE string; the remote login shell splits it into words again.
   For every verbosity and every assembler length the words the shell sees are
   the interpreter, -c, and the bootstrap program — the same program text the
   local start (no -r) passes to sys.executable directly. *)
From Coq Require String.
From SV Require Import Model.ShQuote Proofs.ShQuote_lemmas.
Import String.StringSyntax.
Delimit Scope string_scope with string.
Local Notation Bs x := (bytes_of_string x%string) (only parsing).

(* (9) shlex.quote, read back by a POSIX shell, is one word: the string itself —
       for EVERY byte string (empty, blanks, quotes of both kinds, backslashes,
       dollar signs, newlines, non-ASCII bytes). *)
Theorem c18_quote_one_word : forall s, sh_words (sh_quote s) = Some [s].
Proof. exact quote_one_word. Qed.
Print Assumptions c18_quote_one_word.

(* (10) default (posix shell, no --python): the login shell sees /bin/sh -c INNER;
        INNER is the candidate test followed by the exec of the chosen interpreter
        with -c and ONE quoted word that a shell reads back as the bootstrap program. *)
Theorem c18_remote_command_posix : forall v n,
  sh_words (pycmd KSh [] v n) =
    Some [Bs "/bin/sh"; Bs "-c"; sh_inner (pyscript v n)] /\
  sh_inner (pyscript v n) =
    Bs "P=python3; $P -V 2>/dev/null || P=python; exec ""$P"" -c "
    ++ sh_quote (pyscript v n) ++ Bs "; exit 97" /\
  sh_words (sh_quote (pyscript v n)) = Some [pyscript v n].
Proof.
  intros v n. split; [exact (pycmd_sh_words (pyscript v n))|].
  split; [reflexivity | apply quote_one_word].
Qed.
Print Assumptions c18_remote_command_posix.

(* (11) --python given (posix shell): the words are that interpreter, -c, the program —
        for every interpreter name/path made of characters that are literal between
        double quotes (blanks included). *)
Theorem c18_remote_command_python : forall python v n,
  dq_plain python = true ->
  sh_words (pycmd KPy python v n) = Some [python; Bs "-c"; pyscript v n].
Proof. intros python v n Hp. apply pycmd_py_words; [exact Hp | apply pyscript_dq_plain]. Qed.
Print Assumptions c18_remote_command_python.

(* (12) --remote-shell powershell: after backtick removal the words are the
        interpreter (python by default), -c, the program; no character PowerShell
        would interpret is left unescaped (ps_words would answer None). *)
Theorem c18_remote_command_powershell : forall python v n,
  forallb ps_bare_char (or_python python) = true ->
  ps_words (pycmd KPs python v n) = Some [or_python python; Bs "-c"; pyscript v n].
Proof. exact pycmd_ps_words. Qed.
Print Assumptions c18_remote_command_powershell.

(* the program text is the one the local start uses: it reads exactly `n` bytes *)
Example c18_ex_pyscript :
  pyscript 2 1234 = Bs
    "import sys, os; verbosity=2; stdin = os.fdopen(0, 'rb'); exec(compile(stdin.read(1234), 'assembler.py', 'exec')); sys.exit(98);".
Proof. vm_compute. reflexivity. Qed.

Example c18_ex_quote :
  sh_quote (Bs "it's a ""test"" $x") = Bs "'it'""'""'s a ""test"" $x'" /\
  sh_quote (Bs "/usr/bin/python3") = Bs "/usr/bin/python3" /\
  sh_quote [] = Bs "''".
Proof. vm_compute. repeat split; reflexivity. Qed.

(* the reader is not trivially permissive: an unquoted program text is NOT one word *)
Example c18_ex_unquoted_is_not_one_word :
  sh_words (Bs "exec python -c " ++ pyscript 0 10) = None /\
  sh_words (Bs "a 'b c' ""d e""\ f") = Some [Bs "a"; Bs "b c"; Bs "d e f"].
Proof. vm_compute. split; reflexivity. Qed.
