(* Props/C16.v — C16: subnet, listen and remote arguments mean what the manual
   says.  Statements only; every proof is `exact <lemma>` (or a few lines of
   glue) into Proofs/Args_lemmas.v, followed by Print Assumptions.
   `rs` is the resolver for NAMES (socket.getaddrinfo's table); numeric hosts
   are read by the modelled libc readers.  Text is ASCII. *)
From Coq Require Import List NArith Ascii Bool.
From Coq Require String.
From SV Require Import Lib.Bytes Model.Args Proofs.Args_lemmas.
Import ListNotations.
Import String.StringSyntax.
Delimit Scope string_scope with string.
Local Open Scope char_scope.
Local Open Scope N_scope.

(* (1) Totality: for EVERY text and every resolver, what the command-line user
       gets from a subnet argument (positional, -x) or from --to-ns is a value
       or a usage error — the readers raise only ArgumentTypeError, UnicodeError
       or ValueError, which argparse reports as usage errors.  Also for the
       code as found. *)
Theorem c16_total : forall rs s,
  ((exists v, argparse_type (parse_subnetport rs s) = OOk v) \/
   argparse_type (parse_subnetport rs s) = OUsage) /\
  ((exists v, argparse_type (parse_subnetport_asfound rs s) = OOk v) \/
   argparse_type (parse_subnetport_asfound rs s) = OUsage) /\
  ((exists v, argparse_type (parse_ipport rs s) = OOk v) \/
   argparse_type (parse_ipport rs s) = OUsage).
Proof. intros rs s. repeat split; apply argparse_type_total. Qed.
Print Assumptions c16_total.

(* (1b) parse_hostport is not an argparse type: it returns a tuple or raises
        ValueError, nothing else. *)
Theorem c16_hostport_total : forall s,
  (exists v, parse_hostport s = Ok v) \/ parse_hostport s = Raise EValue.
Proof.
  intros s. destruct (parse_hostport s) as [v|e] eqn:E; [left; exists v; reflexivity|right].
  rewrite (parse_hostport_exn s e E). reflexivity.
Qed.
Print Assumptions c16_hostport_total.

(* (2) Round trip, IPv4 / name form  host[/width][:port[-port]]:
       for every host over [\w.-]+ (optionally *.-prefixed), every width and
       port text made of digits, the regular expression returns exactly the
       pieces that were put in ... *)
Theorem c16_subnet_groups_v4form : forall sp,
  host4_ok (sp_host sp) = true -> spec_ok sp = true ->
  subnet_groups (render4 sp) = Some (sp_host sp, sp_width sp, spec_fport sp, spec_lport sp).
Proof. intros sp. exact (groups4_render rx6 sp). Qed.
Print Assumptions c16_subnet_groups_v4form.

(* ... and the call returns the resolver's address, the given width or else the
   family maximum, the given port range (lport = fport for a single port). *)
Theorem c16_subnet_roundtrip : forall rs sp fam addr,
  host4_ok (sp_host sp) = true -> spec_ok sp = true -> spec_short sp = true ->
  getaddrinfo rs (sp_host sp) = Ok [(fam, addr)] ->
  (match sp_width sp with None => True | Some d => dec_val d <= max_width fam end) ->
  parse_subnetport rs (render4 sp) =
  Ok [(fam, addr, spec_width_val fam sp, spec_fport_val sp, spec_lport_val sp)].
Proof. exact subnet_roundtrip4. Qed.
Print Assumptions c16_subnet_roundtrip.

(* (2') IPv6 form  x:y::z[/width]  and, with a port,  [x:y::z[/width]]:port[-port]
        for every host over [\w:.]+ with at least two ':' (this includes a dotted
        IPv4 tail, see F23 below). *)
Theorem c16_subnet_roundtrip_v6 : forall rs sp fam addr,
  host6_ok (sp_host sp) = true -> spec_ok sp = true -> spec_short sp = true ->
  getaddrinfo rs (sp_host sp) = Ok [(fam, addr)] ->
  (match sp_width sp with None => True | Some d => dec_val d <= max_width fam end) ->
  parse_subnetport rs (render6 sp) =
  Ok [(fam, addr, spec_width_val fam sp, spec_fport_val sp, spec_lport_val sp)].
Proof. exact subnet_roundtrip6. Qed.
Print Assumptions c16_subnet_roundtrip_v6.

(* (2'') a numeric IPv4 host in ANY numbers-and-dots spelling: canonical dotted
         quad of its value, family AF_INET, width/ports as given. *)
Theorem c16_subnet_roundtrip_numeric_v4 : forall rs sp v,
  host4_ok (sp_host sp) = true -> spec_ok sp = true -> spec_short sp = true ->
  inet_aton (sp_host sp) = Some v -> idna_labels_ok (split_on "." (sp_host sp)) = true ->
  (match sp_width sp with None => True | Some d => dec_val d <= 32 end) ->
  parse_subnetport rs (render4 sp) =
  Ok [(AF_INET, print_v4 v, spec_width_val AF_INET sp, spec_fport_val sp, spec_lport_val sp)].
Proof.
  intros rs sp v Hh Hok Hs Ha Hi Hw.
  exact (subnet_roundtrip4 rs sp AF_INET (print_v4 v) Hh Hok Hs (getaddrinfo_v4 rs _ v Ha Hi) Hw).
Qed.
Print Assumptions c16_subnet_roundtrip_numeric_v4.

(* (3) A width beyond the family's range is a usage error (whatever else the
       text contains), for either regular expression and for the code as found. *)
Theorem c16_width_range : forall rs s host d fp lp a t,
  subnet_groups s = Some (host, Some d, fp, lp) ->
  getaddrinfo rs host = Ok (a :: t) ->
  max_width (fst a) < dec_val d ->
  argparse_type (parse_subnetport rs s) = OUsage.
Proof. intros rs s. exact (width_range_gen rx6 rs s). Qed.
Print Assumptions c16_width_range.

Corollary c16_width_range_rendered : forall rs sp fam addr d,
  host4_ok (sp_host sp) = true -> spec_ok sp = true ->
  sp_width sp = Some d ->
  getaddrinfo rs (sp_host sp) = Ok [(fam, addr)] ->
  max_width fam < dec_val d ->
  argparse_type (parse_subnetport rs (render4 sp)) = OUsage.
Proof.
  intros rs sp fam addr d Hh Hok Hw Ha Hd.
  pose proof (groups4_render rx6 sp Hh Hok) as Hg. rewrite Hw in Hg.
  exact (width_range_gen rx6 rs _ _ d _ _ (fam, addr) [] Hg Ha Hd).
Qed.
Print Assumptions c16_width_range_rendered.

(* (4) Canonical IPv4: every text the numbers-and-dots reader accepts resolves
       to the dotted quad of its 32-bit value, and that dotted quad is itself
       read back as the same value by the liberal reader, by the strict reader
       (inet_pton / ipaddress) and by the resolver (fixed point). *)
Theorem c16_canonical_v4 : forall rs s v,
  inet_aton s = Some v -> idna_labels_ok (split_on "." s) = true ->
  getaddrinfo rs s = Ok [(AF_INET, print_v4 v)] /\
  v < 4294967296 /\
  inet_aton (print_v4 v) = Some v /\
  parse_v4_strict (print_v4 v) = Some v /\
  getaddrinfo rs (print_v4 v) = Ok [(AF_INET, print_v4 v)].
Proof.
  intros rs s v Ha Hi. pose proof (inet_aton_range s v Ha) as Hv.
  split; [exact (getaddrinfo_v4 rs s v Ha Hi)|]. split; [exact Hv|].
  split; [exact (inet_aton_print_v4 v Hv)|]. split; [exact (parse_v4_strict_print_v4 v Hv)|].
  exact (getaddrinfo_print_v4 rs v Hv).
Qed.
Print Assumptions c16_canonical_v4.

(* (4') ... and the reader's value IS the value of the spelling: 1 to 4 parts,
        each written in decimal, 0x/0X hexadecimal or 0-octal (any digit
        strings, any case, leading zeros), the last part filling the rest. *)
Theorem c16_v4_spellings : forall ps,
  Forall (fun p => part_ok p = true) ps ->
  inet_aton (spelling_text ps) = spelling_val ps.
Proof. exact inet_aton_spelling. Qed.
Print Assumptions c16_v4_spellings.

(* (4'') Canonical IPv6: for ARBITRARY eight 16-bit words, the text written by
         glibc inet_ntop (what getaddrinfo returns: longest zero run as "::",
         dotted tail for ::a.b.c.d and ::ffff:a.b.c.d) and the text written by
         Python's ipaddress (RFC 5952, no dotted tail) are both read back as
         exactly those words by the reader (inet_pton / ipaddress). *)
Theorem c16_canonical_v6_full : forall ws,
  length ws = 8%nat -> Forall (fun w => w < 65536) ws ->
  parse_v6 (print_v6 true ws) = Some ws /\ parse_v6 (print_v6 false ws) = Some ws.
Proof. exact v6_print_parse_full. Qed.
Print Assumptions c16_canonical_v6_full.

(* (4c) The reader's range, for EVERY text: what it accepts is eight words
        below 65536 (so the theorems above apply to whatever it read) ... *)
Theorem c16_v6_reader_range : forall s ws,
  parse_v6 s = Some ws -> length ws = 8%nat /\ Forall (fun w => w < 65536) ws.
Proof. exact parse_v6_range. Qed.
Print Assumptions c16_v6_reader_range.

(* ... and Python's ipaddress maps either canonical text to Python's canonical
   text of the same words: the address returned by getaddrinfo and the host
   returned by parse_hostport denote the same address. *)
Theorem c16_canonical_v6_python : forall e ws,
  length ws = 8%nat -> Forall (fun w => w < 65536) ws ->
  py_ip_str (print_v6 e ws) = Some (print_v6 false ws).
Proof.
  intros e ws Hl Hw. apply py_ip_str_v6_any.
  destruct e; [exact (proj1 (v6_print_parse_full ws Hl Hw))|exact (proj2 (v6_print_parse_full ws Hl Hw))].
Qed.
Print Assumptions c16_canonical_v6_python.

(* (4d) Canonical IPv6, as (4) for IPv4: every text the IPv6 reader accepts
        (it always passes the idna codec: at most ten short fields) resolves to glibc's canonical text of the eight words it denotes; that
        text is read back as the same words, is mapped by Python's ipaddress to
        Python's canonical text of the same words, and is a fixed point of the
        resolver. *)
Theorem c16_canonical_v6 : forall rs s ws,
  parse_v6 s = Some ws ->
  getaddrinfo rs s = Ok [(AF_INET6, print_v6 true ws)] /\
  length ws = 8%nat /\ Forall (fun w => w < 65536) ws /\
  parse_v6 (print_v6 true ws) = Some ws /\
  py_ip_str (print_v6 true ws) = Some (print_v6 false ws) /\
  getaddrinfo rs (print_v6 true ws) = Ok [(AF_INET6, print_v6 true ws)].
Proof. intros rs s ws. exact (v6_canonical_literal s ws rs). Qed.
Print Assumptions c16_canonical_v6.

(* (2''') a numeric IPv6 host in ANY spelling the reader accepts (compressed or
          not, leading zeros, upper case, dotted tail — such a text is always
          in the class [\w:.]+ with two ':'): glibc's canonical text of its
          value, family AF_INET6, width/ports as given. *)
Theorem c16_subnet_roundtrip_numeric_v6 : forall rs sp ws,
  spec_ok sp = true -> spec_short sp = true ->
  parse_v6 (sp_host sp) = Some ws ->
  (match sp_width sp with None => True | Some d => dec_val d <= 128 end) ->
  parse_subnetport rs (render6 sp) =
  Ok [(AF_INET6, print_v6 true ws, spec_width_val AF_INET6 sp, spec_fport_val sp, spec_lport_val sp)].
Proof. exact subnet_roundtrip_numeric6. Qed.
Print Assumptions c16_subnet_roundtrip_numeric_v6.

(* (5) Listen / --to-ns specifications. *)
Theorem c16_ipport : forall rs h p fam addr,
  name4_ok h = true -> digits_ok p = true -> short p = true -> dec_val p <= 65535 ->
  getaddrinfo rs h = Ok [(fam, addr)] ->
  parse_ipport rs (h ++ ":" :: p) = Ok (fam, addr, dec_val p).
Proof.
  intros rs h p fam addr Hh Hp Hs Hv Ha.
  exact (parse_ipport_single rs _ h (Some p) fam addr (ipport_groups_plain h p Hh Hp)
           (proj1 (name4_inv h Hh)) (conj Hs Hv) Ha).
Qed.
Print Assumptions c16_ipport.

Theorem c16_ipport_host_only : forall rs h fam addr,
  name4_ok h = true -> forallb is_digit h = false ->
  getaddrinfo rs h = Ok [(fam, addr)] ->
  parse_ipport rs h = Ok (fam, addr, 0).
Proof.
  intros rs h fam addr Hh Hd Ha.
  exact (parse_ipport_single rs _ h None fam addr (ipport_groups_host h Hh Hd)
           (proj1 (name4_inv h Hh)) I Ha).
Qed.
Print Assumptions c16_ipport_host_only.

Theorem c16_ipport_port_only : forall rs p,
  digits_ok p = true -> short p = true -> dec_val p <= 65535 ->
  parse_ipport rs p = Ok (AF_INET, ANY4, dec_val p).
Proof. exact parse_ipport_portonly. Qed.
Print Assumptions c16_ipport_port_only.

(* [host]:port and [host] — any bracketed text without ']' (IPv6 literals) *)
Theorem c16_ipport_bracket : forall rs h p fam addr,
  nonempty h = true -> lacks "]" h = true ->
  match p with Some d => digits_ok d = true /\ short d = true /\ dec_val d <= 65535 | None => True end ->
  getaddrinfo rs h = Ok [(fam, addr)] ->
  parse_ipport rs ("[" :: h ++ "]" :: match p with Some d => ":" :: d | None => [] end) =
  Ok (fam, addr, match p with Some d => dec_val d | None => 0 end).
Proof.
  intros rs h p fam addr Hn Hl Hp Ha.
  refine (parse_ipport_single rs _ h p fam addr (ipport_groups_bracket h p Hn Hl _) Hn _ Ha).
  - destruct p as [d|]; [exact (proj1 Hp)|reflexivity].
  - destruct p as [d|]; [exact (proj2 Hp)|exact I].
Qed.
Print Assumptions c16_ipport_bracket.

(* (5b) The whole --listen text (cmdline.py:82-97): comma separated elements,
        each read by parse_ipport; what client.main receives as its IPv6 /
        IPv4 listen address is the LAST element of that family (None when
        the text has none) - whatever --disable-ipv6 says (d). *)
Theorem c16_listen_dispatch : forall rs items xs d,
  items <> [] -> Forall (fun a => lacks "," a = true) items ->
  Forall2 (fun s x => parse_ipport rs s = Ok x) items xs ->
  listen_dispatch rs (Some (join [","] items)) d =
  Ok (last_slot is_fam6 xs LNone, last_slot (fun x => negb (is_fam6 x)) xs LNone).
Proof. exact listen_dispatch_last. Qed.
Print Assumptions c16_listen_dispatch.

(* ... and, with no hypothesis on the elements: a listen address handed to
   client.main is an element of the text read by parse_ipport, of the slot's
   own family - never an address of the other family, never "auto". *)
Theorem c16_listen_family : forall rs s d r6 r4,
  nonempty s = true ->
  listen_dispatch rs (Some s) d = Ok (r6, r4) ->
  slot_from rs (split_on "," s) true r6 /\ slot_from rs (split_on "," s) false r4.
Proof. exact listen_dispatch_family. Qed.
Print Assumptions c16_listen_family.

(* without --listen: IPv4 "auto"; IPv6 "auto" unless --disable-ipv6 *)
Theorem c16_listen_absent : forall rs d,
  listen_dispatch rs None d = Ok (if d then LNone else LAuto, LAuto).
Proof. exact listen_dispatch_absent. Qed.
Print Assumptions c16_listen_absent.

(* (6) Remote specification [user[:password]@]host: the user is everything
       before the first ':' (it may contain '@'), the password everything
       between that ':' and the LAST '@' (it may contain ':' and '@'; empty
       means none), and the rest is read as host[:port]. *)
Theorem c16_hostport : forall u pw hp,
  lacks ":" u = true -> lacks "@" hp = true ->
  parse_hostport (u ++ ":" :: pw ++ "@" :: hp) =
  with_user (Some u) (if nonempty pw then Some pw else None) (host_part hp).
Proof. exact hostport_user_pass. Qed.
Print Assumptions c16_hostport.

Theorem c16_hostport_user_only : forall u hp,
  lacks ":" u = true -> lacks "@" hp = true ->
  parse_hostport (u ++ "@" :: hp) = with_user (Some u) None (host_part hp).
Proof. exact hostport_user. Qed.
Print Assumptions c16_hostport_user_only.

Theorem c16_hostport_no_user : forall hp,
  nonempty hp = true -> lacks "@" hp = true ->
  parse_hostport hp = with_user None None (host_part hp).
Proof. exact hostport_nouser. Qed.
Print Assumptions c16_hostport_no_user.

(* a host without ':' is returned verbatim, no port *)
Theorem c16_hostport_host : forall h, lacks ":" h = true -> host_part h = Ok (None, Some h).
Proof. exact host_part_plain. Qed.
Print Assumptions c16_hostport_host.

(* host:port, through parse_hostport's ipaddress / urlparse route: for every
   host over [\w.-]+ and every port 0..65535 written in digits, the port is
   the number and the host is the text lower-cased (observation, DNS names are
   case-insensitive), or the canonical dotted quad if that text is one. *)
Theorem c16_hostport_port : forall h p,
  name4_ok h = true -> digits_ok p = true -> short p = true -> dec_val p <= 65535 ->
  host_part (h ++ ":" :: p) =
  Ok (Some (dec_val p),
      Some (match py_ip_str (map to_lower h) with Some c => c | None => map to_lower h end)).
Proof. exact host_part_name_port. Qed.
Print Assumptions c16_hostport_port.

(* the statement as first written (with a premise that turned out unnecessary) *)
Corollary c16_hostport_port_full : forall h p,
  name4_ok h = true -> lacks "_" h = true -> digits_ok p = true -> short p = true -> dec_val p <= 65535 ->
  host_part (h ++ ":" :: p) =
  Ok (Some (dec_val p),
      Some (match py_ip_str (map to_lower h) with Some c => c | None => map to_lower h end)).
Proof. intros h p Hh _. exact (host_part_name_port h p Hh). Qed.
Print Assumptions c16_hostport_port_full.

(* an IPv6 literal as the remote host, in ANY spelling t the reader accepts
   (compressed or not, leading zeros, upper case, dotted tail): without a port
   it is given bare, with a port it must be bracketed; either way the host
   returned is Python's canonical text of the words it denotes. *)
Theorem c16_hostport_v6 : forall t ws,
  parse_v6 t = Some ws -> host_part t = Ok (None, Some (print_v6 false ws)).
Proof. exact host_part_v6_any. Qed.
Print Assumptions c16_hostport_v6.

Theorem c16_hostport_v6_port : forall t ws p,
  parse_v6 t = Some ws -> digits_ok p = true -> short p = true -> dec_val p <= 65535 ->
  host_part ("[" :: t ++ "]" :: ":" :: p) = Ok (Some (dec_val p), Some (print_v6 false ws)).
Proof. exact host_part_bracket_port_any. Qed.
Print Assumptions c16_hostport_v6_port.

(* (7) An option given on the command line overrides the same option taken
       from SSHUTTLE_ARGS; an option given only there is used; the value in
       force is the last occurrence. *)
Theorem c16_cli_overrides_env : forall dest env cli,
  In dest (map fst cli) -> effective dest (merge_args env cli) = effective dest cli.
Proof. exact cli_overrides_env. Qed.
Print Assumptions c16_cli_overrides_env.

Theorem c16_env_used_when_cli_silent : forall dest env cli,
  ~ In dest (map fst cli) -> effective dest (merge_args env cli) = effective dest env.
Proof. exact env_used_when_cli_silent. Qed.
Print Assumptions c16_env_used_when_cli_silent.

Theorem c16_last_occurrence_wins : forall dest a v b,
  ~ In dest (map fst b) -> effective dest (a ++ (dest, v) :: b) = Some v.
Proof. exact effective_is_last. Qed.
Print Assumptions c16_last_occurrence_wins.

(* (8) Finding F23: the IPv6 expression as found has no '.' in its host class,
       so an IPv6 subnet with a dotted IPv4 tail was rejected; repaired model
       accepts it (c16_subnet_roundtrip_v6 covers the class [\w:.]). *)
Theorem c16_embedded_v4_asfound_refuted : exists s,
  parse_subnetport no_names s = Ok [(AF_INET6, bytes_of_string "::ffff:1.2.3.4"%string, 96, 0, 0)] /\
  parse_subnetport_asfound no_names s = Raise (EArgType MsgFormat).
Proof. exists f23_witness. split; [exact f23_repaired|exact f23_asfound]. Qed.
Print Assumptions c16_embedded_v4_asfound_refuted.

(* ------------------------------------------------------------------ *)
(* (9) The parts of a remote specification at their point of use: the argument
       vector ssh.connect hands to Popen (ssh.py:87-92,129-136,191-202).  For
       every ssh command line `sshl`, every user (non-empty, without ':'), every
       non-empty password (it may contain ':' and '@'), every host over [\w.-]+,
       every port 0..65535 and every remote command: ssh is started with
       -p <that port>, the destination <that user>@<that host> and nothing else
       in between; the password travels in SSHPASS behind `sshpass -e` and never
       on the command line. *)
From SV Require Import Model.SshArgv Proofs.SshArgv_lemmas.

Theorem c16_remote_reaches_ssh : forall sshl u pw h p delim cmd,
  nonempty u = true -> lacks ":" u = true -> nonempty pw = true ->
  name4_ok h = true -> digits_ok p = true -> short p = true -> dec_val p <= 65535 ->
  connect_argv sshl (u ++ ":" :: pw ++ "@" :: h ++ ":" :: p) delim cmd =
  Ok (Some ([w_sshpass; w_e] ++ sshl ++ [w_p; port_text (dec_val p)] ++ [u ++ "@" :: canon_host h]
            ++ (if delim then [w_dd] else []) ++ [cmd], Some pw)).
Proof. exact connect_argv_full. Qed.
Print Assumptions c16_remote_reaches_ssh.

(* user@host: no -p (the port is left to ssh and ~/.ssh/config), no sshpass *)
Theorem c16_remote_user_host_reaches_ssh : forall sshl u h delim cmd,
  nonempty u = true -> lacks ":" u = true -> nonempty h = true -> lacks ":" h = true -> lacks "@" h = true ->
  connect_argv sshl (u ++ "@" :: h) delim cmd =
  Ok (Some (sshl ++ [u ++ "@" :: h] ++ (if delim then [w_dd] else []) ++ [cmd], None)).
Proof. exact connect_argv_user. Qed.
Print Assumptions c16_remote_user_host_reaches_ssh.

(* host:port without a user: the destination is the bare host *)
Theorem c16_remote_host_port_reaches_ssh : forall sshl h p delim cmd,
  name4_ok h = true -> digits_ok p = true -> short p = true -> dec_val p <= 65535 ->
  connect_argv sshl (h ++ ":" :: p) delim cmd =
  Ok (Some (sshl ++ [w_p; port_text (dec_val p)] ++ [canon_host h] ++ (if delim then [w_dd] else []) ++ [cmd], None)).
Proof. exact connect_argv_host_port. Qed.
Print Assumptions c16_remote_host_port_reaches_ssh.

(* ------------------------------------------------------------------ *)
(* Non-vacuity: concrete instances of the hypotheses above.            *)

Definition B (s : String.string) : bytes := bytes_of_string s.

Example c16_ex_v4 :
  let sp := mkSpec (B "0xb8.0254.2634"%string) (Some (B "24"%string)) (Some (B "8000"%string, Some (B "8080"%string))) in
  host4_ok (sp_host sp) = true /\ spec_ok sp = true /\ spec_short sp = true /\
  render4 sp = B "0xb8.0254.2634/24:8000-8080"%string /\
  inet_aton (sp_host sp) = Some 3098282570 /\
  parse_subnetport no_names (render4 sp) = Ok [(AF_INET, B "184.172.10.74"%string, 24, 8000, 8080)].
Proof. vm_compute. repeat split. Qed.

Example c16_ex_v6 :
  let sp := mkSpec (B "2a01:7e00::ffff:1.2.3.4"%string) (Some (B "64"%string)) (Some (B "443"%string, None)) in
  host6_ok (sp_host sp) = true /\ spec_ok sp = true /\ spec_short sp = true /\
  render6 sp = B "[2a01:7e00::ffff:1.2.3.4/64]:443"%string /\
  parse_subnetport no_names (render6 sp) = Ok [(AF_INET6, B "2a01:7e00::ffff:102:304"%string, 64, 443, 443)].
Proof. vm_compute. repeat split. Qed.

Example c16_ex_width :
  argparse_type (parse_subnetport no_names (B "10.0.0.0/33"%string)) = OUsage /\
  argparse_type (parse_subnetport no_names (B "fc00::/129"%string)) = OUsage /\
  argparse_type (parse_subnetport no_names (B "[fc00::/128]:80"%string)) =
    OOk [(AF_INET6, B "fc00::"%string, 128, 80, 80)].
Proof. vm_compute. repeat split. Qed.

Example c16_ex_spelling :
  let ps := [(RHex true, B "B8"%string); (ROct, B "254"%string); (RDec, B "2634"%string)] in
  Forall (fun p => part_ok p = true) ps /\ spelling_text ps = B "0XB8.0254.2634"%string /\
  spelling_val ps = Some 3098282570 /\ print_v4 3098282570 = B "184.172.10.74"%string.
Proof. split; [repeat constructor|]. vm_compute. repeat split. Qed.

Example c16_ex_hostport :
  parse_hostport (B "u@x:p@ss:w@[2001:DB8::1]:22"%string) =
    Ok (Some (B "u@x"%string), Some (B "p@ss:w"%string), Some 22, Some (B "2001:db8::1"%string)) /\
  lacks ":" (B "u@x"%string) = true /\ lacks "@" (B "[2001:DB8::1]:22"%string) = true /\
  host_part (B "Example.COM:2222"%string) = Ok (Some 2222, Some (B "example.com"%string)) /\
  parse_hostport (B "host:abc"%string) = Raise EValue.
Proof. vm_compute. repeat split. Qed.

Example c16_ex_canonical_v6 :
  let ws := [8193; 3512; 0; 0; 43981; 0; 0; 4660] in          (* 2001:db8:0:0:abcd:0:0:1234 *)
  let emb := [0; 0; 0; 0; 0; 65535; 49320; 513] in            (* ::ffff:192.168.2.1 *)
  length ws = 8%nat /\ Forall (fun w => w < 65536) ws /\
  print_v6 true ws = B "2001:db8::abcd:0:0:1234"%string /\
  print_v6 false ws = B "2001:db8::abcd:0:0:1234"%string /\
  print_v6 true emb = B "::ffff:192.168.2.1"%string /\
  print_v6 false emb = B "::ffff:c0a8:201"%string /\
  parse_v6 (B "::ffff:192.168.2.1"%string) = Some emb /\ parse_v6 (B "::ffff:c0a8:201"%string) = Some emb.
Proof. split; [reflexivity|]. split; [repeat constructor|]. vm_compute. repeat split. Qed.

Example c16_ex_numeric_v6 :
  let sp := mkSpec (B "2001:DB8:0:0:ABCD::0.0.18.52"%string) (Some (B "64"%string)) (Some (B "443"%string, None)) in
  host6_ok (sp_host sp) = true /\ spec_ok sp = true /\ spec_short sp = true /\
  parse_v6 (sp_host sp) = Some [8193; 3512; 0; 0; 43981; 0; 0; 4660] /\
  parse_subnetport no_names (render6 sp) = Ok [(AF_INET6, B "2001:db8::abcd:0:0:1234"%string, 64, 443, 443)].
Proof. vm_compute. repeat split. Qed.

Example c16_ex_hostport_v6 :
  let t := B "2001:DB8:0:0:abcd::0.0.18.52"%string in
  parse_v6 t = Some [8193; 3512; 0; 0; 43981; 0; 0; 4660] /\
  host_part t = Ok (None, Some (B "2001:db8::abcd:0:0:1234"%string)) /\
  host_part (B "[2001:DB8:0:0:abcd::0.0.18.52]:2222"%string) = Ok (Some 2222, Some (B "2001:db8::abcd:0:0:1234"%string)) /\
  name4_ok (B "Under_Score-1.LAN"%string) = true /\
  host_part (B "Under_Score-1.LAN:22"%string) = Ok (Some 22, Some (B "under_score-1.lan"%string)) /\
  host_part (B "10.0.0.1:22"%string) = Ok (Some 22, Some (B "10.0.0.1"%string)).
Proof. vm_compute. repeat split. Qed.

Example c16_ex_ipport :
  parse_ipport no_names (B "[::1]:53"%string) = Ok (AF_INET6, B "::1"%string, 53) /\
  parse_ipport no_names (B "12300"%string) = Ok (AF_INET, ANY4, 12300) /\
  parse_ipport no_names (B "127.0.0.1:70000"%string) = Ok (AF_INET, B "127.0.0.1"%string, 4464).
Proof. vm_compute. repeat split. Qed.

Example c16_ex_argv :
  let env := [(B "ssh_cmd"%string, B "ssh -v"%string); (B "method"%string, B "nat"%string)] in
  let cli := [(B "method"%string, B "tproxy"%string); (B "remote"%string, B "example.com"%string)] in
  effective (B "method"%string) (merge_args env cli) = Some (B "tproxy"%string) /\
  effective (B "ssh_cmd"%string) (merge_args env cli) = Some (B "ssh -v"%string) /\
  effective (B "python"%string) (merge_args env cli) = None.
Proof. vm_compute. repeat split. Qed.

Example c16_ex_connect_argv :
  connect_argv [B "ssh"%string; B "-v"%string] (B "u:p@ss@Host.Example:2222"%string) true (B "CMD"%string) =
  Ok (Some ([B "sshpass"%string; B "-e"%string; B "ssh"%string; B "-v"%string; B "-p"%string; B "2222"%string;
             B "u@host.example"%string; B "--"%string; B "CMD"%string], Some (B "p@ss"%string))) /\
  connect_argv [B "ssh"%string] (B "host"%string) false (B "CMD"%string) =
  Ok (Some ([B "ssh"%string; B "host"%string; B "CMD"%string], None)) /\
  connect_argv [B "ssh"%string] [] false (B "CMD"%string) = Ok None.
Proof. vm_compute. repeat split. Qed.

Example c16_ex_listen :
  listen_dispatch no_names (Some (B "127.0.0.1:0,[::1]:0"%string)) true =
    Ok (LAddr (B "::1"%string) 0, LAddr (B "127.0.0.1"%string) 0) /\
  listen_dispatch no_names (Some (B "[::1]:5,10.0.0.1:7,[::2]"%string)) false =
    Ok (LAddr (B "::2"%string) 0, LAddr (B "10.0.0.1"%string) 7) /\
  listen_dispatch no_names (Some (B "[::1]:5"%string)) true = Ok (LAddr (B "::1"%string) 5, LNone) /\
  listen_dispatch no_names None true = Ok (LNone, LAuto).
Proof. vm_compute. repeat split. Qed.
