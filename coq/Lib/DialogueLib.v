(* Lib/DialogueLib.v — text helpers for the helper dialogue (C13):
   decimal print (bytes %d), Python int() on ASCII text, str.strip,
   str.split(sep, maxsplit), startswith, readline(limit) chunking, hex.
   Definitions first (executable, extracted), then their lemmas. *)
From Coq Require Import List NArith ZArith Ascii Bool Lia Arith ZifyBool.
From SV Require Import Lib.Bytes.
Import ListNotations.
Local Open Scope N_scope.

(* ------------------------------------------------------------------ *)
(* characters                                                          *)

Definition nl : ascii := "010"%char.
Definition comma : ascii := ","%char.
Definition sp : ascii := " "%char.
Definition dash : ascii := "-"%char.
Definition ch0 : ascii := "0"%char.
Definition ch1 : ascii := "1"%char.

Definition code (c : ascii) : N := N_of_ascii c.

Definition is_digit (c : ascii) : bool := (48 <=? code c) && (code c <=? 57).
Definition dval (c : ascii) : N := code c - 48.
Definition digit (d : N) : ascii := ascii_of_N (48 + d).

(* str.isspace() restricted to ASCII: what str.strip() removes *)
Definition is_ws (c : ascii) : bool :=
  ((9 <=? code c) && (code c <=? 13)) || ((28 <=? code c) && (code c <=? 32)).
(* what int() skips around the number (Py_ISSPACE) *)
Definition is_int_ws (c : ascii) : bool :=
  ((9 <=? code c) && (code c <=? 13)) || (code c =? 32).
(* visible ASCII: 33..126 *)
Definition printable (c : ascii) : bool := (33 <=? code c) && (code c <=? 126).
(* visible ASCII or blank: 32..126 *)
Definition print_sp (c : ascii) : bool := (32 <=? code c) && (code c <=? 126).
Definition is_ascii (c : ascii) : bool := code c <? 128.
Definition all_ascii (s : bytes) : bool := forallb is_ascii s.

Definition is_nil {A} (l : list A) : bool := match l with [] => true | _ => false end.

(* ------------------------------------------------------------------ *)
(* decimal printing: b'%d' % n for n >= 0                              *)

Fixpoint dec_rev (fuel : nat) (n : N) : bytes :=
  match fuel with
  | O => []
  | S f => digit (n mod 10) :: (if n <? 10 then [] else dec_rev f (n / 10))
  end.

Definition dec (n : N) : bytes := rev (dec_rev (S (N.to_nat (N.log2 n))) n).

Definition decZ (z : Z) : bytes :=
  match z with
  | Zneg p => dash :: dec (Npos p)
  | _ => dec (Z.to_N z)
  end.

(* ------------------------------------------------------------------ *)
(* strip / startswith / split                                          *)

Fixpoint dropwhile (f : ascii -> bool) (s : bytes) : bytes :=
  match s with
  | c :: t => if f c then dropwhile f t else s
  | [] => []
  end.

Definition strip_with (f : ascii -> bool) (s : bytes) : bytes :=
  dropwhile f (rev (dropwhile f (rev s))).

(* str.strip() *)
Definition strip (s : bytes) : bytes := strip_with is_ws s.

(* s.startswith(p) *)
Fixpoint prefixb (p s : bytes) : bool :=
  match p, s with
  | [], _ => true
  | a :: p', b :: s' => Ascii.eqb a b && prefixb p' s'
  | _ :: _, [] => false
  end.

(* s.split(c, k): at most k splits, always at least one field *)
Fixpoint split_on (c : ascii) (k : nat) (s : bytes) : list bytes :=
  match s with
  | [] => [[]]
  | x :: t =>
      match k with
      | S k' =>
          if Ascii.eqb x c then [] :: split_on c k' t
          else match split_on c k t with
               | h :: r => (x :: h) :: r
               | [] => [[x]]
               end
      | O => [s]
      end
  end.

(* s.split(c) without a limit *)
Fixpoint split_all (c : ascii) (s : bytes) : list bytes :=
  match s with
  | [] => [[]]
  | x :: t =>
      if Ascii.eqb x c then [] :: split_all c t
      else match split_all c t with
           | h :: r => (x :: h) :: r
           | [] => [[x]]
           end
  end.

(* s.partition(c)[2]: everything after the first c, '' when c is absent *)
Fixpoint after_first (c : ascii) (s : bytes) : bytes :=
  match s with
  | [] => []
  | x :: t => if Ascii.eqb x c then t else after_first c t
  end.

(* ------------------------------------------------------------------ *)
(* int(text) for ASCII text                                            *)

(* digits with single underscores between digits *)
Fixpoint digits_us (l : bytes) (acc : N) (prev_digit : bool) : option N :=
  match l with
  | [] => if prev_digit then Some acc else None
  | c :: t =>
      if is_digit c then digits_us t (10 * acc + dval c) true
      else if Ascii.eqb c "_"%char then (if prev_digit then digits_us t acc false else None)
      else None
  end.

(* None = ValueError *)
Definition py_int (s : bytes) : option Z :=
  match strip_with is_int_ws s with
  | [] => None
  | c :: t =>
      if Ascii.eqb c dash then option_map (fun n => Z.opp (Z.of_N n)) (digits_us t 0 false)
      else if Ascii.eqb c "+"%char then option_map Z.of_N (digits_us t 0 false)
      else option_map Z.of_N (digits_us (c :: t) 0 false)
  end.

(* ------------------------------------------------------------------ *)
(* stdin.readline(limit) applied until EOF: the successive results     *)

(* unlimited: cut after every newline; a last piece may lack it *)
Fixpoint chunks_unl (s : bytes) : list bytes :=
  match s with
  | [] => []
  | c :: t =>
      if Ascii.eqb c nl then [c] :: chunks_unl t
      else match chunks_unl t with
           | h :: r => (c :: h) :: r
           | [] => [[c]]
           end
  end.

(* limit n >= 1; k = bytes the current piece may still take (1 <= k <= n) *)
Fixpoint chunks_lim (n k : nat) (s : bytes) : list bytes :=
  match s with
  | [] => []
  | c :: t =>
      if Ascii.eqb c nl || Nat.eqb k 1 then [c] :: chunks_lim n n t
      else match chunks_lim n (k - 1) t with
           | h :: r => (c :: h) :: r
           | [] => [[c]]
           end
  end.

(* lim = None: readline(); lim = Some n: readline(n).  readline(0) returns
   b'' at once, which the caller treats as end of input. *)
Definition chunks (lim : option N) (s : bytes) : list bytes :=
  match lim with
  | None => chunks_unl s
  | Some n => if n =? 0 then [] else chunks_lim (N.to_nat n) (N.to_nat n) s
  end.

(* ------------------------------------------------------------------ *)
(* hex (only for the canonical text handed to the harness)             *)

Definition hexdigit (d : N) : ascii :=
  if d <? 10 then ascii_of_N (48 + d) else ascii_of_N (87 + d).

Fixpoint hex_of (s : bytes) : bytes :=
  match s with
  | [] => []
  | c :: t => hexdigit (code c / 16) :: hexdigit (code c mod 16) :: hex_of t
  end.

Definition hex_or_dash (s : bytes) : bytes :=
  match s with [] => [dash] | _ => hex_of s end.

Fixpoint join (sep : bytes) (l : list bytes) : bytes :=
  match l with
  | [] => []
  | [a] => a
  | a :: t => a ++ sep ++ join sep t
  end.

(* ================================================================== *)
(* Lemmas                                                              *)

Lemma eqb_code a b : Ascii.eqb a b = true -> code a = code b.
Proof. intros H. apply Ascii.eqb_eq in H. now subst. Qed.

Lemma eqb_false_code a b : code a <> code b -> Ascii.eqb a b = false.
Proof.
  intros H. destruct (Ascii.eqb a b) eqn:E; [|reflexivity].
  apply eqb_code in E. contradiction.
Qed.

Lemma code_digit d : d < 10 -> code (digit d) = 48 + d.
Proof. intros H. unfold code, digit. apply N_ascii_embedding. lia. Qed.

Lemma is_digit_digit d : d < 10 -> is_digit (digit d) = true.
Proof. intros H. unfold is_digit. rewrite (code_digit d H). lia. Qed.

Lemma dval_digit d : d < 10 -> dval (digit d) = d.
Proof. intros H. unfold dval. rewrite (code_digit d H). lia. Qed.

Lemma digit_range c : is_digit c = true -> 48 <= code c <= 57.
Proof. unfold is_digit. lia. Qed.

Lemma digit_printable c : is_digit c = true -> printable c = true.
Proof. intros H. apply digit_range in H. unfold printable. lia. Qed.

Lemma printable_print_sp c : printable c = true -> print_sp c = true.
Proof. unfold printable, print_sp. lia. Qed.

Lemma printable_not_ws c : printable c = true -> is_ws c = false.
Proof. unfold printable, is_ws. lia. Qed.

Lemma printable_not_int_ws c : printable c = true -> is_int_ws c = false.
Proof. unfold printable, is_int_ws. lia. Qed.

Lemma print_sp_ascii c : print_sp c = true -> is_ascii c = true.
Proof. unfold print_sp, is_ascii. lia. Qed.

Lemma print_sp_not_nl c : print_sp c = true -> Ascii.eqb c nl = false.
Proof.
  intros H. apply eqb_false_code. unfold print_sp in H.
  change (code nl) with 10. lia.
Qed.

Lemma forallb_impl {A} (f g : A -> bool) l :
  (forall x, f x = true -> g x = true) -> forallb f l = true -> forallb g l = true.
Proof.
  intros H. induction l as [|a l IH]; cbn [forallb]; [reflexivity|].
  intros E. apply andb_true_iff in E. destruct E as [E1 E2].
  rewrite (H a E1), (IH E2). reflexivity.
Qed.

Lemma forallb_rev {A} (f : A -> bool) l : forallb f (rev l) = forallb f l.
Proof.
  induction l as [|a l IH]; [reflexivity|].
  cbn [rev forallb]. rewrite forallb_app, IH. cbn [forallb]. rewrite andb_true_r. apply andb_comm.
Qed.

(* ---- dec ---- *)

Lemma dec_rev_digits f n : forallb is_digit (dec_rev f n) = true.
Proof.
  revert n. induction f as [|f IH]; intros n; [reflexivity|].
  cbn [dec_rev forallb]. rewrite is_digit_digit by (apply N.mod_lt; discriminate).
  destruct (n <? 10); [reflexivity|]. apply IH.
Qed.

Lemma dec_digits n : forallb is_digit (dec n) = true.
Proof. unfold dec. rewrite forallb_rev. apply dec_rev_digits. Qed.

Lemma dec_printable n : forallb printable (dec n) = true.
Proof. apply (forallb_impl is_digit); [apply digit_printable|apply dec_digits]. Qed.

Lemma rev_dec_hd n : exists t, rev (dec n) = digit (n mod 10) :: t.
Proof. unfold dec. rewrite rev_involutive. cbn [dec_rev]. eexists. reflexivity. Qed.

Lemma dec_hd n : exists c t, dec n = c :: t /\ is_digit c = true.
Proof.
  pose proof (dec_digits n) as H.
  destruct (dec n) as [|c t] eqn:E.
  - destruct (rev_dec_hd n) as [t Ht]. rewrite E in Ht. discriminate.
  - exists c, t. split; [reflexivity|]. cbn [forallb] in H. apply andb_true_iff in H. tauto.
Qed.

Fixpoint val_lsb (l : bytes) : N :=
  match l with [] => 0 | d :: t => dval d + 10 * val_lsb t end.

Lemma dec_rev_val f n : n < 2 ^ N.of_nat f -> val_lsb (dec_rev f n) = n.
Proof.
  revert n. induction f as [|f IH]; intros n H.
  - cbn in H. assert (n = 0) by lia. subst. reflexivity.
  - cbn [dec_rev val_lsb]. rewrite dval_digit by (apply N.mod_lt; discriminate).
    destruct (n <? 10) eqn:E.
    + cbn [val_lsb]. apply N.ltb_lt in E. rewrite N.mod_small by exact E. lia.
    + rewrite IH.
      * pose proof (N.div_mod n 10). lia.
      * rewrite Nat2N.inj_succ, N.pow_succ_r' in H.
        apply N.div_lt_upper_bound; [discriminate|]. lia.
Qed.

Lemma lt_pow2_log2 n : n < 2 ^ N.of_nat (S (N.to_nat (N.log2 n))).
Proof.
  rewrite Nat2N.inj_succ, N2Nat.id.
  destruct n as [|p]; [reflexivity|].
  apply N.log2_spec. reflexivity.
Qed.

Lemma dec_val n : val_lsb (rev (dec n)) = n.
Proof. unfold dec. rewrite rev_involutive. apply dec_rev_val, lt_pow2_log2. Qed.

Lemma dec_rev_length f n k :
  n < 10 ^ N.of_nat (S k) -> (length (dec_rev f n) <= S k)%nat.
Proof.
  revert n k. induction f as [|f IH]; intros n k H; [cbn; lia|].
  cbn [dec_rev length]. destruct (n <? 10) eqn:E; [cbn; lia|].
  apply N.ltb_ge in E.
  destruct k as [|k]; [cbn in H; lia|].
  apply le_n_S. apply IH.
  rewrite (Nat2N.inj_succ (S k)), N.pow_succ_r' in H.
  apply N.div_lt_upper_bound; [discriminate|]. exact H.
Qed.

Lemma dec_length n k : n < 10 ^ N.of_nat (S k) -> (length (dec n) <= S k)%nat.
Proof. intros H. unfold dec. rewrite rev_length. apply dec_rev_length, H. Qed.

Lemma dec_len5 n : n <= 65535 -> (length (dec n) <= 5)%nat.
Proof. intros H. apply dec_length. cbn. lia. Qed.
Lemma dec_len3 n : n <= 128 -> (length (dec n) <= 3)%nat.
Proof. intros H. apply dec_length. cbn. lia. Qed.
Lemma dec_len10 n : n <= 4294967295 -> (length (dec n) <= 10)%nat.
Proof. intros H. apply dec_length. cbn. lia. Qed.

(* ---- strip ---- *)

Definition hd_ok (f : ascii -> bool) (l : bytes) : bool :=
  match l with [] => true | c :: _ => negb (f c) end.

Lemma dropwhile_hd_ok f l : hd_ok f l = true -> dropwhile f l = l.
Proof.
  destruct l as [|c t]; [reflexivity|]. cbn [hd_ok dropwhile]. intros H.
  apply negb_true_iff in H. rewrite H. reflexivity.
Qed.

Lemma strip_with_id f l : hd_ok f l = true -> hd_ok f (rev l) = true -> strip_with f l = l.
Proof.
  intros H1 H2. unfold strip_with.
  rewrite (dropwhile_hd_ok f (rev l) H2), rev_involutive. apply dropwhile_hd_ok, H1.
Qed.

Lemma strip_nl l : strip (l ++ [nl]) = strip l.
Proof. unfold strip, strip_with. rewrite rev_app_distr. reflexivity. Qed.

Lemma hd_ok_all f l : forallb (fun c => negb (f c)) l = true -> hd_ok f l = true.
Proof. destruct l; [reflexivity|]. cbn [forallb hd_ok]. intros H. apply andb_true_iff in H. tauto. Qed.

Lemma strip_with_all f l : forallb (fun c => negb (f c)) l = true -> strip_with f l = l.
Proof.
  intros H. apply strip_with_id; apply hd_ok_all; [exact H|]. rewrite forallb_rev. exact H.
Qed.

(* ---- int() of a printed number ---- *)

Definition dstep (a : N) (c : ascii) : N := 10 * a + dval c.

Lemma digits_us_all l : forall acc p, forallb is_digit l = true ->
  digits_us l acc p =
  if is_nil l then (if p then Some acc else None) else Some (fold_left dstep l acc).
Proof.
  induction l as [|c t IH]; intros acc p H; [reflexivity|].
  cbn [forallb] in H. apply andb_true_iff in H. destruct H as [Hc Ht].
  cbn [digits_us is_nil fold_left]. rewrite Hc, (IH _ true Ht).
  destruct t; reflexivity.
Qed.

Lemma fold_dstep_rev l : fold_left dstep (rev l) 0 = val_lsb l.
Proof.
  induction l as [|d t IH]; [reflexivity|].
  cbn [rev val_lsb]. rewrite fold_left_app, IH. cbn [fold_left]. unfold dstep. lia.
Qed.

Lemma digits_us_dec n : digits_us (dec n) 0 false = Some n.
Proof.
  rewrite digits_us_all by apply dec_digits.
  destruct (dec_hd n) as (c & t & E & _). rewrite E. cbn [is_nil]. rewrite <- E.
  rewrite <- (rev_involutive (dec n)), fold_dstep_rev, dec_val. reflexivity.
Qed.

Lemma py_int_dec n : py_int (dec n) = Some (Z.of_N n).
Proof.
  unfold py_int. rewrite strip_with_all.
  2:{ apply (forallb_impl printable); [|apply dec_printable].
      intros x Hx. rewrite (printable_not_int_ws x Hx). reflexivity. }
  pose proof (digits_us_dec n) as D.
  destruct (dec_hd n) as (c & t & E & Hc). rewrite E in *.
  apply digit_range in Hc.
  rewrite (eqb_false_code c dash) by (change (code dash) with 45; lia).
  rewrite (eqb_false_code c "+"%char) by (change (code "+"%char) with 43; lia).
  rewrite D. reflexivity.
Qed.

(* ---- split ---- *)

Definition nosep (c : ascii) (a : bytes) : bool := forallb (fun x => negb (Ascii.eqb x c)) a.

Lemma split_on_0 c s : split_on c 0 s = [s].
Proof. destruct s; reflexivity. Qed.

Lemma split_on_nosep c k a : nosep c a = true -> split_on c k a = [a].
Proof.
  revert k. induction a as [|x a IH]; intros k H; [reflexivity|].
  cbn [nosep forallb] in H. apply andb_true_iff in H. destruct H as [Hx Ha].
  apply negb_true_iff in Hx. cbn [split_on]. destruct k as [|k]; [reflexivity|].
  rewrite Hx, (IH (S k) Ha). reflexivity.
Qed.

Lemma split_on_sep c k a b : nosep c a = true ->
  split_on c (S k) (a ++ c :: b) = a :: split_on c k b.
Proof.
  induction a as [|x a IH]; intros H.
  - cbn [app split_on]. rewrite Ascii.eqb_refl. reflexivity.
  - cbn [nosep forallb] in H. apply andb_true_iff in H. destruct H as [Hx Ha].
    apply negb_true_iff in Hx. cbn [app split_on]. rewrite Hx, (IH Ha). reflexivity.
Qed.

Lemma split_all_nosep c a : nosep c a = true -> split_all c a = [a].
Proof.
  induction a as [|x a IH]; intros H; [reflexivity|].
  cbn [nosep forallb] in H. apply andb_true_iff in H. destruct H as [Hx Ha].
  apply negb_true_iff in Hx. cbn [split_all]. rewrite Hx, (IH Ha). reflexivity.
Qed.

Lemma split_all_sep c a b : nosep c a = true ->
  split_all c (a ++ c :: b) = a :: split_all c b.
Proof.
  induction a as [|x a IH]; intros H.
  - cbn [app split_all]. rewrite Ascii.eqb_refl. reflexivity.
  - cbn [nosep forallb] in H. apply andb_true_iff in H. destruct H as [Hx Ha].
    apply negb_true_iff in Hx. cbn [app split_all]. rewrite Hx, (IH Ha). reflexivity.
Qed.

Lemma after_first_sep c a b : nosep c a = true -> after_first c (a ++ c :: b) = b.
Proof.
  induction a as [|x a IH]; intros H.
  - cbn [app after_first]. rewrite Ascii.eqb_refl. reflexivity.
  - cbn [nosep forallb] in H. apply andb_true_iff in H. destruct H as [Hx Ha].
    apply negb_true_iff in Hx. cbn [app after_first]. rewrite Hx. apply IH, Ha.
Qed.

Lemma nosep_printable_other c a :
  forallb printable a = true -> printable c = false -> nosep c a = true.
Proof.
  intros H Hc. apply (forallb_impl printable); [|exact H].
  intros x Hx. apply negb_true_iff. destruct (Ascii.eqb x c) eqn:E; [|reflexivity].
  apply Ascii.eqb_eq in E. subst. congruence.
Qed.

Lemma nosep_digits c a :
  forallb is_digit a = true -> is_digit c = false -> nosep c a = true.
Proof.
  intros H Hc. apply (forallb_impl is_digit); [|exact H].
  intros x Hx. apply negb_true_iff. destruct (Ascii.eqb x c) eqn:E; [|reflexivity].
  apply Ascii.eqb_eq in E. subst. congruence.
Qed.

Lemma nosep_dec c n : is_digit c = false -> nosep c (dec n) = true.
Proof. intros H. apply nosep_digits; [apply dec_digits|exact H]. Qed.

(* ---- readline chunking ---- *)

Lemma chunks_unl_line l rest : nosep nl l = true ->
  chunks_unl (l ++ nl :: rest) = (l ++ [nl]) :: chunks_unl rest.
Proof.
  induction l as [|x l IH]; intros H.
  - reflexivity.
  - cbn [nosep forallb] in H. apply andb_true_iff in H. destruct H as [Hx Hl].
    apply negb_true_iff in Hx. cbn [app chunks_unl]. rewrite Hx, (IH Hl). reflexivity.
Qed.

Lemma chunks_lim_line n l : forall k rest, nosep nl l = true -> (length l < k)%nat ->
  chunks_lim n k (l ++ nl :: rest) = (l ++ [nl]) :: chunks_lim n n rest.
Proof.
  induction l as [|x l IH]; intros k rest H Hk.
  - reflexivity.
  - cbn [nosep forallb] in H. apply andb_true_iff in H. destruct H as [Hx Hl].
    apply negb_true_iff in Hx. cbn [length] in Hk. cbn [app chunks_lim]. rewrite Hx.
    replace (Nat.eqb k 1) with false by (symmetry; apply Nat.eqb_neq; lia).
    cbn [orb]. rewrite (IH (k - 1)%nat rest Hl) by lia. reflexivity.
Qed.

(* a line body fits the read limit together with its newline *)
Definition fits (lim : option N) (l : bytes) : bool :=
  match lim with None => true | Some n => lenN l + 1 <=? n end.

Lemma chunks_line lim l rest : nosep nl l = true -> fits lim l = true ->
  chunks lim (l ++ nl :: rest) = (l ++ [nl]) :: chunks lim rest.
Proof.
  intros H F. destruct lim as [n|]; cbn [chunks fits] in *.
  - apply N.leb_le in F. unfold lenN in F.
    replace (n =? 0) with false by (symmetry; apply N.eqb_neq; lia).
    apply chunks_lim_line; [exact H|lia].
  - apply chunks_unl_line, H.
Qed.

Lemma chunks_lines lim bodies rest :
  forallb (fun b => nosep nl b && fits lim b) bodies = true ->
  chunks lim (concat (map (fun b => b ++ [nl]) bodies) ++ rest) =
  map (fun b => b ++ [nl]) bodies ++ chunks lim rest.
Proof.
  induction bodies as [|b bs IH]; intros H; [reflexivity|].
  cbn [forallb] in H. apply andb_true_iff in H. destruct H as [Hb Hbs].
  apply andb_true_iff in Hb. destruct Hb as [Hn Hf].
  cbn [map concat app]. rewrite <- !app_assoc. cbn [app].
  rewrite (chunks_line lim b _ Hn Hf), (IH Hbs). reflexivity.
Qed.

Lemma chunks_nil lim : chunks lim [] = [].
Proof. destruct lim as [n|]; [|reflexivity]. cbn [chunks]. destruct (n =? 0); reflexivity. Qed.

(* ---- clean line bodies: what survives decode + strip unchanged ---- *)

Definition clean (b : bytes) : bool :=
  forallb print_sp b && hd_ok is_ws b && hd_ok is_ws (rev b).

Lemma clean_nosep_nl b : clean b = true -> nosep nl b = true.
Proof.
  unfold clean. intros H. apply andb_true_iff in H. destruct H as [H _].
  apply andb_true_iff in H. destruct H as [H _].
  apply (forallb_impl print_sp); [|exact H].
  intros x Hx. rewrite (print_sp_not_nl x Hx). reflexivity.
Qed.

Lemma clean_ascii b : clean b = true -> all_ascii (b ++ [nl]) = true.
Proof.
  unfold clean, all_ascii. intros H. apply andb_true_iff in H. destruct H as [H _].
  apply andb_true_iff in H. destruct H as [H _].
  rewrite forallb_app. rewrite (forallb_impl print_sp is_ascii b print_sp_ascii H). reflexivity.
Qed.

Lemma clean_strip b : clean b = true -> strip (b ++ [nl]) = b.
Proof.
  unfold clean. intros H. apply andb_true_iff in H. destruct H as [H H3].
  apply andb_true_iff in H. destruct H as [_ H2].
  rewrite strip_nl. apply strip_with_id; assumption.
Qed.

Lemma printable_clean b : forallb printable b = true -> clean b = true.
Proof.
  intros H. unfold clean.
  assert (Hn : forallb (fun c => negb (is_ws c)) b = true).
  { apply (forallb_impl printable); [|exact H]. intros x Hx. rewrite (printable_not_ws x Hx). reflexivity. }
  rewrite (forallb_impl printable print_sp b printable_print_sp H).
  rewrite (hd_ok_all is_ws b Hn).
  rewrite (hd_ok_all is_ws (rev b)) by (rewrite forallb_rev; exact Hn). reflexivity.
Qed.

Lemma hd_ok_rev_app_dec x n : hd_ok is_ws (rev (x ++ dec n)) = true.
Proof.
  rewrite rev_app_distr. destruct (rev_dec_hd n) as [t E]. rewrite E.
  cbn [app hd_ok]. rewrite printable_not_ws; [reflexivity|].
  apply digit_printable, is_digit_digit, N.mod_lt. discriminate.
Qed.

Lemma hd_ok_rev_app_printable x y :
  forallb printable y = true -> y <> [] -> hd_ok is_ws (rev (x ++ y)) = true.
Proof.
  intros H Hy. rewrite rev_app_distr.
  destruct (rev y) as [|c t] eqn:E.
  - apply (f_equal (@rev ascii)) in E. rewrite rev_involutive in E. contradiction.
  - cbn [app hd_ok]. rewrite <- forallb_rev, E in H. cbn [forallb] in H.
    apply andb_true_iff in H. destruct H as [Hc _]. rewrite (printable_not_ws c Hc). reflexivity.
Qed.
