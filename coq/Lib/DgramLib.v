(* Lib/DgramLib.v — helpers of the datagram core (C10/C11): decimal printing
   and parsing of N (Python `%d` / `%r` of an int, `int()` of a digit string),
   `bytes.split(b',', 2)` with tuple unpacking, and insertion-ordered
   association lists standing for Python dicts.  With their lemmas. *)
From Coq Require Import List NArith Ascii Bool Lia Arith.
From SV Require Import Lib.Bytes.
Import ListNotations.
Local Open Scope N_scope.

(* ------------------------------------------------------------------ *)
(* decimal                                                             *)

Definition digit (n : N) : ascii := ascii_of_N (48 + n).

Definition is_digit (c : ascii) : bool :=
  let v := N_of_ascii c in (48 <=? v) && (v <=? 57).

Definition digit_val (c : ascii) : N := N_of_ascii c - 48.

Fixpoint dec_fuel (fuel : nat) (n : N) : bytes :=
  match fuel with
  | O => []
  | S f => if n <? 10 then [digit n] else dec_fuel f (n / 10) ++ [digit (n mod 10)]
  end.

(* Python: b"%d" % n, "%r" % n for a non-negative int *)
Definition dec (n : N) : bytes := dec_fuel (S (N.to_nat (N.size n))) n.

Definition val_acc (a : N) (s : bytes) : N :=
  fold_left (fun a c => a * 10 + digit_val c) s a.

(* Python int(b) restricted to plain ASCII digit strings (see ASSUMPTIONS:
   signs, blanks and '_' that int() also accepts are outside the model) *)
Definition undec (s : bytes) : option N :=
  match s with
  | [] => None
  | _ => if forallb is_digit s then Some (val_acc 0 s) else None
  end.

Definition comma : ascii := ","%char.

Definition no_comma (s : bytes) : Prop := ~ In comma s.

Lemma digit_is_digit n : n < 10 -> is_digit (digit n) = true.
Proof.
  intros H. unfold is_digit, digit. rewrite N_ascii_embedding by lia.
  apply andb_true_intro. split; apply N.leb_le; lia.
Qed.

Lemma digit_val_digit n : n < 10 -> digit_val (digit n) = n.
Proof. intros H. unfold digit_val, digit. rewrite N_ascii_embedding by lia. lia. Qed.

Lemma is_digit_not_comma c : is_digit c = true -> c <> comma.
Proof. intros H ->. vm_compute in H. discriminate. Qed.

Lemma val_acc_app a s t : val_acc a (s ++ t) = val_acc (val_acc a s) t.
Proof. unfold val_acc. apply fold_left_app. Qed.

Lemma dec_fuel_spec : forall f n, n < 2 ^ N.of_nat f ->
  forallb is_digit (dec_fuel (S f) n) = true /\ val_acc 0 (dec_fuel (S f) n) = n /\
  dec_fuel (S f) n <> [].
Proof.
  induction f as [|f IH]; intros n Hn.
  - assert (n = 0) by (cbn in Hn; lia). subst. split; [reflexivity|split; [reflexivity|discriminate]].
  - remember (S f) as f1. cbn [dec_fuel]. destruct (n <? 10) eqn:E.
    + apply N.ltb_lt in E. split; [|split; [|discriminate]].
      * cbn [forallb]. rewrite digit_is_digit by exact E. reflexivity.
      * cbn [val_acc fold_left]. rewrite digit_val_digit by exact E. lia.
    + apply N.ltb_ge in E. subst f1.
      assert (Hd : n / 10 < 2 ^ N.of_nat f).
      { rewrite Nat2N.inj_succ, N.pow_succ_r' in Hn.
        apply N.div_lt_upper_bound; lia. }
      destruct (IH _ Hd) as (A & B & C).
      assert (Hm : n mod 10 < 10) by (apply N.mod_lt; lia).
      split; [|split].
      * rewrite forallb_app, A. cbn [forallb]. rewrite digit_is_digit by exact Hm. reflexivity.
      * rewrite val_acc_app, B. cbn [val_acc fold_left]. rewrite digit_val_digit by exact Hm.
        pose proof (N.div_mod n 10 ltac:(lia)). lia.
      * intros H. apply app_eq_nil in H. destruct H; discriminate.
Qed.

Lemma dec_spec n : forallb is_digit (dec n) = true /\ val_acc 0 (dec n) = n /\ dec n <> [].
Proof.
  unfold dec. apply dec_fuel_spec. rewrite N2Nat.id.
  destruct n as [|p]; [reflexivity|]. apply N.size_gt.
Qed.

Lemma undec_dec n : undec (dec n) = Some n.
Proof.
  destruct (dec_spec n) as (A & B & C). unfold undec.
  destruct (dec n) eqn:E; [congruence|]. rewrite A, B. reflexivity.
Qed.

Lemma forallb_digit_no_comma s : forallb is_digit s = true -> no_comma s.
Proof.
  intros H Hin. rewrite forallb_forall in H. apply (is_digit_not_comma _ (H _ Hin)). reflexivity.
Qed.

Lemma dec_no_comma n : no_comma (dec n).
Proof. apply forallb_digit_no_comma. apply dec_spec. Qed.

(* ------------------------------------------------------------------ *)
(* split(b',', 2) followed by unpacking into exactly three fields      *)

Fixpoint split1 (s : bytes) : option (bytes * bytes) :=
  match s with
  | [] => None
  | c :: tl =>
    if Ascii.eqb c comma then Some ([], tl)
    else match split1 tl with
         | Some (a, b) => Some (c :: a, b)
         | None => None
         end
  end.

Definition split3 (s : bytes) : option (bytes * bytes * bytes) :=
  match split1 s with
  | None => None
  | Some (a, r) =>
    match split1 r with
    | None => None
    | Some (b, c) => Some (a, b, c)
    end
  end.

Lemma split1_app a r : no_comma a -> split1 (a ++ comma :: r) = Some (a, r).
Proof.
  induction a as [|c a IH]; intros H.
  - cbn. reflexivity.
  - cbn [app split1]. destruct (Ascii.eqb c comma) eqn:E.
    + apply Ascii.eqb_eq in E. exfalso. apply H. left. exact E.
    + rewrite IH; [reflexivity|]. intros Hin. apply H. right. exact Hin.
Qed.

Lemma split3_app a b c : no_comma a -> no_comma b ->
  split3 (a ++ comma :: b ++ comma :: c) = Some (a, b, c).
Proof.
  intros Ha Hb. unfold split3. rewrite split1_app by exact Ha.
  rewrite split1_app by exact Hb. reflexivity.
Qed.

(* converse: what a successful split says about the input *)
Lemma split1_some s a r : split1 s = Some (a, r) -> s = a ++ comma :: r /\ no_comma a.
Proof.
  revert a r. induction s as [|c s IH]; intros a r H; [discriminate|].
  cbn [split1] in H. destruct (Ascii.eqb c comma) eqn:E.
  - apply Ascii.eqb_eq in E. inversion H; subst. split; [reflexivity|]. intros [].
  - destruct (split1 s) as [[a' b']|] eqn:Es; [|discriminate]. inversion H; subst.
    destruct (IH _ _ eq_refl) as [-> Hn]. split; [reflexivity|].
    intros [Hc|Hin]; [|exact (Hn Hin)]. subst. rewrite Ascii.eqb_refl in E. discriminate.
Qed.

(* ------------------------------------------------------------------ *)
(* insertion-ordered association lists (Python dict)                   *)

Section Assoc.
  Context {K V : Type} (eqb : K -> K -> bool).

  Fixpoint alookup (k : K) (l : list (K * V)) : option V :=
    match l with
    | [] => None
    | (k', v) :: tl => if eqb k k' then Some v else alookup k tl
    end.

  (* d[k] = v : replace in place, else append *)
  Fixpoint aset (k : K) (v : V) (l : list (K * V)) : list (K * V) :=
    match l with
    | [] => [(k, v)]
    | (k', v') :: tl => if eqb k k' then (k, v) :: tl else (k', v') :: aset k v tl
    end.

  (* del d[k] (the caller checks presence) *)
  Fixpoint adel (k : K) (l : list (K * V)) : list (K * V) :=
    match l with
    | [] => []
    | (k', v') :: tl => if eqb k k' then tl else (k', v') :: adel k tl
    end.

  Definition amem (k : K) (l : list (K * V)) : bool :=
    match alookup k l with Some _ => true | None => false end.
End Assoc.

Definition addr : Type := bytes * N.

Definition addr_eqb (a b : addr) : bool := bytes_eqb (fst a) (fst b) && N.eqb (snd a) (snd b).

Lemma addr_eqb_eq a b : addr_eqb a b = true <-> a = b.
Proof.
  destruct a as [a1 a2], b as [b1 b2]. unfold addr_eqb. cbn [fst snd].
  rewrite andb_true_iff, bytes_eqb_eq, N.eqb_eq. split; [intros [-> ->]; reflexivity|intros [= -> ->]; auto].
Qed.

Lemma addr_eqb_refl a : addr_eqb a a = true.
Proof. apply addr_eqb_eq. reflexivity. Qed.

Section AssocLemmas.
  Context {K V : Type} (eqb : K -> K -> bool).
  Hypothesis eqb_eq : forall a b, eqb a b = true <-> a = b.

  Lemma eqb_refl' a : eqb a a = true.
  Proof. apply eqb_eq. reflexivity. Qed.

  Lemma eqb_neq a b : a <> b -> eqb a b = false.
  Proof. intros H. destruct (eqb a b) eqn:E; [|reflexivity]. apply eqb_eq in E. contradiction. Qed.

  Lemma alookup_aset_same k v (l : list (K * V)) : alookup eqb k (aset eqb k v l) = Some v.
  Proof.
    induction l as [|[k' v'] tl IH]; cbn [aset alookup].
    - rewrite eqb_refl'. reflexivity.
    - destruct (eqb k k') eqn:E; cbn [alookup]; [rewrite eqb_refl'|rewrite E]; auto.
  Qed.

  Lemma alookup_aset_other k k' v (l : list (K * V)) : k' <> k ->
    alookup eqb k' (aset eqb k v l) = alookup eqb k' l.
  Proof.
    intros Hne. induction l as [|[k2 v2] tl IH]; cbn [aset alookup].
    - rewrite (eqb_neq _ _ Hne). reflexivity.
    - destruct (eqb k k2) eqn:E; cbn [alookup].
      + apply eqb_eq in E. subst k2. rewrite (eqb_neq _ _ Hne). reflexivity.
      + destruct (eqb k' k2); auto.
  Qed.

  Lemma alookup_adel_other k k' (l : list (K * V)) : k' <> k ->
    alookup eqb k' (adel eqb k l) = alookup eqb k' l.
  Proof.
    intros Hne. induction l as [|[k2 v2] tl IH]; cbn [adel alookup]; [reflexivity|].
    destruct (eqb k k2) eqn:E; cbn [alookup].
    - apply eqb_eq in E. subst k2. rewrite (eqb_neq _ _ Hne). reflexivity.
    - destruct (eqb k' k2); auto.
  Qed.

  Lemma alookup_In k v (l : list (K * V)) : alookup eqb k l = Some v -> In (k, v) l.
  Proof.
    induction l as [|[k2 v2] tl IH]; cbn [alookup]; [discriminate|].
    destruct (eqb k k2) eqn:E.
    - apply eqb_eq in E. intros [= ->]. subst. left. reflexivity.
    - intros H. right. auto.
  Qed.

  Lemma alookup_None_notin k (l : list (K * V)) : alookup eqb k l = None -> ~ In k (map fst l).
  Proof.
    induction l as [|[k2 v2] tl IH]; cbn [alookup map fst]; [intros _ []|].
    destruct (eqb k k2) eqn:E; [discriminate|]. intros H [Hk|Hin].
    - subst. rewrite eqb_refl' in E. discriminate.
    - exact (IH H Hin).
  Qed.

  Lemma notin_alookup_None k (l : list (K * V)) : ~ In k (map fst l) -> alookup eqb k l = None.
  Proof.
    induction l as [|[k2 v2] tl IH]; cbn [alookup map fst]; [reflexivity|].
    intros H. destruct (eqb k k2) eqn:E.
    - apply eqb_eq in E. subst. exfalso. apply H. left. reflexivity.
    - apply IH. intros Hin. apply H. right. exact Hin.
  Qed.

  Lemma In_alookup_nodup k v (l : list (K * V)) : NoDup (map fst l) -> In (k, v) l -> alookup eqb k l = Some v.
  Proof.
    induction l as [|[k2 v2] tl IH]; cbn [alookup map fst]; [intros _ []|].
    intros Hnd [H|H].
    - inversion H; subst. rewrite eqb_refl'. reflexivity.
    - inversion Hnd as [|? ? Hnot Hnd']; subst. destruct (eqb k k2) eqn:E.
      + apply eqb_eq in E. subst. exfalso. apply Hnot. apply (in_map fst) in H. exact H.
      + auto.
  Qed.

  Lemma adel_keys_subset k (l : list (K * V)) x : In x (map fst (adel eqb k l)) -> In x (map fst l).
  Proof.
    induction l as [|[k2 v2] tl IH]; cbn [adel map fst]; [auto|].
    destruct (eqb k k2); cbn [map fst In]; [intros H; right; exact H|].
    intros [H|H]; [left; exact H|right; auto].
  Qed.

  Lemma adel_nodup k (l : list (K * V)) : NoDup (map fst l) -> NoDup (map fst (adel eqb k l)).
  Proof.
    induction l as [|[k2 v2] tl IH]; cbn [adel map fst]; [auto|].
    intros Hnd. inversion Hnd as [|? ? Hnot Hnd']; subst.
    destruct (eqb k k2); cbn [map fst]; [exact Hnd'|].
    constructor; [|auto]. intros Hin. apply Hnot. eapply adel_keys_subset. exact Hin.
  Qed.

  Lemma alookup_adel_same k (l : list (K * V)) : NoDup (map fst l) -> alookup eqb k (adel eqb k l) = None.
  Proof.
    induction l as [|[k2 v2] tl IH]; cbn [adel alookup map fst]; [reflexivity|].
    intros Hnd. inversion Hnd as [|? ? Hnot Hnd']; subst.
    destruct (eqb k k2) eqn:E.
    - apply eqb_eq in E. subst. apply notin_alookup_None. exact Hnot.
    - cbn [alookup]. rewrite E. auto.
  Qed.

  Lemma aset_keys k v (l : list (K * V)) x :
    In x (map fst (aset eqb k v l)) <-> x = k \/ In x (map fst l).
  Proof.
    induction l as [|[k2 v2] tl IH]; cbn [aset map fst In].
    - split; [intros [H|[]]; left; auto|intros [H|[]]; left; auto].
    - destruct (eqb k k2) eqn:E; cbn [map fst In].
      + apply eqb_eq in E. subst. split; [intros [H|H]; [left; auto|right; right; auto]|].
        intros [H|[H|H]]; [left; auto|left; auto|right; auto].
      + split.
        * intros [H|H]; [right; left; auto|]. apply IH in H. destruct H; [left; auto|right; right; auto].
        * intros [H|[H|H]]; [right; apply IH; left; auto|left; auto|right; apply IH; right; auto].
  Qed.

  Lemma aset_nodup k v (l : list (K * V)) : NoDup (map fst l) -> NoDup (map fst (aset eqb k v l)).
  Proof.
    induction l as [|[k2 v2] tl IH]; cbn [aset map fst].
    - intros _. constructor; [intros []|constructor].
    - intros Hnd. inversion Hnd as [|? ? Hnot Hnd']; subst.
      destruct (eqb k k2) eqn:E; cbn [map fst].
      + apply eqb_eq in E. subst. constructor; auto.
      + constructor; [|auto]. rewrite aset_keys. intros [H|H]; [|auto].
        subst. rewrite eqb_refl' in E. discriminate.
  Qed.

  Lemma alookup_filter (p : K * V -> bool) k (l : list (K * V)) : NoDup (map fst l) ->
    alookup eqb k (filter p l) =
    match alookup eqb k l with Some v => if p (k, v) then Some v else None | None => None end.
  Proof.
    induction l as [|[k2 v2] tl IH]; cbn [filter alookup map fst]; [reflexivity|].
    intros Hnd. inversion Hnd as [|? ? Hnot Hnd']; subst.
    destruct (eqb k k2) eqn:E.
    - apply eqb_eq in E. subst k2. destruct (p (k, v2)) eqn:Ep; cbn [alookup].
      + rewrite eqb_refl'. reflexivity.
      + rewrite IH by exact Hnd'. rewrite (notin_alookup_None _ _ Hnot). reflexivity.
    - destruct (p (k2, v2)); cbn [alookup]; [rewrite E|]; auto.
  Qed.

  Lemma filter_keys_subset (p : K * V -> bool) (l : list (K * V)) x :
    In x (map fst (filter p l)) -> In x (map fst l).
  Proof.
    intros H. apply in_map_iff in H. destruct H as [y [Hy Hin]]. apply filter_In in Hin.
    apply in_map_iff. exists y. tauto.
  Qed.

  Lemma filter_nodup (p : K * V -> bool) (l : list (K * V)) :
    NoDup (map fst l) -> NoDup (map fst (filter p l)).
  Proof.
    induction l as [|[k2 v2] tl IH]; cbn [filter map fst]; [auto|].
    intros Hnd. inversion Hnd as [|? ? Hnot Hnd']; subst.
    destruct (p (k2, v2)); cbn [map fst]; [|auto].
    constructor; [|auto]. intros Hin. apply Hnot. eapply filter_keys_subset. exact Hin.
  Qed.
End AssocLemmas.
