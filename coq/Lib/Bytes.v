(* Lib/Bytes.v — bytes as lists of ascii, lengths in N, big-endian u16,
   and the list-surgery lemmas every codec proof goes through. *)
From Coq Require Import List NArith Ascii Lia Bool Arith.
From Coq Require String.
Import ListNotations.
Local Open Scope N_scope.

Definition bytes := list ascii.

Definition lenN (b : bytes) : N := N.of_nat (length b).

Definition bytes_of_string (s : String.string) : bytes := String.list_ascii_of_string s.

Definition bytes_eqb (a b : bytes) : bool :=
  if list_eq_dec ascii_dec a b then true else false.

Lemma bytes_eqb_eq a b : bytes_eqb a b = true <-> a = b.
Proof. unfold bytes_eqb. destruct (list_eq_dec ascii_dec a b); split; congruence. Qed.

Lemma bytes_eqb_refl a : bytes_eqb a a = true.
Proof. apply bytes_eqb_eq. reflexivity. Qed.

(* ---- big-endian 16-bit ---- *)
Definition put_u16 (n : N) : bytes :=
  [ascii_of_N (n / 256); ascii_of_N (n mod 256)].

Definition get_u16 (a b : ascii) : N := 256 * N_of_ascii a + N_of_ascii b.

Lemma get_put_u16 n : n < 65536 ->
  get_u16 (ascii_of_N (n / 256)) (ascii_of_N (n mod 256)) = n.
Proof.
  intros H. unfold get_u16.
  rewrite !N_ascii_embedding.
  - symmetry. apply N.div_mod. discriminate.
  - apply N.mod_lt. discriminate.
  - apply N.div_lt_upper_bound; [discriminate|]. exact H.
Qed.

Lemma get_u16_bound a b : get_u16 a b < 65536.
Proof.
  unfold get_u16.
  pose proof (N_ascii_bounded a). pose proof (N_ascii_bounded b). lia.
Qed.

(* ---- lenN ---- *)
Lemma lenN_nil : lenN [] = 0. Proof. reflexivity. Qed.

Lemma lenN_cons a l : lenN (a :: l) = 1 + lenN l.
Proof. unfold lenN. cbn [length]. lia. Qed.

Lemma lenN_app a b : lenN (a ++ b) = lenN a + lenN b.
Proof. unfold lenN. rewrite app_length. lia. Qed.

Lemma lenN_0 l : lenN l = 0 -> l = [].
Proof. destruct l; [reflexivity|]. unfold lenN; cbn [length]; lia. Qed.

(* ---- N-indexed firstn / skipn ---- *)
Definition takeN (n : N) (l : bytes) : bytes := firstn (N.to_nat n) l.
Definition dropN (n : N) (l : bytes) : bytes := skipn (N.to_nat n) l.

Lemma takeN_dropN n l : takeN n l ++ dropN n l = l.
Proof. apply firstn_skipn. Qed.

Lemma takeN_app_exact a b : takeN (lenN a) (a ++ b) = a.
Proof.
  unfold takeN, lenN. rewrite Nat2N.id.
  rewrite firstn_app, Nat.sub_diag, firstn_all. cbn. apply app_nil_r.
Qed.

Lemma dropN_app_exact a b : dropN (lenN a) (a ++ b) = b.
Proof.
  unfold dropN, lenN. rewrite Nat2N.id.
  rewrite skipn_app, Nat.sub_diag, skipn_all. reflexivity.
Qed.

Lemma dropN_app_le n a b : n <= lenN a -> dropN n (a ++ b) = dropN n a ++ b.
Proof.
  unfold dropN, lenN. intros H. rewrite skipn_app.
  replace (N.to_nat n - length a)%nat with 0%nat by lia. reflexivity.
Qed.

Lemma takeN_app_le n a b : n <= lenN a -> takeN n (a ++ b) = takeN n a.
Proof.
  unfold takeN, lenN. intros H. rewrite firstn_app.
  replace (N.to_nat n - length a)%nat with 0%nat by lia.
  cbn. apply app_nil_r.
Qed.

Lemma lenN_dropN n l : n <= lenN l -> lenN (dropN n l) = lenN l - n.
Proof. unfold dropN, lenN. intros H. rewrite skipn_length. lia. Qed.

Lemma length_dropN n l : length (dropN n l) = (length l - N.to_nat n)%nat.
Proof. unfold dropN. apply skipn_length. Qed.

Lemma lenN_takeN n l : n <= lenN l -> lenN (takeN n l) = n.
Proof. unfold takeN, lenN. intros H. rewrite firstn_length. lia. Qed.

Lemma takeN_all n l : lenN l <= n -> takeN n l = l.
Proof. unfold takeN, lenN. intros H. apply firstn_all2. lia. Qed.

Lemma dropN_all n l : lenN l <= n -> dropN n l = [].
Proof. unfold dropN, lenN. intros H. apply skipn_all2. lia. Qed.

Lemma dropN_0 l : dropN 0 l = l. Proof. reflexivity. Qed.
Lemma takeN_0 l : takeN 0 l = []. Proof. reflexivity. Qed.

Lemma skipn_skipn' {A} (x y : nat) (l : list A) : skipn x (skipn y l) = skipn (y + x) l.
Proof.
  revert l. induction y as [|y IH]; intros l; [reflexivity|].
  destruct l as [|a l]; cbn [skipn plus].
  - destruct x; reflexivity.
  - apply IH.
Qed.

Lemma dropN_dropN a b l : dropN a (dropN b l) = dropN (b + a) l.
Proof.
  unfold dropN. rewrite skipn_skipn'. f_equal. lia.
Qed.

(* ---- prefix ---- *)
Definition prefix {A} (p l : list A) : Prop := exists r, l = p ++ r.

Lemma prefix_refl {A} (l : list A) : prefix l l.
Proof. exists []. symmetry. apply app_nil_r. Qed.

Lemma prefix_nil {A} (l : list A) : prefix [] l.
Proof. exists l. reflexivity. Qed.

Lemma prefix_trans {A} (a b c : list A) : prefix a b -> prefix b c -> prefix a c.
Proof. intros [r ->] [s ->]. exists (r ++ s). apply app_assoc_reverse. Qed.

Lemma prefix_app {A} (a b : list A) : prefix a (a ++ b).
Proof. exists b. reflexivity. Qed.

Lemma prefix_app_l {A} (a b c : list A) : prefix b c -> prefix (a ++ b) (a ++ c).
Proof. intros [r ->]. exists r. apply app_assoc. Qed.
