(* Lib/ExtractBase.v — forces the base inductive types into every extracted
   model so that drivers/common.ml.in type-checks against any of them. *)
From Coq Require Import List NArith ZArith Ascii.
Definition extract_anchor (n : nat) (z : Z) (a : ascii) (m : N) (p : positive)
  : nat * Z * ascii * N * positive := (n, z, a, m, p).
