(* Model/Hosts.v — executable model of the remote-host-name pipeline (C19):

     hostwatch.py   found_host / read_host_cache / _check_etc_hosts / _is_ip   (scanner, str level)
     server.py      hostwatch_ready (recv(4096) + hw.leftover + Mux.send)      (bytes level)
     client.py      onhostlist + FirewallClient.sethostip                      (bytes level)
     firewall.py    the HOST branch of main's command loop + the hosts line    (str level, ASCII)

   Definitions only; proofs live in Proofs/Hosts_lemmas.v.
   Python exceptions are values (CCrash ..., HCrash, HwAssert ...).            *)
From Coq Require Import List NArith Ascii Bool.
From SV Require Import Lib.Bytes.
From SV Require Lib.DialogueLib.      (* only DialogueLib.chunks: the readline model shared with C13 *)
Import ListNotations.
Local Open Scope N_scope.

(* ================================================================== *)
(* 1. Byte classes — `re` on bytes patterns is ASCII-only              *)

Definition cN (c : ascii) : N := N_of_ascii c.
Definition NL : ascii := ascii_of_N 10.
Definition SP : ascii := ascii_of_N 32.
Definition COMMA : ascii := ascii_of_N 44.
Definition DOT : ascii := ascii_of_N 46.

Definition digitN (n : N) : bool := (48 <=? n) && (n <=? 57).
Definition alphaN (n : N) : bool := ((65 <=? n) && (n <=? 90)) || ((97 <=? n) && (n <=? 122)).
Definition wordN (n : N) : bool := digitN n || alphaN n || (n =? 95).          (* ASCII \w *)
Definition nameN (n : N) : bool := wordN n || (n =? 45) || (n =? 46).          (* [-\w\.] *)
Definition ipchN (n : N) : bool := digitN n || (n =? 46).                      (* [0-9.]  *)
Definition spaceN_bytes (n : N) : bool := (n =? 32) || ((9 <=? n) && (n <=? 13)).   (* bytes.isspace *)
(* str.isspace below 128 additionally has FS GS RS US (28..31) *)
Definition spaceN_str (n : N) : bool := spaceN_bytes n || ((28 <=? n) && (n <=? 31)).

Definition is_digit_b (c : ascii) := digitN (cN c).
Definition is_name_b (c : ascii) := nameN (cN c).
Definition is_ipch_b (c : ascii) := ipchN (cN c).
Definition is_space_b (c : ascii) := spaceN_bytes (cN c).
Definition is_space_s (c : ascii) := spaceN_str (cN c).

(* ================================================================== *)
(* 2. Generic Python string functions on bytes                         *)

(* s.split(sep): always at least one field *)
Fixpoint split_on (sep : ascii) (s : bytes) : list bytes :=
  match s with
  | [] => [[]]
  | c :: tl =>
    if Ascii.eqb c sep then [] :: split_on sep tl
    else match split_on sep tl with
         | w :: ws => (c :: w) :: ws
         | [] => [[c]]                       (* unreachable *)
         end
  end.

Fixpoint join (sep : ascii) (ls : list bytes) : bytes :=
  match ls with
  | [] => []
  | [l] => l
  | l :: tl => l ++ sep :: join sep tl
  end.

(* s.split(sep, 1) unpacked into two names: None = ValueError *)
Fixpoint split1 (sep : ascii) (s : bytes) : option (bytes * bytes) :=
  match s with
  | [] => None
  | c :: tl =>
    if Ascii.eqb c sep then Some ([], tl)
    else match split1 sep tl with
         | Some (a, b) => Some (c :: a, b)
         | None => None
         end
  end.

(* s.split() with no argument: fields are the maximal runs of non-space *)
Fixpoint ws_split (sp : ascii -> bool) (s : bytes) : list bytes :=
  match s with
  | [] => []
  | c :: tl =>
    if sp c then ws_split sp tl
    else match tl with
         | [] => [[c]]
         | d :: _ =>
           if sp d then [c] :: ws_split sp tl
           else match ws_split sp tl with
                | w :: ws => (c :: w) :: ws
                | [] => [[c]]                (* unreachable *)
                end
         end
  end.

Fixpoint lstrip (sp : ascii -> bool) (s : bytes) : bytes :=
  match s with
  | [] => []
  | c :: tl => if sp c then lstrip sp tl else s
  end.

Fixpoint rstrip (sp : ascii -> bool) (s : bytes) : bytes :=
  match s with
  | [] => []
  | c :: tl =>
    match rstrip sp tl with
    | [] => if sp c then [] else [c]
    | r => c :: r
    end
  end.

Definition strip (sp : ascii -> bool) (s : bytes) : bytes := rstrip sp (lstrip sp s).

Fixpoint starts_with (p s : bytes) : bool :=
  match p, s with
  | [], _ => true
  | a :: p', b :: s' => Ascii.eqb a b && starts_with p' s'
  | _ :: _, [] => false
  end.

(* ================================================================== *)
(* 3. server.py:331-345  hostwatch_ready                               *)
(*
     content = hw.sock.recv(4096)
     if content:
         lines = (hw.leftover + content).split(b'\n')
         if lines[-1]:  hw.leftover = lines.pop(); lines.append(b'')
         else:          hw.leftover = b''
         mux.send(0, ssnet.CMD_HOST_LIST, b'\n'.join(lines))   # Mux.send: assert len(data) <= 65535
     else:
         raise Fatal('hostwatch process died')                                   *)

Inductive hw_result :=
| HwOk (leftover payload : bytes)
| HwDied                                   (* Fatal: recv returned b'' *)
| HwAssert.                                (* AssertionError in Mux.send *)

Definition MUX_MAX : N := 65535.

Definition hw_ready (leftover content : bytes) : hw_result :=
  match content with
  | [] => HwDied
  | _ :: _ =>
    let lines := split_on NL (leftover ++ content) in
    let lst := last lines [] in
    let lines' := match lst with
                  | [] => lines
                  | _ :: _ => removelast lines ++ [[]]
                  end in
    let payload := join NL lines' in
    if MUX_MAX <? lenN payload then HwAssert else HwOk lst payload
  end.

Inductive run_status := RunOk | RunDied | RunAssert.

(* one hostwatch_ready call per recv; the first failure ends the server *)
Fixpoint hw_run (leftover : bytes) (chunks : list bytes) : list bytes * bytes * run_status :=
  match chunks with
  | [] => ([], leftover, RunOk)
  | c :: cs =>
    match hw_ready leftover c with
    | HwDied => ([], leftover, RunDied)
    | HwAssert => ([], leftover, RunAssert)
    | HwOk lo p =>
      let '(ps, lo', st) := hw_run lo cs in (p :: ps, lo', st)
    end
  end.

(* stream-level vocabulary of the specification *)
Definition records (s : bytes) : list bytes := removelast (split_on NL s).   (* complete lines *)
Definition tail_of (s : bytes) : bytes := last (split_on NL s) [].           (* unfinished line *)
Definition complete (p : bytes) : Prop := tail_of p = [].                    (* empty or ends in NL *)

(* ================================================================== *)
(* 4. client.py:764-770 onhostlist, client.py:457-461 sethostip        *)

Inductive crash_class := AssertionError | ValueError | UnicodeDecodeError.

Inductive outcome := COk | CCrash (cls : crash_class).

Definition HOST_PREFIX : bytes := ["H"; "O"; "S"; "T"; " "]%char.

Definition host_line (name ip : bytes) : bytes :=
  HOST_PREFIX ++ name ++ COMMA :: ip ++ [NL].

(* sethostip:
     assert not re.search(br'[^-\w\.]', hostname)
     assert not re.search(br'[^0-9.]', ip)
     self.pfile.write(b'HOST %s,%s\n' % (hostname, ip))                 *)
Definition sethostip (name ip : bytes) : option bytes :=
  if negb (forallb is_name_b name) then None
  else if negb (forallb is_ipch_b ip) then None
  else Some (host_line name ip).

Definition tokens (hostlist : bytes) : list bytes :=
  ws_split is_space_b (strip is_space_b hostlist).

(* the client as found:
     for line in hostlist.strip().split():
         if line:
             name, ip = line.split(b',', 1)        # ValueError without a comma
             fw.sethostip(name, ip)                # AssertionError             *)
Fixpoint onhostlist_loop_asfound (toks : list bytes) : list bytes * outcome :=
  match toks with
  | [] => ([], COk)
  | t :: tl =>
    match split1 COMMA t with
    | None => ([], CCrash ValueError)
    | Some (name, ip) =>
      match sethostip name ip with
      | None => ([], CCrash AssertionError)
      | Some l => let '(ls, o) := onhostlist_loop_asfound tl in (l :: ls, o)
      end
    end
  end.

Definition onhostlist_asfound (hostlist : bytes) : list bytes * outcome :=
  onhostlist_loop_asfound (tokens hostlist).

(* the repaired client (pending_fixes/F13_F19.diff):
     name, sep, ip = line.partition(b',')
     if not (sep and _valid_hostname(name) and _valid_ipv4(ip)): continue
     fw.sethostip(name, ip)
   _valid_hostname = re.fullmatch(br'[-\w.]+', name)
   _valid_ipv4     = four '.'-separated fields, each 1..3 ASCII digits, value <= 255 *)
Definition valid_name (name : bytes) : bool :=
  match name with [] => false | _ :: _ => forallb is_name_b name end.

Fixpoint dec_value (acc : N) (s : bytes) : N :=
  match s with
  | [] => acc
  | c :: tl => dec_value (10 * acc + (cN c - 48)) tl
  end.

Definition octet_ok (p : bytes) : bool :=
  match p with
  | [] => false
  | _ :: _ => forallb is_digit_b p && (lenN p <=? 3) && (dec_value 0 p <=? 255)
  end.

Definition valid_ip (ip : bytes) : bool :=
  match split_on DOT ip with
  | [a; b; c; d] => octet_ok a && octet_ok b && octet_ok c && octet_ok d
  | _ => false
  end.

Fixpoint onhostlist_loop (toks : list bytes) : list bytes * outcome :=
  match toks with
  | [] => ([], COk)
  | t :: tl =>
    match split1 COMMA t with
    | None => onhostlist_loop tl                               (* no comma: skipped *)
    | Some (name, ip) =>
      if valid_name name && valid_ip ip then
        match sethostip name ip with
        | None => ([], CCrash AssertionError)                  (* proved unreachable *)
        | Some l => let '(ls, o) := onhostlist_loop tl in (l :: ls, o)
        end
      else onhostlist_loop tl                                  (* invalid: skipped *)
    end
  end.

Definition onhostlist (hostlist : bytes) : list bytes * outcome :=
  onhostlist_loop (tokens hostlist).

(* ================================================================== *)
(* 5. firewall.py:226-237 _read_next_string_line, :370-381 the helper's  *)
(*    HOST loop; :50-51 the hosts line                                   *)
(*
     def _read_next_string_line():
         line = stdin.readline()            # as found: stdin.readline(128)   (F5)
         if not line: return
         return line.decode('ASCII').strip()
     while 1:
         line = _read_next_string_line()
         if not line: return
         if line.startswith('HOST '):
             (name, ip) = line[5:].split(',', 1); hostmap[name] = ip; rewrite_etc_hosts(...)
         elif line: if not method.firewall_command(line): raise Fatal(...)

   The reader's limit is the parameter `lim` of helper_stdin / helper_run:
   None = readline() (whole lines, the code today), Some n = readline(n).  The
   successive results of readline are DialogueLib.chunks, the reader model shared
   with C13 (Model/Dialogue.v helper_main).  The statements of Props/C19.v pass
   Gen.Consts.fw_readline_limit, regenerated from firewall.py on every run.     *)

Inductive helper_result :=
| HSet (name ip : bytes)            (* hostmap[name] = ip *)
| HReturn                           (* EOF or blank line: main() returns, firewall undone *)
| HFatal                            (* 'expected command, got ...' (no method command matches) *)
| HCrash (cls : crash_class).

(* what the loop does with ONE result `raw` of readline *)
Definition helper_line (raw : bytes) : helper_result :=
  match raw with
  | [] => HReturn
  | _ :: _ =>
    if negb (forallb (fun c => cN c <? 128) raw) then HCrash UnicodeDecodeError
    else
      let line := strip is_space_s raw in
      match line with
      | [] => HReturn
      | _ :: _ =>
        if starts_with HOST_PREFIX line then
          match split1 COMMA (dropN 5 line) with
          | None => HCrash ValueError
          | Some (name, ip) => HSet name ip
          end
        else HFatal
      end
  end.

(* '%-30s %s' % ('%s %s' % (ip, name), APPEND)   (the caller adds '\n') *)
Definition pad30 (s : bytes) : bytes := s ++ repeat SP (30 - length s).

Definition hosts_line (marker name ip : bytes) : bytes :=
  pad30 (ip ++ SP :: name) ++ SP :: marker.

(* hostmap as the sorted item list rewrite_etc_hosts iterates over *)
Fixpoint bytes_ltb (a b : bytes) : bool :=
  match a, b with
  | [], [] => false
  | [], _ :: _ => true
  | _ :: _, [] => false
  | x :: a', y :: b' =>
    if cN x <? cN y then true else if cN y <? cN x then false else bytes_ltb a' b'
  end.

Fixpoint hm_set (name ip : bytes) (hm : list (bytes * bytes)) : list (bytes * bytes) :=
  match hm with
  | [] => [(name, ip)]
  | (n, i) :: tl =>
    if bytes_eqb n name then (name, ip) :: tl
    else if bytes_ltb name n then (name, ip) :: hm
    else (n, i) :: hm_set name ip tl
  end.

(* the limit of the helper as found (readline(128)); only the `_asfound` statements use it *)
Definition READLINE_LIMIT_ASFOUND : N := 128.

(* the helper's loop over the successive results of readline; the second component
   is None while the helper is still waiting for input (all of it was HOST records) *)
Fixpoint helper_reads (hm : list (bytes * bytes)) (raws : list bytes)
  : list (bytes * bytes) * option helper_result :=
  match raws with
  | [] => (hm, None)
  | r :: rs =>
    match helper_line r with
    | HSet name ip => helper_reads (hm_set name ip hm) rs
    | other => (hm, Some other)                 (* the helper stopped here *)
    end
  end.

(* the pipe carries the concatenated writes of the client (sethostip: one write per
   HOST line); the helper cuts it with readline(lim) *)
Definition helper_stdin (lim : option N) (ls : list bytes) : list bytes :=
  DialogueLib.chunks lim (concat ls).

(* the helper fed the HOST lines `ls` the client wrote *)
Definition helper_run (lim : option N) (hm : list (bytes * bytes)) (ls : list bytes)
  : list (bytes * bytes) * option helper_result :=
  helper_reads hm (helper_stdin lim ls).

(* specification vocabulary: a written line fits one read of the helper *)
Definition line_fits (lim : option N) (l : bytes) : Prop :=
  match lim with None => True | Some n => lenN l <= n end.

(* the host map after the records `recs` have each been delivered once, in order *)
Definition delivered (hm : list (bytes * bytes)) (recs : list (bytes * bytes)) : list (bytes * bytes) :=
  fold_left (fun m r => hm_set (fst r) (snd r) m) recs hm.

Definition hosts_lines (marker : bytes) (hm : list (bytes * bytes)) : list bytes :=
  map (fun e => hosts_line marker (fst e) (snd e)) hm.

(* client + helper for a sequence of HOST_LIST payloads *)
Fixpoint client_run (onhl : bytes -> list bytes * outcome) (payloads : list bytes)
  : list bytes * outcome :=
  match payloads with
  | [] => ([], COk)
  | p :: ps =>
    let '(ls, o) := onhl p in
    match o with
    | COk => let '(ls', o') := client_run onhl ps in (ls ++ ls', o')
    | CCrash _ => (ls, o)
    end
  end.

(* the specification side of c19_line_form *)
Definition wf_line (marker line : bytes) : Prop :=
  exists addr name,
    valid_ip addr = true /\ valid_name name = true /\
    line = pad30 (addr ++ SP :: name) ++ SP :: marker.

(* ================================================================== *)
(* 6. hostwatch.py — the scanner, on str = list of code points          *)
(*    \w, \d and str.isspace() above 127 come from the utables record; every  *)
(*    theorem holds for all tables, the correspondence passes CPython's. *)

Definition ustr := list N.

Record utables := mkTables { u_word : N -> bool; u_space : N -> bool; u_digit : N -> bool }.

Definition uw (T : utables) (c : N) : bool := if c <? 128 then wordN c else u_word T c.
Definition usp (T : utables) (c : N) : bool := if c <? 128 then spaceN_str c else u_space T c.
Definition udg (T : utables) (c : N) : bool := if c <? 128 then digitN c else u_digit T c.
Definition ukeep (T : utables) (c : N) : bool := uw T c || (c =? 45) || (c =? 46).   (* [-\w\.] *)

Fixpoint ustr_eqb (a b : ustr) : bool :=
  match a, b with
  | [], [] => true
  | x :: a', y :: b' => (x =? y) && ustr_eqb a' b'
  | _, _ => false
  end.

Fixpoint ustarts (p s : ustr) : bool :=
  match p, s with
  | [], _ => true
  | a :: p', b :: s' => (a =? b) && ustarts p' s'
  | _ :: _, [] => false
  end.

Definition ustr_of (s : bytes) : ustr := map N_of_ascii s.

(* re.sub(r'\..*', '', name): '.' does not match '\n' *)
Fixpoint cut_dots_aux (skipping : bool) (s : ustr) : ustr :=
  match s with
  | [] => []
  | c :: tl =>
    if skipping then (if c =? 10 then c :: cut_dots_aux false tl else cut_dots_aux true tl)
    else if c =? 46 then cut_dots_aux true tl
    else c :: cut_dots_aux false tl
  end.
Definition cut_dots (s : ustr) : ustr := cut_dots_aux false s.

(* re.sub(r'[^-\w\.]', r, s) with a one-character replacement *)
Definition sanitise (T : utables) (r : N) (s : ustr) : ustr :=
  map (fun c => if ukeep T c then c else r) s.

Definition short_name (T : utables) (name : ustr) : ustr := sanitise T 95 (cut_dots name).

Definition hw_state := list (ustr * ustr).      (* hostwatch.hostnames, insertion order *)

Fixpoint st_get (st : hw_state) (k : ustr) : option ustr :=
  match st with
  | [] => None
  | (k', v) :: tl => if ustr_eqb k' k then Some v else st_get tl k
  end.

Fixpoint st_set (st : hw_state) (k v : ustr) : hw_state :=
  match st with
  | [] => [(k, v)]
  | (k', v') :: tl => if ustr_eqb k' k then (k', v) :: tl else (k', v') :: st_set tl k v
  end.

Inductive fh_result := FhOk (st : hw_state) (out : list (ustr * ustr)) | FhFuel.

(* hostwatch.py:93-113 found_host *)
Fixpoint found_host (T : utables) (fuel : nat) (st : hw_state) (name ip : ustr) : fh_result :=
  match fuel with
  | O => FhFuel
  | S fuel' =>
    let hostname := short_name T name in
    if ustarts (ustr_of ["1"; "2"; "7"; "."]%char) ip || ustarts (ustr_of ["2"; "5"; "5"; "."]%char) ip
       || ustr_eqb hostname (ustr_of ["l"; "o"; "c"; "a"; "l"; "h"; "o"; "s"; "t"]%char)
    then FhOk st []
    else
      let r1 := if ustr_eqb hostname name then FhOk st []
                else found_host T fuel' st hostname ip in
      match r1 with
      | FhFuel => FhFuel
      | FhOk st1 out1 =>
        match st_get st1 name with
        | Some old => if ustr_eqb old ip then FhOk st1 out1
                      else FhOk (st_set st1 name ip) (out1 ++ [(name, ip)])
        | None => FhOk (st_set st1 name ip) (out1 ++ [(name, ip)])
        end
      end
  end.

Definition FH_FUEL : nat := 2.

(* sys.stdout.write('%s,%s\n' % (name, ip)) *)
Definition record_text (r : ustr * ustr) : ustr := fst r ++ 44 :: snd r ++ [10].
Definition out_text (out : list (ustr * ustr)) : ustr := concat (map record_text out).

(* a sequence of found_host calls (as made by the scanners below) *)
Fixpoint found_hosts (T : utables) (st : hw_state) (calls : list (ustr * ustr)) : fh_result :=
  match calls with
  | [] => FhOk st []
  | (n, i) :: tl =>
    match found_host T FH_FUEL st n i with
    | FhFuel => FhFuel
    | FhOk st1 o1 =>
      match found_hosts T st1 tl with
      | FhFuel => FhFuel
      | FhOk st2 o2 => FhOk st2 (o1 ++ o2)
      end
    end
  end.

(* --- str helpers on code points --- *)
Fixpoint usplit_on (sep : N) (s : ustr) : list ustr :=
  match s with
  | [] => [[]]
  | c :: tl =>
    if c =? sep then [] :: usplit_on sep tl
    else match usplit_on sep tl with
         | w :: ws => (c :: w) :: ws
         | [] => [[c]]
         end
  end.

Fixpoint uws_split (sp : N -> bool) (s : ustr) : list ustr :=
  match s with
  | [] => []
  | c :: tl =>
    if sp c then uws_split sp tl
    else match tl with
         | [] => [[c]]
         | d :: _ =>
           if sp d then [c] :: uws_split sp tl
           else match uws_split sp tl with
                | w :: ws => (c :: w) :: ws
                | [] => [[c]]
                end
         end
  end.

Fixpoint ulstrip (sp : N -> bool) (s : ustr) : ustr :=
  match s with
  | [] => []
  | c :: tl => if sp c then ulstrip sp tl else s
  end.

Fixpoint urstrip (sp : N -> bool) (s : ustr) : ustr :=
  match s with
  | [] => []
  | c :: tl =>
    match urstrip sp tl with
    | [] => if sp c then [] else [c]
    | r => c :: r
    end
  end.

Definition ustrip (sp : N -> bool) (s : ustr) : ustr := urstrip sp (ulstrip sp s).

(* text-mode reading: universal newlines, then iteration by lines (each keeps its '\n') *)
Fixpoint univ_nl (s : ustr) : ustr :=
  match s with
  | [] => []
  | c :: tl =>
    if c =? 13 then
      match tl with
      | d :: _ => if d =? 10 then univ_nl tl else 10 :: univ_nl tl
      | [] => [10]
      end
    else c :: univ_nl tl
  end.

Fixpoint text_lines (s : ustr) : list ustr :=
  match s with
  | [] => []
  | c :: tl =>
    if c =? 10 then [c] :: text_lines tl
    else match text_lines tl with
         | l :: ls => (c :: l) :: ls
         | [] => [[c]]
         end
  end.

(* _is_ip: re.match(r'\d+\.\d+\.\d+\.\d+$', s); `$` also matches before a final '\n' *)
Fixpoint all_digits (T : utables) (s : ustr) : bool :=
  match s with
  | [] => false
  | [c] => udg T c
  | c :: tl => udg T c && all_digits T tl
  end.

Definition is_ip (T : utables) (s : ustr) : bool :=
  let s' := match rev s with
            | 10 :: r => rev r          (* one trailing newline is tolerated by `$` *)
            | _ => s
            end in
  match usplit_on 46 s' with
  | [a; b; c; d] => all_digits T a && all_digits T b && all_digits T c && all_digits T d
  | _ => false
  end.

(* hostwatch.py:77-85, the body of read_host_cache's loop: the found_host calls it makes *)
Definition cache_line_call (T : utables) (line : ustr) : list (ustr * ustr) :=
  match usplit_on 44 (ustrip (usp T) line) with
  | [name; ip] =>
    let name' := ustrip (usp T) (sanitise T 45 name) in
    let ip' := ustrip (usp T) (filter ipchN ip) in
    match name', ip' with
    | _ :: _, _ :: _ => [(name', ip')]
    | _, _ => []
    end
  | _ => []
  end.

Definition cache_calls (T : utables) (content : ustr) : list (ustr * ustr) :=
  flat_map (cache_line_call T) (text_lines (univ_nl content)).

(* write_host_cache encodes every name and address with .encode("ASCII") *)
Definition st_ascii (st : hw_state) : bool :=
  forallb (fun e => forallb (fun c => c <? 128) (fst e) && forallb (fun c => c <? 128) (snd e)) st.

Inductive scan_result :=
| ScanOk (st : hw_state) (out : list (ustr * ustr))
| ScanCrash (out : list (ustr * ustr))          (* UnicodeEncodeError in write_host_cache *)
| ScanFuel.

(* read_host_cache on an existing cache file with the given (decoded) content.
   As found, write_host_cache's .encode("ASCII") raised UnicodeEncodeError for a
   non-ASCII entry and hostwatch died (F25). *)
Definition read_host_cache_asfound (T : utables) (st : hw_state) (content : ustr) : scan_result :=
  match found_hosts T st (cache_calls T content) with
  | FhFuel => ScanFuel
  | FhOk st' out =>
    match out with
    | [] => ScanOk st' out                              (* SHOULD_WRITE_CACHE stays False *)
    | _ :: _ => if st_ascii st' then ScanOk st' out else ScanCrash out
    end
  end.

(* repaired (pending_fixes/F24_F25.diff): UnicodeError is handled like the other
   cache-write failures (logged, cache not rewritten), so the scan goes on *)
Definition read_host_cache (T : utables) (st : hw_state) (content : ustr) : scan_result :=
  match found_hosts T st (cache_calls T content) with
  | FhFuel => ScanFuel
  | FhOk st' out => ScanOk st' out
  end.

(* hostwatch.py:121-132 _check_etc_hosts: re.sub(r'#.*', '', line), split(), _is_ip(words[0]) *)
Fixpoint cut_comment_aux (skipping : bool) (s : ustr) : ustr :=
  match s with
  | [] => []
  | c :: tl =>
    if skipping then (if c =? 10 then c :: cut_comment_aux false tl else cut_comment_aux true tl)
    else if c =? 35 then cut_comment_aux true tl
    else c :: cut_comment_aux false tl
  end.

Definition etc_line_calls (T : utables) (line : ustr) : list (ustr * ustr) :=
  match uws_split (usp T) (ustrip (usp T) (cut_comment_aux false line)) with
  | [] => []
  | ip :: names => if is_ip T ip then map (fun n => (n, ip)) names else []
  end.

Definition etc_calls (T : utables) (content : ustr) : list (ustr * ustr) :=
  flat_map (etc_line_calls T) (text_lines (univ_nl content)).

Definition check_etc_hosts (T : utables) (st : hw_state) (content : ustr) : scan_result :=
  match found_hosts T st (etc_calls T content) with
  | FhFuel => ScanFuel
  | FhOk st' out => ScanOk st' out
  end.

(* what the socket carries: sys.stdout encodes in UTF-8 (assumed remote locale) *)
Definition utf8_char (c : N) : bytes :=
  if c <? 128 then [ascii_of_N c]
  else if c <? 2048 then [ascii_of_N (192 + c / 64); ascii_of_N (128 + c mod 64)]
  else if c <? 65536 then
    [ascii_of_N (224 + c / 4096); ascii_of_N (128 + (c / 64) mod 64); ascii_of_N (128 + c mod 64)]
  else
    [ascii_of_N (240 + c / 262144); ascii_of_N (128 + (c / 4096) mod 64);
     ascii_of_N (128 + (c / 64) mod 64); ascii_of_N (128 + c mod 64)].

Definition utf8 (s : ustr) : bytes := flat_map utf8_char s.

Definition ascii_tables : utables :=
  mkTables (fun _ => false) (fun _ => false) (fun _ => false).
