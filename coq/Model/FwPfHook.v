(* Model/FwPfHook.v — C03, pf: the COMPLETE packet-filter state.

   pf.py loads its rules into the anchor "sshuttle-<port>" / "sshuttle6-<port>"
   (pf.py:148-151, 449-451).  pf evaluates the rules of an anchor only where the
   MAIN ruleset calls it (pf.conf(5), ANCHORS): the anchor's translation rules
   (`rdr ...`) at an `rdr-anchor "<name>"` statement, its filter rules
   (`pass ...`) at an `anchor "<name>"` statement — and only while pf is
   enabled.  OpenBSD has filter rules only (no rdr-anchor; pf.py:275-281).
   pf.py adds the missing statements with one ioctl each (add_anchors,
   pf.py:113-118, 196-200) and never removes them, so the main ruleset the
   set-up finds may hold both, one or none of them.  `pf_hook` is what the main
   ruleset holds for the session's anchor AFTER the set-up; the kernel model of
   C04 (Model/FwLife.v pf_calls / pf_enabled) is where the harness reads it. *)
From Coq Require Import List NArith Bool.
From SV Require Import Lib.Bytes Model.FwRules Model.FwWalk.
Import ListNotations.

Record pf_hook := mkHook {
  h_enabled : bool;      (* pf enabled (-e, or an outstanding -E token) *)
  h_rdr : bool;          (* main ruleset has  rdr-anchor "<name>" *)
  h_pass : bool          (* main ruleset has  anchor "<name>"     *)
}.

Definition hook_all : pf_hook := mkHook true true true.

Definition is_tbl_line (l : pf_line) : bool :=
  match l with PTable _ => true | _ => false end.
Definition is_translation_line (l : pf_line) : bool :=
  match l with PRdrTcp _ _ _ | PRdrDns _ _ => true | _ => false end.

(* is this line of the anchor ever evaluated?  (a table definition is loaded
   with the anchor; it decides nothing by itself) *)
Definition line_evaluated (os : pf_os) (h : pf_hook) (l : pf_line) : bool :=
  is_tbl_line l ||
  (h_enabled h &&
   match os with
   | FreeBsd => if is_translation_line l then h_rdr h else h_pass h
   | OpenBsd => h_pass h
   end).

Definition pf_effective (os : pf_os) (h : pf_hook) (ls : list pf_line) : list pf_line :=
  filter (line_evaluated os h) ls.

(* verdict of the complete state: main ruleset's calls + enable state + anchor *)
Definition pf_state_verdict_of (os : pf_os) (h : pf_hook) (ls : list pf_line) (p : pkt) : verdict :=
  pf_verdict_of os (pf_effective os h ls) p.
