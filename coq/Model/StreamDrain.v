(* Model/StreamDrain.v — the eager drain of the stream core: executable
   definitions only (the theorems are in Proofs/Stream_drain.v).

   mu       a natural-number variant: every micro-step the eager scheduler takes
            makes it strictly smaller.
   sched    the scheduler: which micro-step the two loops take next when the
            environment never makes them wait and offers no new input
            (flush queues first, then dispatch frames, then run a handler whose
            connect is pending / whose pre_select queues STOP_SENDING / one of
            whose wait-set descriptors is ready).
   drain    iterate sched (fuel-bounded).                                       *)
From Coq Require Import List NArith Ascii Bool.
From SV Require Import Lib.Bytes Model.Wire Model.Chan Model.Stream Model.StreamQuiet.
Import ListNotations.
Local Open Scope N_scope.

(* the answers of the eager environment: connect completes, recv has nothing
   (EAGAIN), send takes everything offered, shutdown succeeds *)
Definition eio : io := mkIO ConnDone RecvAgain (SendAccept 65536) true.

(* ---------------- the variant ---------------- *)
(* a buffer of chunks: c per byte, 1 per chunk *)
Definition bufw (c : N) (l : list bytes) : N := fold_right (fun b a => c * lenN b + 1 + a) 0 l.

(* what a mux wrapper may still emit: one EOF, one STOP_SENDING *)
Definition pot (m : muxw) : N := (if m_sw m then 0 else 5) + (if m_sr m then 0 else 5).

Definition pw (p : proxy) : N :=
  bufw 10 (s_buf (p_s p)) + bufw 1 (m_buf (p_m p)) + pot (p_m p) + (if s_conn (p_s p) then 1 else 0).

Definition opw (o : option proxy) : N := match o with Some p => pw p | None => 0 end.

Definition sumw (f : N -> option proxy) (l : list N) : N := fold_right (fun g a => opw (f g) + a) 0 l.

(* a frame on a link; a PING carries the weight of the PONG it will cause, a CONNECT
   that of the handler it will create *)
Definition fwl (f : sframe) : N :=
  2 + 5 * lenN (sf_data f) +
  match sf_cmd f with CPing => 5 + 5 * lenN (sf_data f) | CConnect => 10 | _ => 0 end.
(* a frame in a queue has one more hop to go *)
Definition fwq (f : sframe) : N := fwl f + 2.

Definition lw (l : list sframe) : N := fold_right (fun f a => fwl f + a) 0 l.
Definition qw (l : list sframe) : N := fold_right (fun f a => fwq f + a) 0 l.

Definition ew (e : endpt) : N := qw (x_out (e_mux e)) + sumw (e_prox e) (fids e).

Definition mu (w : world) : N := ew (w_cl w) + ew (w_sv w) + lw (w_cs w) + lw (w_sc w).

(* ---------------- the scheduler ---------------- *)
(* what the loop does next with handler fid, if anything *)
Definition busy (sd : side) (fid : N) (p : proxy) (x : mux) : option event :=
  if negb (active p) then None
  else if s_conn (p_s p) then Some (EvCallback sd fid eio)
  else if s_sw (p_s p) && negb (m_sr (p_m p)) then Some (EvPreSelect sd fid)
  else if proxy_quiet sd fid p x then None
  else Some (EvCallback sd fid eio).

Fixpoint first_busy (sd : side) (e : endpt) (l : list N) : option event :=
  match l with
  | [] => None
  | fid :: tl =>
    match e_prox e fid with
    | Some p => match busy sd fid p (e_mux e) with Some ev => Some ev | None => first_busy sd e tl end
    | None => first_busy sd e tl
    end
  end.

Definition sched (w : world) : option event :=
  match x_out (e_mux (w_cl w)), x_out (e_mux (w_sv w)), w_cs w, w_sc w with
  | _ :: _, _, _, _ => Some (EvFlush Client)
  | [], _ :: _, _, _ => Some (EvFlush Server)
  | [], [], _ :: _, _ => Some (EvDeliver Server eio)
  | [], [], [], _ :: _ => Some (EvDeliver Client eio)
  | [], [], [], [] =>
    match first_busy Client (w_cl w) (fids (w_cl w)) with
    | Some ev => Some ev
    | None => first_busy Server (w_sv w) (fids (w_sv w))
    end
  end.

(* the schedule the eager loops follow from w (stops when nothing is left to do, at a
   stale delivery, or — never, see Stream_drain.sched_no_crash — at a crash) *)
Fixpoint drain (fuel : nat) (w : world) : list event :=
  match fuel with
  | O => []
  | S n =>
    if w_stale w then []
    else match sched w with
         | None => []
         | Some ev => match step w ev with Ok w' => ev :: drain n w' | Crash _ => [] end
         end
  end.
