(* Model/Stream.v — executable micro-step model of the TCP stream core of
   sshuttle/ssnet.py (SockWrapper, MuxWrapper, Proxy, Mux dispatch, latency
   control), client.onaccept_tcp and server.new_channel.
   Links between the two Mux objects are FIFOs of frames (C07 proves that the
   byte-level link refines this).  Every frame and every proxy carries a ghost
   flow-incarnation number `fid` that the behaviour never looks at.
   Definitions only; proofs are in Proofs/Stream_*.v.                         *)
From Coq Require Import List NArith Ascii Bool.
From Coq Require String.
From SV Require Import Lib.Bytes Model.Wire Model.Chan.
Import ListNotations.
Local Open Scope N_scope.

(* ---------------- commands ---------------- *)
Inductive scmd := CPing | CPong | CConnect | CStop | CEof | CData | COther (code : N).

Record sframe := mkSF { sf_ch : N; sf_cmd : scmd; sf_data : bytes; sf_fid : option N }.

(* ---------------- I/O outcomes (the environment's answers) ---------------- *)
Inductive errclass :=
| EInProgress      (* EINPROGRESS / EALREADY                     *)
| EConnected       (* 0 / EISCONN                                 *)
| ENet             (* NET_ERRS + EACCES + EPERM                   *)
| EPipe
| EOtherErr.       (* any other errno                             *)

Inductive conn_out := ConnDone | ConnErr (e : errclass).
Inductive recv_out := RecvData (b : bytes) | RecvEof | RecvAgain | RecvErr.
Inductive send_out := SendAccept (k : N) | SendAgain | SendErr (e : errclass).

Record io := mkIO { io_conn : conn_out; io_recv : recv_out; io_send : send_out; io_shut_ok : bool }.

(* ---------------- wrappers ---------------- *)
Record sockw := mkSock {
  s_conn : bool;            (* connect_to is set                      *)
  s_sr : bool; s_sw : bool; (* shut_read / shut_write                 *)
  s_buf : list bytes;
  s_exc : bool;             (* exc is set                             *)
  s_rd : bytes;             (* ghost: every byte recv() returned      *)
  s_wr : bytes;             (* ghost: every byte send() accepted      *)
  s_fault : bool            (* ghost: some socket call of this flow end returned an error *)
}.

Record muxw := mkMuxw { m_chan : N; m_sr : bool; m_sw : bool; m_buf : list bytes }.

Record proxy := mkProxy { p_ok : bool; p_removed : bool; p_s : sockw; p_m : muxw }.

Record mux := mkMux {
  x_out : list sframe;            (* outbuf, as frames                    *)
  x_chan : N -> option N;         (* channels: chan -> registered fid     *)
  x_chani : N;
  x_full : N;                     (* fullness                             *)
  x_too_full : bool
}.

Inductive side := Client | Server.

Record endpt := mkEnd { e_mux : mux; e_prox : N -> option proxy; e_next : N (* proxies created so far *) }.

Record world := mkWorld {
  w_cl : endpt; w_sv : endpt;
  w_cs : list sframe;             (* written by the client, not yet handled by the server *)
  w_sc : list sframe;
  w_maxc : N;                     (* ssnet.MAX_CHANNEL *)
  w_lbs : N;                      (* ssnet.LATENCY_BUFFER_SIZE *)
  w_stale : bool                  (* ghost: a frame reached a wrapper of another incarnation *)
}.

Inductive crash := CrAssertConnect | CrReraise | CrUnknownCmd | CrBadEvent.
Inductive result (A : Type) := Ok (a : A) | Crash (c : crash).
Arguments Ok {A} a.
Arguments Crash {A} c.

(* ---------------- Mux.send ---------------- *)
Definition mux_send (x : mux) (ch : N) (cmd : scmd) (data : bytes) (fid : option N) : mux :=
  mkMux (x_out x ++ [mkSF ch cmd data fid]) (x_chan x) (x_chani x)
        (x_full x + lenN data) (x_too_full x).

Definition upd {A} (m : N -> A) (k : N) (v : A) : N -> A :=
  fun j => if j =? k then v else m j.

Definition mux_set_chan (x : mux) (c : N) (v : option N) : mux :=
  mkMux (x_out x) (upd (x_chan x) c v) (x_chani x) (x_full x) (x_too_full x).

(* ---------------- SockWrapper ---------------- *)
Definition s_noread (s : sockw) : sockw :=
  mkSock (s_conn s) true (s_sw s) (s_buf s) (s_exc s) (s_rd s) (s_wr s) (s_fault s).

(* nowrite(): shut_write = True; shutdown(SHUT_WR); on failure seterr (exc, noread) *)
Definition s_nowrite (s : sockw) (shut_ok : bool) : sockw :=
  if s_sw s then s
  else if shut_ok then mkSock (s_conn s) (s_sr s) true (s_buf s) (s_exc s) (s_rd s) (s_wr s) (s_fault s)
  else mkSock (s_conn s) true true (s_buf s) true (s_rd s) (s_wr s) true.

Definition s_seterr (s : sockw) (shut_ok : bool) : sockw :=
  let s1 := mkSock (s_conn s) (s_sr s) (s_sw s) (s_buf s) true (s_rd s) (s_wr s) true in
  s_noread (s_nowrite s1 shut_ok).

Definition s_set_conn (s : sockw) (c : bool) : sockw :=
  mkSock c (s_sr s) (s_sw s) (s_buf s) (s_exc s) (s_rd s) (s_wr s) (s_fault s).

Definition s_try_connect (s : sockw) (o : conn_out) (shut_ok : bool) : result sockw :=
  let s := if s_conn s && s_sw s then s_set_conn (s_noread s) false else s in
  if negb (s_conn s) then Ok s
  else match o with
       | ConnDone => Ok (s_set_conn s false)
       | ConnErr EInProgress => Ok s
       | ConnErr EConnected => Ok (s_set_conn s false)
       | ConnErr ENet => Ok (s_seterr (s_set_conn s false) shut_ok)
       | ConnErr _ => Crash CrReraise
       end.

Definition s_fill (s : sockw) (o : recv_out) (shut_ok : bool) : sockw :=
  match s_buf s with
  | _ :: _ => s
  | [] =>
    if s_conn s then s
    else if s_sr s then s
    else match o with
         | RecvData [] => s_noread s                       (* recv returned b'': EOF *)
         | RecvData b => mkSock (s_conn s) (s_sr s) (s_sw s) [b] (s_exc s) (s_rd s ++ b) (s_wr s) (s_fault s)
         | RecvEof => s_noread s
         | RecvAgain => s
         | RecvErr => s_noread (s_seterr s shut_ok)
         end
  end.

(* uwrite(buf): returns the new wrapper and the number of bytes taken *)
Definition s_uwrite (s : sockw) (b : bytes) (o : send_out) (shut_ok : bool) : sockw * N :=
  if s_conn s then (s, 0)
  else
    let o := if s_sw s then match o with SendAccept _ => SendErr EPipe | _ => o end else o in
    match o with
    | SendAccept k =>
      let w := N.min k (lenN b) in
      (mkSock (s_conn s) (s_sr s) (s_sw s) (s_buf s) (s_exc s) (s_rd s) (s_wr s ++ takeN w b) (s_fault s), w)
    | SendAgain => (s, 0)
    | SendErr EPipe =>
      (s_nowrite (mkSock (s_conn s) (s_sr s) (s_sw s) (s_buf s) (s_exc s) (s_rd s) (s_wr s) true) shut_ok, 0)
    | SendErr _ => (s_seterr s shut_ok, 0)
    end.

(* ---------------- MuxWrapper ---------------- *)
Definition m_maybe_close (m : muxw) (x : mux) : mux :=
  if m_sr m && m_sw m then mux_set_chan x (m_chan m) None else x.

Definition m_setnoread (m : muxw) (x : mux) : muxw * mux :=
  if m_sr m then (m, x)
  else let m' := mkMuxw (m_chan m) true (m_sw m) (m_buf m) in (m', m_maybe_close m' x).

Definition m_setnowrite (m : muxw) (x : mux) : muxw * mux :=
  if m_sw m then (m, x)
  else let m' := mkMuxw (m_chan m) (m_sr m) true (m_buf m) in (m', m_maybe_close m' x).

Definition m_noread (m : muxw) (x : mux) (fid : N) : muxw * mux :=
  if m_sr m then (m, x) else m_setnoread m (mux_send x (m_chan m) CStop [] (Some fid)).

Definition m_nowrite (m : muxw) (x : mux) (fid : N) : muxw * mux :=
  if m_sw m then (m, x) else m_setnowrite m (mux_send x (m_chan m) CEof [] (Some fid)).

Definition m_uwrite (m : muxw) (x : mux) (fid : N) (b : bytes) : mux * N :=
  if x_too_full x then (x, 0)
  else let d := takeN 2048 b in (mux_send x (m_chan m) CData d (Some fid), lenN d).

Definition m_got_packet (m : muxw) (x : mux) (cmd : scmd) (data : bytes) : result (muxw * mux) :=
  match cmd with
  | CEof => Ok (m_setnoread m x)
  | CStop => Ok (m_setnowrite m x)
  | CData => Ok (mkMuxw (m_chan m) (m_sr m) (m_sw m) (m_buf m ++ [data]), x)
  | _ => Crash CrUnknownCmd
  end.

(* ---------------- copy_to ---------------- *)
Definition advance (buf : list bytes) (wrote : N) : list bytes :=
  match buf with
  | b :: rest => drop_empty (dropN wrote b :: rest)
  | [] => []
  end.

(* SockWrapper.copy_to(MuxWrapper) *)
Definition copy_s_to_m (s : sockw) (m : muxw) (x : mux) (fid : N) : sockw * muxw * mux :=
  let '(buf', x1) :=
    match s_buf s with
    | (a :: b0) :: rest => let '(x1, w) := m_uwrite m x fid (a :: b0) in (advance (s_buf s) w, x1)
    | _ => (drop_empty (s_buf s), x)
    end in
  let s' := mkSock (s_conn s) (s_sr s) (s_sw s) buf' (s_exc s) (s_rd s) (s_wr s) (s_fault s) in
  match buf' with
  | [] => if s_sr s then let '(m', x2) := m_nowrite m x1 fid in (s', m', x2) else (s', m, x1)
  | _ => (s', m, x1)
  end.

(* MuxWrapper.copy_to(SockWrapper) *)
Definition copy_m_to_s (m : muxw) (s : sockw) (o : send_out) (shut_ok : bool) : muxw * sockw :=
  let '(buf', s1) :=
    match m_buf m with
    | (a :: b0) :: rest => let '(s1, w) := s_uwrite s (a :: b0) o shut_ok in (advance (m_buf m) w, s1)
    | _ => (drop_empty (m_buf m), s)
    end in
  let m' := mkMuxw (m_chan m) (m_sr m) (m_sw m) buf' in
  match buf' with
  | [] => if m_sr m then (m', s_nowrite s1 shut_ok) else (m', s1)
  | _ => (m', s1)
  end.

Definition nonempty_buf (b : list bytes) : bool := match b with [] => false | _ => true end.

(* ---------------- Proxy.callback ---------------- *)
Definition proxy_callback (sd : side) (fid : N) (p : proxy) (x : mux) (o : io)
  : result (proxy * mux) :=
  match s_try_connect (p_s p) (io_conn o) (io_shut_ok o) with
  | Crash c => Crash c
  | Ok s0 =>
    let s1 := s_fill s0 (io_recv o) (io_shut_ok o) in
    let m0 := p_m p in
    (* the two copies, in the order wrap1->wrap2 then wrap2->wrap1 *)
    let '(s2, m2, x2) :=
      match sd with
      | Client =>
        let '(sa, ma, xa) := copy_s_to_m s1 m0 x fid in
        let '(mb, sb) := copy_m_to_s ma sa (io_send o) (io_shut_ok o) in (sb, mb, xa)
      | Server =>
        let '(ma, sa) := copy_m_to_s m0 s1 (io_send o) (io_shut_ok o) in
        let '(sb, mb, xb) := copy_s_to_m sa ma x fid in (sb, mb, xb)
      end in
    (* "peer cannot be written: drop buf, noread" rules (they commute) *)
    let s3 := if nonempty_buf (s_buf s2) && m_sw m2
              then s_noread (mkSock (s_conn s2) (s_sr s2) (s_sw s2) [] (s_exc s2) (s_rd s2) (s_wr s2) (s_fault s2))
              else s2 in
    let '(m3, x3) := if nonempty_buf (m_buf m2) && s_sw s2
                     then m_noread (mkMuxw (m_chan m2) (m_sr m2) (m_sw m2) []) x2 fid
                     else (m2, x2) in
    (* finished? *)
    if s_sr s3 && m_sr m3 && negb (nonempty_buf (s_buf s3)) && negb (nonempty_buf (m_buf m3))
    then
      let s4 := s_nowrite s3 (io_shut_ok o) in
      let '(m4, x4) := m_nowrite m3 x3 fid in
      Ok (mkProxy false (p_removed p) s4 m4, x4)
    else Ok (mkProxy (p_ok p) (p_removed p) s3 m3, x3)
  end.

(* ---------------- Proxy.pre_select ---------------- *)
Inductive waitfd := WSockR | WSockW | WMuxR | WMuxW.

Definition proxy_pre_select (sd : side) (fid : N) (p : proxy) (x : mux)
  : proxy * mux * list waitfd :=
  let s := p_s p in let m := p_m p in
  (* if wrap1.shut_write: wrap2.noread(); if wrap2.shut_write: wrap1.noread() *)
  let '(m1, x1) := if s_sw s then m_noread m x fid else (m, x) in
  let s1 := if m_sw m then s_noread s else s in
  let ws :=
    if s_conn s1 then [WSockW]
    else if nonempty_buf (s_buf s1) then (if x_too_full x1 then [] else [WMuxW])
    else if negb (s_sr s1) then [WSockR] else [] in
  let wm :=
    if nonempty_buf (m_buf m1) then [WSockW]
    else if negb (m_sr m1) then [WMuxR] else [] in
  (mkProxy (p_ok p) (p_removed p) s1 m1, x1,
   match sd with Client => ws ++ wm | Server => wm ++ ws end).

(* ---------------- construction ---------------- *)
Definition new_sock (connecting : bool) : sockw := mkSock connecting false false [] false [] [] false.
Definition new_muxw (c : N) : muxw := mkMuxw c false false [].

Definition occ (x : mux) (c : N) : bool := match x_chan x c with Some _ => true | None => false end.

Definition set_chani (x : mux) (c : N) : mux :=
  mkMux (x_out x) (x_chan x) c (x_full x) (x_too_full x).

(* client.onaccept_tcp after accept() and the self-address guard *)
Definition client_accept (e : endpt) (maxc : N) (payload : bytes) : endpt :=
  let x := e_mux e in
  let '(r, chani') := next_channel maxc (occ x) (x_chani x) in
  let x := set_chani x chani' in
  match r with
  | None => mkEnd x (e_prox e) (e_next e)            (* "too many open channels": socket closed *)
  | Some c =>
    let fid := e_next e in
    let x := mux_send x c CConnect payload (Some fid) in
    let x := mux_set_chan x c (Some fid) in
    mkEnd x (upd (e_prox e) fid (Some (mkProxy true false (new_sock false) (new_muxw c)))) (fid + 1)
  end.

(* server.new_channel: connect_dst (socket + first try_connect) then MuxWrapper *)
Definition server_new_channel (e : endpt) (c : N) (o : io) : result endpt :=
  match s_try_connect (new_sock true) (io_conn o) (io_shut_ok o) with
  | Crash cr => Crash cr
  | Ok s =>
    let fid := e_next e in
    let x := mux_set_chan (e_mux e) c (Some fid) in
    Ok (mkEnd x (upd (e_prox e) fid (Some (mkProxy true false s (new_muxw c)))) (fid + 1))
  end.

(* ---------------- Mux.got_packet ---------------- *)
Definition set_prox (e : endpt) (fid : N) (p : proxy) (x : mux) : endpt :=
  mkEnd x (upd (e_prox e) fid (Some p)) (e_next e).

Definition same_fid (a : option N) (b : N) : bool :=
  match a with Some f => f =? b | None => false end.

(* returns the new end point and whether the delivery was stale *)
Definition mux_got_packet (sd : side) (e : endpt) (f : sframe) (o : io) : result (endpt * bool) :=
  let x := e_mux e in
  match sf_cmd f with
  | CPing => Ok (mkEnd (mux_send x 0 CPong (sf_data f) None) (e_prox e) (e_next e), false)
  | CPong => Ok (mkEnd (mkMux (x_out x) (x_chan x) (x_chani x) 0 false) (e_prox e) (e_next e), false)
  | CConnect =>
    if occ x (sf_ch f) then Crash CrAssertConnect
    else match sd with
         | Client => Ok (e, false)                       (* new_channel is None on the client *)
         | Server =>
           match server_new_channel e (sf_ch f) o with
           | Crash c => Crash c
           | Ok e' => Ok (e', negb (same_fid (sf_fid f) (e_next e)))
           end
         end
  | cmd =>
    match x_chan x (sf_ch f) with
    | None => Ok (e, false)                               (* "warning: closed channel ... got cmd" *)
    | Some fid =>
      match e_prox e fid with
      | None => Crash CrBadEvent                          (* unreachable: registered wrappers exist *)
      | Some p =>
        match m_got_packet (p_m p) x cmd (sf_data f) with
        | Crash c => Crash c
        | Ok (m', x') =>
          Ok (set_prox e fid (mkProxy (p_ok p) (p_removed p) (p_s p) m') x',
              negb (same_fid (sf_fid f) fid))
        end
      end
    end
  end.

(* ---------------- check_fullness ---------------- *)
Definition rttest : bytes := [ascii_of_N 114; ascii_of_N 116; ascii_of_N 116; ascii_of_N 101; ascii_of_N 115; ascii_of_N 116].

Definition check_fullness (x : mux) (lbs : N) : mux :=
  if lbs <? x_full x then
    let x1 := if x_too_full x then x else mux_send x 0 CPing rttest None in
    mkMux (x_out x1) (x_chan x1) (x_chani x1) (x_full x1) true
  else x.

(* ---------------- events (micro-steps) ---------------- *)
Inductive event :=
| EvAccept (payload : bytes)                  (* client: a captured connection arrives *)
| EvCallback (sd : side) (fid : N) (o : io)   (* Proxy.callback                         *)
| EvPreSelect (sd : side) (fid : N)           (* Proxy.pre_select                       *)
| EvFlush (sd : side)                         (* Mux.flush completes one frame          *)
| EvDeliver (sd : side) (o : io)              (* Mux.handle dispatches the next frame at sd *)
| EvCheckFull (sd : side)                     (* mux.check_fullness()                   *)
| EvRemove (sd : side) (fid : N).             (* runonce drops a handler with ok = False *)

Definition get_end (w : world) (sd : side) : endpt := match sd with Client => w_cl w | Server => w_sv w end.

Definition set_end (w : world) (sd : side) (e : endpt) : world :=
  match sd with
  | Client => mkWorld e (w_sv w) (w_cs w) (w_sc w) (w_maxc w) (w_lbs w) (w_stale w)
  | Server => mkWorld (w_cl w) e (w_cs w) (w_sc w) (w_maxc w) (w_lbs w) (w_stale w)
  end.

Definition set_mux (e : endpt) (x : mux) : endpt := mkEnd x (e_prox e) (e_next e).

Definition live (p : proxy) : bool := negb (p_removed p).

Definition step (w : world) (ev : event) : result world :=
  match ev with
  | EvAccept payload => Ok (set_end w Client (client_accept (w_cl w) (w_maxc w) payload))
  | EvCallback sd fid o =>
    let e := get_end w sd in
    match e_prox e fid with
    | Some p =>
      if live p then
        match proxy_callback sd fid p (e_mux e) o with
        | Crash c => Crash c
        | Ok (p', x') => Ok (set_end w sd (set_prox e fid p' x'))
        end
      else Crash CrBadEvent
    | None => Crash CrBadEvent
    end
  | EvPreSelect sd fid =>
    let e := get_end w sd in
    match e_prox e fid with
    | Some p =>
      if live p then
        let '(p', x', _) := proxy_pre_select sd fid p (e_mux e) in
        Ok (set_end w sd (set_prox e fid p' x'))
      else Crash CrBadEvent
    | None => Crash CrBadEvent
    end
  | EvFlush sd =>
    let e := get_end w sd in
    let x := e_mux e in
    match x_out x with
    | [] => Ok w
    | f :: rest =>
      let x' := mkMux rest (x_chan x) (x_chani x) (x_full x) (x_too_full x) in
      let w1 := set_end w sd (set_mux e x') in
      Ok (match sd with
          | Client => mkWorld (w_cl w1) (w_sv w1) (w_cs w1 ++ [f]) (w_sc w1) (w_maxc w1) (w_lbs w1) (w_stale w1)
          | Server => mkWorld (w_cl w1) (w_sv w1) (w_cs w1) (w_sc w1 ++ [f]) (w_maxc w1) (w_lbs w1) (w_stale w1)
          end)
    end
  | EvDeliver sd o =>
    let inq := match sd with Client => w_sc w | Server => w_cs w end in
    match inq with
    | [] => Ok w
    | f :: rest =>
      match mux_got_packet sd (get_end w sd) f o with
      | Crash c => Crash c
      | Ok (e', stale) =>
        let w1 := set_end w sd e' in
        Ok (match sd with
            | Client => mkWorld (w_cl w1) (w_sv w1) (w_cs w1) rest (w_maxc w1) (w_lbs w1) (w_stale w1 || stale)
            | Server => mkWorld (w_cl w1) (w_sv w1) rest (w_sc w1) (w_maxc w1) (w_lbs w1) (w_stale w1 || stale)
            end)
      end
    end
  | EvCheckFull sd =>
    let e := get_end w sd in
    Ok (set_end w sd (set_mux e (check_fullness (e_mux e) (w_lbs w))))
  | EvRemove sd fid =>
    let e := get_end w sd in
    match e_prox e fid with
    | Some p =>
      if negb (p_ok p) && live p
      then Ok (set_end w sd (set_prox e fid (mkProxy (p_ok p) true (p_s p) (p_m p)) (e_mux e)))
      else Crash CrBadEvent
    | None => Crash CrBadEvent
    end
  end.

Fixpoint run (w : world) (evs : list event) : result world :=
  match evs with
  | [] => Ok w
  | ev :: rest => match step w ev with Ok w' => run w' rest | Crash c => Crash c end
  end.

Definition chicken : bytes := [ascii_of_N 99; ascii_of_N 104; ascii_of_N 105; ascii_of_N 99; ascii_of_N 107; ascii_of_N 101; ascii_of_N 110].

(* Mux.__init__ queues PING 'chicken' *)
Definition mux0 : mux := mkMux [mkSF 0 CPing chicken None] (fun _ => None) 0 (lenN chicken) false.
Definition end0 : endpt := mkEnd mux0 (fun _ => None) 0.
Definition world0 (maxc lbs : N) : world := mkWorld end0 end0 [] [] maxc lbs false.
