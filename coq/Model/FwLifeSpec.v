(* Model/FwLifeSpec.v — specification-side definitions for the general C04
   theorems (Proofs/FwLife_general.v).  Definitions only.

   1. a generic "abstract machine" program language mirroring
      Model/FwLife.v's Do / Try / IfChain and its runner;
   2. the abstract state of ONE family's own iptables objects (up to three
      own chains, the number of own hook rules in OUTPUT and PREROUTING) and
      the effect of the helper's commands on it;
   3. the abstract programs of nat / tproxy restore and set-up;
   4. the abstract state of one family's own nft table. *)
From Coq Require Import String List NArith ZArith Ascii Bool Arith.
From SV Require Import Lib.Bytes Model.FwLife.
Import ListNotations.

(* the external commands of an event list, in order (same selection as
   FwLife_lemmas.nth_cmd: the pf ioctl pair is not an external command) *)
Fixpoint cmds_of (evs : list event) : list cmd :=
  match evs with
  | [] => []
  | ECmd (Pf (PAddCall _ _)) _ _ :: r => cmds_of r
  | ECmd c _ _ :: r => c :: cmds_of r
  | EMark _ :: r => cmds_of r
  end.

(* ------------------------------------------------------------------ *)
(* 1. generic abstract programs                                          *)

Section Machine.
Variables (ST AC TS : Type).
Variable aexec : AC -> ST -> option ST.   (* None = the command exits non-zero *)
Variable atest : TS -> ST -> bool.        (* ipt_chain_exists *)
Variable conc : AC -> cmd.
Variable tfam : TS -> fam.
Variable ttbl : TS -> tbl.
Variable tname : TS -> tok.

Inductive asstep := ADo (c : AC) | ATry (c : AC).
Inductive astep := ASimple (x : asstep) | AIf (t : TS) (body : list asstep).

Definition comp_ss (x : asstep) : sstep :=
  match x with ADo c => Do (conc c) | ATry c => Try (conc c) end.
Definition comp (x : astep) : step :=
  match x with
  | ASimple y => Simple (comp_ss y)
  | AIf t body => IfChain (tfam t) (ttbl t) (tname t) (map comp_ss body)
  end.
Definition tcmd (t : TS) : cmd := Ipt (tfam t) (ttbl t) IList.

Definition aissue (F : faultfn) (c : AC) (n : nat) (a : ST) : bool * ST :=
  if F n then (false, a)
  else match aexec c a with Some a' => (true, a') | None => (false, a) end.

Definition ares := (bool * nat * ST * list cmd)%type.

Definition arun_sstep (F : faultfn) (x : asstep) (n : nat) (a : ST) : ares :=
  match x with
  | ADo c => let '(ok, a') := aissue F c n a in (ok, S n, a', [conc c])
  | ATry c => let '(ok, a') := aissue F c n a in (true, S n, a', [conc c])
  end.

Fixpoint arun_ss (F : faultfn) (xs : list asstep) (n : nat) (a : ST) : ares :=
  match xs with
  | [] => (true, n, a, [])
  | x :: xs' =>
      let '(ok, n1, a1, t1) := arun_sstep F x n a in
      if ok then let '(ok2, n2, a2, t2) := arun_ss F xs' n1 a1 in (ok2, n2, a2, t1 ++ t2)
      else (false, n1, a1, t1)
  end.

Definition arun_step (F : faultfn) (x : astep) (n : nat) (a : ST) : ares :=
  match x with
  | ASimple y => arun_sstep F y n a
  | AIf t body =>
      if F n then (false, S n, a, [tcmd t])
      else if atest t a
           then let '(ok2, n2, a2, t2) := arun_ss F body (S n) a in (ok2, n2, a2, tcmd t :: t2)
           else (true, S n, a, [tcmd t])
  end.

Fixpoint arun (F : faultfn) (xs : list astep) (n : nat) (a : ST) : ares :=
  match xs with
  | [] => (true, n, a, [])
  | x :: xs' =>
      let '(ok, n1, a1, t1) := arun_step F x n a in
      if ok then let '(ok2, n2, a2, t2) := arun F xs' n1 a1 in (ok2, n2, a2, t1 ++ t2)
      else (false, n1, a1, t1)
  end.
End Machine.

Arguments ADo {AC} c.
Arguments ATry {AC} c.
Arguments ASimple {AC TS} x.
Arguments AIf {AC TS} t body.

(* ------------------------------------------------------------------ *)
(* 2. one family's own iptables objects                                   *)

Inductive slot := S0 | S1 | S2.
Definition slot_eqb (a b : slot) : bool :=
  match a, b with S0, S0 | S1, S1 | S2, S2 => true | _, _ => false end.

Record ispec := mkIS {
  is_fam : fam; is_tbl : tbl;
  is_nm : slot -> tok;          (* names of the own chains *)
  is_on : slot -> bool;         (* which slots the method uses *)
  is_jo : rule; is_to : slot;   (* the own rule put into OUTPUT and the slot it jumps to *)
  is_jp : rule; is_tp : slot    (* ... PREROUTING *)
}.

Record astate := mkA {
  a_c0 : option (list rule); a_c1 : option (list rule); a_c2 : option (list rule);
  a_jo : nat; a_jp : nat        (* number of own hook rules at the head of OUTPUT / PREROUTING *)
}.

Definition aget (x : slot) (a : astate) : option (list rule) :=
  match x with S0 => a_c0 a | S1 => a_c1 a | S2 => a_c2 a end.
Definition aset (x : slot) (v : option (list rule)) (a : astate) : astate :=
  match x with
  | S0 => mkA v (a_c1 a) (a_c2 a) (a_jo a) (a_jp a)
  | S1 => mkA (a_c0 a) v (a_c2 a) (a_jo a) (a_jp a)
  | S2 => mkA (a_c0 a) (a_c1 a) v (a_jo a) (a_jp a)
  end.

Inductive icmd :=
| CNew (x : slot) | CFlush (x : slot) | CDel (x : slot) | CApp (x : slot) (r : rule)
| CHook (o : bool) | CUnhook (o : bool).       (* o = true: OUTPUT, false: PREROUTING *)

Definition cntl (X : tok) (rs : list rule) : nat := length (filter (jumps_to X) rs).
Definition cnto (X : tok) (o : option (list rule)) : nat :=
  match o with Some rs => cntl X rs | None => 0 end.

Definition hooks (sp : ispec) (x : slot) (a : astate) : nat :=
  (if slot_eqb (is_to sp) x then a_jo a else 0) + (if slot_eqb (is_tp sp) x then a_jp a else 0).
Definition inrefs (sp : ispec) (x : slot) (a : astate) : nat :=
  (if is_on sp S0 then cnto (is_nm sp x) (a_c0 a) else 0) +
  (if is_on sp S1 then cnto (is_nm sp x) (a_c1 a) else 0) +
  (if is_on sp S2 then cnto (is_nm sp x) (a_c2 a) else 0).
Definition arefs (sp : ispec) (x : slot) (a : astate) : nat := hooks sp x a + inrefs sp x a.

Definition iexec (sp : ispec) (c : icmd) (a : astate) : option astate :=
  match c with
  | CNew x => match aget x a with None => Some (aset x (Some []) a) | Some _ => None end
  | CFlush x => match aget x a with Some _ => Some (aset x (Some []) a) | None => None end
  | CDel x => match aget x a with
              | Some [] => if Nat.eqb (arefs sp x a) 0 then Some (aset x None a) else None
              | _ => None
              end
  | CApp x r => match aget x a with Some rs => Some (aset x (Some (rs ++ [r])) a) | None => None end
  | CHook true => Some (mkA (a_c0 a) (a_c1 a) (a_c2 a) (S (a_jo a)) (a_jp a))
  | CHook false => Some (mkA (a_c0 a) (a_c1 a) (a_c2 a) (a_jo a) (S (a_jp a)))
  | CUnhook true => match a_jo a with S j => Some (mkA (a_c0 a) (a_c1 a) (a_c2 a) j (a_jp a)) | O => None end
  | CUnhook false => match a_jp a with S j => Some (mkA (a_c0 a) (a_c1 a) (a_c2 a) (a_jo a) j) | O => None end
  end.

Definition itest (x : slot) (a : astate) : bool :=
  match aget x a with Some _ => true | None => false end.

Definition iop_of (sp : ispec) (c : icmd) : iop :=
  match c with
  | CNew x => INew (is_nm sp x)
  | CFlush x => IFlush (is_nm sp x)
  | CDel x => IDelChain (is_nm sp x)
  | CApp x r => IAppend (is_nm sp x) r
  | CHook true => IInsert bOUTPUT (is_jo sp)
  | CHook false => IInsert bPREROUTING (is_jp sp)
  | CUnhook true => IDelete bOUTPUT (is_jo sp)
  | CUnhook false => IDelete bPREROUTING (is_jp sp)
  end.
Definition iconc (sp : ispec) (c : icmd) : cmd := Ipt (is_fam sp) (is_tbl sp) (iop_of sp c).

Definition iprog := list (astep icmd slot).
Definition irun (sp : ispec) : faultfn -> iprog -> nat -> astate -> ares astate :=
  arun astate icmd slot (iexec sp) itest (iconc sp) (fun _ => is_fam sp) (fun _ => is_tbl sp).
Definition icomp (sp : ispec) : astep icmd slot -> step :=
  comp icmd slot (iconc sp) (fun _ => is_fam sp) (fun _ => is_tbl sp) (is_nm sp).

Definition a_clean : astate := mkA None None None 0 0.

(* nothing can be diverted: a hook that is still there points to an empty or absent chain *)
Definition empty_or_absent (o : option (list rule)) : bool :=
  match o with Some (_ :: _) => false | _ => true end.
Definition a_nd (sp : ispec) (a : astate) : bool :=
  (Nat.eqb (a_jo a) 0 || empty_or_absent (aget (is_to sp) a)) &&
  (Nat.eqb (a_jp a) 0 || empty_or_absent (aget (is_tp sp) a)).

(* ------------------------------------------------------------------ *)
(* 3. nat and tproxy                                                      *)

Definition only0 (x : slot) : bool := match x with S0 => true | _ => false end.

Definition nat_is (f : fam) (owner : option rule) (p : tok) : ispec :=
  mkIS f TNat (fun _ => nat_chain p) only0 (nat_jump owner p) S0 (nat_jump owner p) S0.

Definition tp_nm (p : tok) (x : slot) : tok :=
  match x with S0 => tp_mark p | S1 => tp_tproxy p | S2 => tp_divert p end.
Definition tp_is (f : fam) (p : tok) : ispec :=
  mkIS f TMangle (tp_nm p) (fun _ => true) [bs "-j"; tp_mark p] S0 [bs "-j"; tp_tproxy p] S1.

Definition a_nat_restore : iprog :=
  [AIf S0 [ATry (CUnhook true); ATry (CUnhook false); ATry (CFlush S0); ADo (CDel S0)]].
Definition a_nat_setup (rs : list rule) : iprog :=
  a_nat_restore ++
  map ASimple ([ADo (CNew S0); ADo (CFlush S0); ADo (CHook true); ADo (CHook false)] ++
               map (fun r => ADo (CApp S0 r)) rs).
Definition a_nat_full (rs : list rule) : astate := mkA (Some rs) None None 1 1.

Definition a_tp_restore : iprog :=
  [AIf S0 [ATry (CUnhook true); ATry (CFlush S0); ATry (CDel S0)];
   AIf S1 [ATry (CUnhook false); ATry (CFlush S1); ATry (CDel S1)];
   AIf S2 [ATry (CFlush S2); ATry (CDel S2)]].
Definition a_tp_setup (b : list (slot * rule)) : iprog :=
  a_tp_restore ++
  map ASimple ([ADo (CNew S0); ADo (CFlush S0); ADo (CNew S2); ADo (CFlush S2);
                ADo (CNew S1); ADo (CFlush S1); ADo (CHook true); ADo (CHook false)] ++
               map (fun xr : slot * rule => ADo (CApp (fst xr) (snd xr))) b).
Definition tp_slot (p : tok) (c : tok) : slot :=
  if bytes_eqb c (tp_mark p) then S0 else if bytes_eqb c (tp_tproxy p) then S1 else S2.
Definition tp_abody (p : tok) (body : list (tok * rule)) : list (slot * rule) :=
  map (fun cr : tok * rule => (tp_slot p (fst cr), snd cr)) body.
Definition sel (x : slot) (b : list (slot * rule)) : list rule :=
  map snd (filter (fun xr : slot * rule => slot_eqb (fst xr) x) b).
Definition a_tp_full (b : list (slot * rule)) : astate :=
  mkA (Some (sel S0 b)) (Some (sel S1 b)) (Some (sel S2 b)) 1 1.

(* the order in which tproxy.restore_firewall deletes its chains (mark, tproxy, divert) only
   works when no rule of a chain deleted later jumps to a chain deleted earlier: no rule of the
   tproxy or divert chain jumps to the mark chain, no rule of the divert chain jumps to the
   tproxy chain (true of the rules tproxy.py generates) *)
Definition tp_rule_ok (p : tok) (xr : slot * rule) : bool :=
  match fst xr with
  | S0 => true
  | S1 => negb (jumps_to (tp_mark p) (snd xr))
  | S2 => negb (jumps_to (tp_mark p) (snd xr)) && negb (jumps_to (tp_tproxy p) (snd xr))
  end.
Definition tp_body_ordered (p : tok) (body : list (tok * rule)) : bool :=
  forallb (tp_rule_ok p) (tp_abody p body).

(* ------------------------------------------------------------------ *)
(* 4. nft: the own table of one family (None = absent)                    *)

Definition nexec (t : tok) (o : nftop) (a : option table) : option (option table) :=
  match nft_exec o (match a with Some T => [(t, T)] | None => [] end) with
  | Some [] => Some None
  | Some ((_, T) :: _) => Some (Some T)
  | None => None
  end.

(* the chains nft.py creates: a body rule must name one of them *)
Definition nft_body_ok (f : fam) (p : tok) (body : list (tok * rule)) : bool :=
  forallb (fun cr : tok * rule =>
             bytes_eqb (fst cr) (bs "prerouting") || bytes_eqb (fst cr) (bs "output") ||
             bytes_eqb (fst cr) (nft_table f p)) body.

(* ------------------------------------------------------------------ *)
(* 5. well-formed kernel tables: chain names without blanks (what the kernel
   accepts and `iptables -nL` prints unambiguously), built-in hook chains present *)

Definition no_blank (b : bytes) : bool := forallb (fun a => negb (Ascii.eqb a " "%char)) b.
Definition is_some {A} (o : option A) : bool := match o with Some _ => true | None => false end.
Definition tbl_wf (T : table) : bool :=
  forallb (fun ch : chain => no_blank (fst ch)) T &&
  is_some (find_chain bOUTPUT T) && is_some (find_chain bPREROUTING T).
Definition kst_wf (s : kstate) : bool :=
  tbl_wf (k_v6nat s) && tbl_wf (k_v6mangle s) && tbl_wf (k_v4nat s) && tbl_wf (k_v4mangle s).

(* ------------------------------------------------------------------ *)
(* 6. nat with --user/--group: the own objects of one family are those of
   section 2 in the nat table PLUS the owner MARK rules the helper put at the
   head of OUTPUT in the mangle table (nat.py:39-44 / 105-110); both the
   insertion and the deletion are nonfatal *)

Inductive ocmd := OI (c : icmd) | OMark | OUnmark.

Definition ostate := (astate * nat)%type.      (* own nat-table objects, number of own MARK rules *)

Definition oexec (sp : ispec) (c : ocmd) (st : ostate) : option ostate :=
  match c with
  | OI c' => match iexec sp c' (fst st) with Some a' => Some (a', snd st) | None => None end
  | OMark => Some (fst st, S (snd st))
  | OUnmark => match snd st with S j => Some (fst st, j) | O => None end
  end.
Definition otest (x : slot) (st : ostate) : bool := itest x (fst st).
Definition oconc (sp : ispec) (M : rule) (c : ocmd) : cmd :=
  match c with
  | OI c' => iconc sp c'
  | OMark => Ipt (is_fam sp) TMangle (IInsert bOUTPUT M)
  | OUnmark => Ipt (is_fam sp) TMangle (IDelete bOUTPUT M)
  end.

Definition oprog := list (astep ocmd slot).
Definition orun (sp : ispec) (M : rule) : faultfn -> oprog -> nat -> ostate -> ares ostate :=
  arun ostate ocmd slot (oexec sp) otest (oconc sp M) (fun _ => is_fam sp) (fun _ => is_tbl sp).
Definition ocomp (sp : ispec) (M : rule) : astep ocmd slot -> step :=
  comp ocmd slot (oconc sp M) (fun _ => is_fam sp) (fun _ => is_tbl sp) (is_nm sp).

Definition a_nato_restore : oprog :=
  [AIf S0 [ATry OUnmark; ATry (OI (CUnhook true)); ATry (OI (CUnhook false));
           ATry (OI (CFlush S0)); ADo (OI (CDel S0))]].
Definition a_nato_setup (rs : list rule) : oprog :=
  a_nato_restore ++
  map ASimple ([ADo (OI (CNew S0)); ADo (OI (CFlush S0)); ATry OMark;
                ADo (OI (CHook true)); ADo (OI (CHook false))] ++
               map (fun r => ADo (OI (CApp S0 r))) rs).
Definition o_clean : ostate := (a_clean, 0).
Definition o_full (rs : list rule) : ostate := (a_nat_full rs, 1).

(* the tear-down command whose failure is finding F41 *)
Definition is_mark_delete (x : cmd) : bool :=
  match x with Ipt _ TMangle (IDelete _ _) => true | _ => false end.
