(* Model/StreamLoop.v — the main loop (ssnet.runonce + check_fullness) as a layer over
   the micro-step model of Model/Stream.v.  Executable definitions only; the theorems
   are in Proofs/Stream_loop.v.

   Everything here is built from the micro-step `step` / `run` of Model/Stream.v: an
   iteration IS a list of micro-step events (iter_events_v), so every loop-level run is
   a micro-step run and all invariants of Proofs/Stream_*.v apply to it.

   ssnet.runonce (ssnet.py:584-609), handlers = [mux, (listeners), proxies in creation order]:
       to_remove = [s for s in handlers if not s.ok]; remove them      EvRemove *
       for s in handlers: s.pre_select(r, w, x)                        Mux.pre_select FIRST (it asks for
                                                                       writability iff its queue is non-empty
                                                                       NOW), then EvPreSelect of every proxy
       select.select(r, w, x)              -- NO timeout               sleeps when nothing waited for is ready
       for h in handlers: for s in h.socks: if s in ready: h.callback(s)
           Mux.socks = [rfile, wfile]                                  one Mux.callback per ready tunnel fd:
                                                                       handle() = EvDeliver *, flush() = EvFlush
           listener handlers (client)                                  EvAccept *
           Proxy.socks = [w1.rsock, w1.wsock, w2.rsock, w2.wsock]      2 callbacks if its socket is ready, 1 more
                                                                       per ready tunnel fd (every proxy holds both
                                                                       tunnel fds): EvCallback *
   then (client.py / server.py main loops)  if latency_control: mux.check_fullness()   EvCheckFull

   `fx` selects the order inside runonce: false = as found; true = repaired (finding F160): the
   multiplexer is asked for its wait set once more AFTER the other handlers' pre_select. *)
From Coq Require Import List NArith Ascii Bool.
From SV Require Import Lib.Bytes Model.Wire Model.Chan Model.Stream Model.StreamQuiet.
Import ListNotations.
Local Open Scope N_scope.

(* the link this end reads from *)
Definition rx_link (sd : side) (w : world) : list sframe :=
  match sd with Client => w_sc w | Server => w_cs w end.

(* a handler runonce drops: still in the list, ok = False *)
Definition dead (p : proxy) : bool := live p && negb (p_ok p).

(* flow numbers of an end whose proxy satisfies pr, in creation order *)
Definition sel_fids (pr : proxy -> bool) (e : endpt) : list N :=
  filter (fun f => match e_prox e f with Some p => pr p | None => false end) (fids e).

Definition remove_events (sd : side) (w : world) : list event :=
  map (EvRemove sd) (sel_fids dead (get_end w sd)).

(* Proxy.pre_select of the flows l, in order; returns the wait set of each *)
Fixpoint presel_from (sd : side) (l : list N) (w : world) : result (world * list (N * list waitfd)) :=
  match l with
  | [] => Ok (w, [])
  | f :: tl =>
    let e := get_end w sd in
    let ws := match e_prox e f with
              | Some p => snd (proxy_pre_select sd f p (e_mux e))
              | None => []
              end in
    match step w (EvPreSelect sd f) with
    | Crash c => Crash c
    | Ok w1 => match presel_from sd tl w1 with
               | Crash c => Crash c
               | Ok (w2, wss) => Ok (w2, (f, ws) :: wss)
               end
    end
  end.

Record pass_out := mkPass {
  po_w : world;                          (* the state select() is entered in *)
  po_muxw : bool;                        (* the multiplexer put its write descriptor into the wait set *)
  po_waits : list (N * list waitfd)      (* what each proxy put into the wait sets *)
}.

(* the part of runonce before select() *)
Definition presel_pass_v (fx : bool) (sd : side) (w : world) : result pass_out :=
  match run w (remove_events sd w) with
  | Crash c => Crash c
  | Ok w0 =>
    (* Mux.pre_select runs first: "if self.outbuf: _add(w, self.wfile)" *)
    let asked := negb (out_empty (e_mux (get_end w0 sd))) in
    match presel_from sd (sel_fids active (get_end w0 sd)) w0 with
    | Crash c => Crash c
    | Ok (w1, wss) =>
      Ok (mkPass w1 (if fx then asked || negb (out_empty (e_mux (get_end w1 sd))) else asked) wss)
    end
  end.

(* a descriptor of a proxy's wait set that select() can report at all without anything arriving from the
   other end: the flow's own socket, the tunnel's write side.  (The tunnel's read side is ready iff the
   incoming link holds something; the harness: World.fake_select, `cand`.) *)
Definition fd_cand (fd : waitfd) : bool := match fd with WMuxR => false | _ => true end.

Definition sleeps_of (rdy : proxy -> waitfd -> bool) (sd : side) (po : pass_out) : bool :=
  link_empty (rx_link sd (po_w po)) && negb (po_muxw po) &&
  forallb (fun fw => match e_prox (get_end (po_w po) sd) (fst fw) with
                     | Some p => forallb (fun fd => negb (rdy p fd)) (snd fw)
                     | None => true
                     end) (po_waits po).

(* select() has NOTHING it could report: the process sleeps until something arrives from outside
   (the other end writes to the tunnel, a new connection is captured) — World.blocked in the harness *)
Definition sleepsb_v (fx : bool) (sd : side) (w : world) : bool :=
  match presel_pass_v fx sd w with
  | Ok po => sleeps_of (fun _ => fd_cand) sd po
  | Crash _ => false
  end.

(* the same in the eager environment of StreamQuiet (sockets waited for reading have nothing to deliver,
   pending connects stay pending): nothing select() waits for is ready *)
Definition sleeps_eagerb_v (fx : bool) (sd : side) (w : world) : bool :=
  match presel_pass_v fx sd w with
  | Ok po => sleeps_of fd_ready sd po
  | Crash _ => false
  end.

(* ---------------- what select() and the socket calls answer in one iteration ---------------- *)
Record answers := mkAns {
  a_lis : bool;                      (* a listening socket is ready (client only) *)
  a_acc : list bytes;                (* the connections its handlers accept and tunnel *)
  a_r : bool;                        (* select() reports the tunnel readable ... *)
  a_w : bool;                        (* ... writable *)
  a_mux : nat -> list io * bool;     (* k-th Mux.callback: answers for the frames handle() dispatches,
                                        and whether flush() gets a frame written *)
  a_sock : N -> bool;                (* select() reports the socket of flow fid ready *)
  a_io : N -> nat -> io              (* answers of the socket calls in the k-th callback of flow fid *)
}.

Definition b2n (b : bool) : nat := if b then 1%nat else 0%nat.

(* Mux.socks = [rfile, wfile]: one callback per ready descriptor *)
Definition mux_calls (a : answers) : nat := (b2n (a_r a) + b2n (a_w a))%nat.

Definition mux_events (sd : side) (a : answers) : list event :=
  flat_map (fun k => map (EvDeliver sd) (fst (a_mux a k)) ++ (if snd (a_mux a k) then [EvFlush sd] else []))
           (seq 0 (mux_calls a)).

Definition acc_events (sd : side) (a : answers) : list event :=
  match sd with
  | Client => if a_lis a then map EvAccept (a_acc a) else []
  | Server => []
  end.

(* Proxy.socks holds the flow's socket twice (rsock, wsock) and both tunnel descriptors *)
Definition ncalls (a : answers) (f : N) : nat := (2 * b2n (a_sock a f) + mux_calls a)%nat.

(* callbacks of the proxies in the handler list (e: the end AFTER Mux.callback and the listeners ran —
   the list is iterated while it grows, so proxies created in this iteration are called too) *)
Definition cb_events (sd : side) (a : answers) (e : endpt) : list event :=
  flat_map (fun f => match e_prox e f with
                     | Some p => if live p then map (fun k => EvCallback sd f (a_io a f k)) (seq 0 (ncalls a f)) else []
                     | None => []
                     end) (fids e).

Definition k_events (sd : side) (lat : bool) : list event := if lat then [EvCheckFull sd] else [].

(* one iteration of the main loop of end sd.  lat: latency control is on. *)
Definition iteration_v (fx lat : bool) (sd : side) (a : answers) (w : world) : result world :=
  match presel_pass_v fx sd w with
  | Crash c => Crash c
  | Ok po =>
    if sleeps_of (fun _ => fd_cand) sd po && negb (a_lis a)
    then run (po_w po) (k_events sd lat)      (* nothing to report: no callback runs *)
    else match run (po_w po) (mux_events sd a ++ acc_events sd a) with
         | Crash c => Crash c
         | Ok w2 => run w2 (cb_events sd a (get_end w2 sd) ++ k_events sd lat)
         end
  end.

(* the same iteration as ONE list of micro-step events (Stream_loop.iteration_is_run) *)
Definition pass_events (sd : side) (w : world) : list event :=
  remove_events sd w ++
  match run w (remove_events sd w) with
  | Ok w0 => map (EvPreSelect sd) (sel_fids active (get_end w0 sd))
  | Crash _ => []
  end.

(* what follows the pass *)
Definition iter_rest (lat : bool) (sd : side) (a : answers) (po : pass_out) : list event :=
  if sleeps_of (fun _ => fd_cand) sd po && negb (a_lis a) then k_events sd lat
  else (mux_events sd a ++ acc_events sd a) ++
       match run (po_w po) (mux_events sd a ++ acc_events sd a) with
       | Crash _ => []
       | Ok w2 => cb_events sd a (get_end w2 sd) ++ k_events sd lat
       end.

Definition iter_events_v (fx lat : bool) (sd : side) (a : answers) (w : world) : list event :=
  pass_events sd w ++
  match presel_pass_v fx sd w with
  | Crash _ => []
  | Ok po => iter_rest lat sd a po
  end.

(* ---------------- which answers a real select() can give (used by the correspondence only;
   the theorems hold for ALL answers) ---------------- *)
Definition has_fd (fd : waitfd) (ws : list waitfd) : bool :=
  existsb (fun g => match fd, g with
                    | WSockR, WSockR | WSockW, WSockW | WMuxR, WMuxR | WMuxW, WMuxW => true
                    | _, _ => false end) ws.

Definition waits_of (po : pass_out) (f : N) : list waitfd :=
  flat_map (fun fw => if fst fw =? f then snd fw else []) (po_waits po).

Definition ans_real_po (sd : side) (a : answers) (po : pass_out) : bool :=
  let e := get_end (po_w po) sd in
  (* only what was waited for, and can be ready, is reported *)
  implb (a_r a) (negb (link_empty (rx_link sd (po_w po)))) &&
  implb (a_w a) (po_muxw po || existsb (fun fw => has_fd WMuxW (snd fw)) (po_waits po)) &&
  forallb (fun f => implb (a_sock a f) (has_fd WSockR (waits_of po f) || has_fd WSockW (waits_of po f))) (fids e) &&
  implb (a_lis a) (match sd with Client => true | Server => false end) &&
  (* select() without timeout returns only when something is ready *)
  (sleeps_of (fun _ => fd_cand) sd po && negb (a_lis a) ||
   (a_lis a || a_r a || a_w a || existsb (a_sock a) (fids e))).

Definition ans_realb_v (fx : bool) (sd : side) (a : answers) (w : world) : bool :=
  match presel_pass_v fx sd w with
  | Crash _ => false
  | Ok po => ans_real_po sd a po
  end.

(* ---------------- the statement of "no lost wake-up", as booleans (tested by vm_compute and
   printed by the driver) ---------------- *)
(* the STOP_SENDING messages Proxy.pre_select queues in this pass *)
Definition late_stop (p : proxy) : bool := active p && s_sw (p_s p) && negb (m_sr (p_m p)).

Definition no_late_stopb (sd : side) (w : world) : bool :=
  forallb (fun f => match e_prox (get_end w sd) f with
                    | Some p => negb (late_stop p)
                    | None => true
                    end) (fids (get_end w sd)).

(* nothing is owed by the flow itself: *)
Definition settledb (p : proxy) : bool :=
  implb (m_sr (p_m p) && negb (nonempty_buf (m_buf (p_m p)))) (s_sw (p_s p)) &&   (* peer's EOF passed on: shutdown done *)
  implb (s_sr (p_s p) && negb (nonempty_buf (s_buf (p_s p)))) (m_sw (p_m p)) &&   (* own EOF queued *)
  implb (s_sw (p_s p)) (negb (nonempty_buf (m_buf (p_m p)))) &&                   (* nothing kept for a socket shut for writing *)
  implb (m_sw (p_m p)) (negb (nonempty_buf (s_buf (p_s p)))).                     (* nothing kept for a peer that stopped reading *)

(* the shapes of a handler of a sleeping end (p: as pre_select left it; x: the multiplexer) *)
Definition all_flags (p : proxy) : bool := s_sr (p_s p) && s_sw (p_s p) && m_sr (p_m p) && m_sw (p_m p).
Definition bufs_empty (p : proxy) : bool := negb (nonempty_buf (s_buf (p_s p))) && negb (nonempty_buf (m_buf (p_m p))).

Definition shape_paused (p : proxy) (x : mux) : bool :=
  x_too_full x && nonempty_buf (s_buf (p_s p)) && negb (nonempty_buf (m_buf (p_m p))) && negb (m_sw (p_m p)).
Definition shape_waits_peer (p : proxy) : bool :=
  bufs_empty p && s_sr (p_s p) && m_sw (p_m p) && negb (m_sr (p_m p)) && negb (s_sw (p_s p)).
Definition shape_f20 (p : proxy) : bool := bufs_empty p && all_flags p.
Definition shape_connecting (p : proxy) : bool := s_conn (p_s p).
Definition shape_idle_read (p : proxy) : bool :=
  negb (s_conn (p_s p)) && bufs_empty p && negb (s_sr (p_s p)) && negb (m_sw (p_m p)).

Definition sleep_shapeb (strict : bool) (p : proxy) (x : mux) : bool :=
  settledb p && implb (s_sw (p_s p)) (m_sr (p_m p)) && implb (m_sw (p_m p)) (s_sr (p_s p)) &&
  (shape_paused p x || shape_waits_peer p || shape_f20 p ||
   (negb strict && (shape_connecting p || shape_idle_read p))).

Definition is_late_stop_frame (f : sframe) : bool :=
  match sf_cmd f with CStop => true | _ => false end.

(* what must hold of an end that sleeps: its queue holds nothing but the STOP_SENDING messages of this very
   pass (none under fx), and every handler has one of the shapes above *)
Definition sleep_okb_v (fx strict : bool) (sd : side) (w : world) : bool :=
  match presel_pass_v fx sd w with
  | Crash _ => false
  | Ok po =>
    let e := get_end (po_w po) sd in
    forallb is_late_stop_frame (x_out (e_mux e)) &&
    (if fx || no_late_stopb sd w then out_empty (e_mux e) else true) &&
    forallb (fun f => match e_prox e f with
                      | Some p => if active p then sleep_shapeb strict p (e_mux e) else true
                      | None => true
                      end) (fids e)
  end.

(* ---------------- the code as repaired (finding F160) and as found ---------------- *)
(* runonce asks the multiplexer for its wait set once more after the other handlers' pre_select *)
Definition presel_pass : side -> world -> result pass_out := presel_pass_v true.
Definition sleepsb : side -> world -> bool := sleepsb_v true.
Definition sleeps_eagerb : side -> world -> bool := sleeps_eagerb_v true.
Definition iteration : bool -> side -> answers -> world -> result world := iteration_v true.
Definition iter_events : bool -> side -> answers -> world -> list event := iter_events_v true.
Definition sleep_okb : bool -> side -> world -> bool := sleep_okb_v true.
(* as found: Mux.pre_select runs first and only once *)
Definition presel_pass_asfound : side -> world -> result pass_out := presel_pass_v false.
Definition sleepsb_asfound : side -> world -> bool := sleepsb_v false.
Definition sleeps_eagerb_asfound : side -> world -> bool := sleeps_eagerb_v false.
Definition iteration_asfound : bool -> side -> answers -> world -> result world := iteration_v false.
Definition iter_events_asfound : bool -> side -> answers -> world -> list event := iter_events_v false.
Definition sleep_okb_asfound : bool -> side -> world -> bool := sleep_okb_v false.
