(* Model/DgramSys.v — the two-ended datagram system: the client step function and the server iteration of
   Model/Dgram.v composed over two reliable FIFO links (the ssh pipe in each direction).  Executable definitions
   only; proofs live in Proofs/DgramSystem_lemmas.v and Proofs/DgramMixed_lemmas.v; extracted into the C10/C11
   drivers and compared with the real client + real server.main composed the same way (harness SystemRun).   *)
From Coq Require Import List NArith Ascii Bool.
From SV Require Import Lib.Bytes Lib.DgramLib Model.Chan Model.Dgram Gen.Consts.
Import ListNotations.
Local Open Scope N_scope.

(* the listener events of the composed system (the end of a TCP flow belongs to the stream core; the client-side
   step ETcpEnd is part of cstep / crun only) *)
Definition is_accept (e : cevent) : bool := match e with EFrame _ _ _ => false | ETcpEnd _ => false | _ => true end.

Definition fcmd_of (cmd : N) : fcmd :=
  if cmd =? CMD_DNS_REQ then FDnsReq else if cmd =? CMD_UDP_OPEN then FUdpOpen
  else if cmd =? CMD_UDP_DATA then FUdpData else if cmd =? CMD_UDP_CLOSE then FUdpClose else FOther.

(* what a client output puts on the client->server link; q = ghost number of the query being accepted *)
Definition up_of (q : N) (o : cout) : list (N * fcmd * bytes * N) :=
  match o with OFrame ch cmd data => [(ch, fcmd_of cmd, data, q)] | ODgram _ _ _ _ => [] end.

(* what a server output puts on the server->client link: (identifier, payload, ghost tag of the query whose
   DnsProxy produced it — None for frames that answer no query) *)
Definition down_of (o : sout) : list (N * bytes * option N) :=
  match o with
  | SFrame ch cmd data tag => [(ch, data, if cmd =? CMD_DNS_RESPONSE then Some tag else None)]
  | _ => []
  end.

Record sys := {
  y_c : cstate; y_s : sstate;
  y_up : list (N * fcmd * bytes * N);                        (* client -> server, FIFO *)
  y_down : list (N * bytes * option N)      (* server -> client, FIFO *)
}.

Definition y_init : sys := {| y_c := c_init; y_s := s_init; y_up := []; y_down := [] |}.

Inductive yev :=
| YAccept (e : cevent)                                          (* listener event at the client: EDns / EUdp / ETcp *)
| YServer (now : N) (k : nat) (ready : list N) (io : list io_item)  (* a server iteration reading the first k frames *)
| YDeliver (sr : sendres).                                      (* the client handles the next frame from the server *)

Inductive yobs :=
| ObsClient (tag : option N) (o : list cout)     (* tag: ghost tag of the frame being handled (accept events: None) *)
| ObsServer (o : list sout).

Definition ystep_fx (fx : fixes) (cc : ccfg) (sc : scfg) (y : sys) (e : yev) : option (sys * yobs) :=
  match e with
  | YAccept ce =>
    if is_accept ce then
      match cstep fx cc (y_c y) ce with
      | Ok (c', o) =>
        Some ({| y_c := c'; y_s := y_s y; y_up := y_up y ++ flat_map (up_of (c_nq (y_c y))) o; y_down := y_down y |},
              ObsClient None o)
      | _ => None
      end
    else None
  | YServer now k ready io =>
    match sstep fx sc (y_s y)
            {| se_now := now; se_frames := firstn k (y_up y); se_ready := ready; se_io := io |} with
    | Ok (s', o) =>
      Some ({| y_c := y_c y; y_s := s'; y_up := skipn k (y_up y); y_down := y_down y ++ flat_map down_of o |},
            ObsServer o)
    | _ => None
    end
  | YDeliver sr =>
    match y_down y with
    | [] => None
    | (ch, data, tag) :: tl =>
      match cstep fx cc (y_c y) (EFrame ch data sr) with
      | Ok (c', o) =>
        Some ({| y_c := c'; y_s := y_s y; y_up := y_up y ++ flat_map (up_of (c_nq (y_c y))) o; y_down := tl |},
              ObsClient tag o)
      | _ => None
      end
    end
  end.

(* the system of the repaired code *)
Definition ystep : ccfg -> scfg -> sys -> yev -> option (sys * yobs) := ystep_fx all_fixed.
