From Coq Require Import List NArith Ascii Bool.
From SV Require Import Lib.Bytes Lib.DgramLib Model.Chan Model.Dgram Gen.Consts.
Import ListNotations.
Local Open Scope N_scope.

(* ------------------------------------------------------------------ *)
(* /etc/resolv.conf of the remote host may be rewritten while the server runs: helpers.get_random_nameserver
   (helpers.py 138-158, non-Windows branch) reads it again for EVERY attempt.  `nss` = what the file lists at each
   successive attempt of try_send (head = the attempt about to be made; when the script runs out the list of cfg
   stands).  try_send_ns is try_send with the attempt's own list in place of the constant sc_sysns.             *)
Definition cfg_at (cfg : scfg) (nss : list (list bytes)) : scfg :=
  {| sc_to_ns := sc_to_ns cfg; sc_sysns := match nss with l :: _ => l | [] => sc_sysns cfg end |}.

Fixpoint try_send_ns (fx : fixes) (cfg : scfg) (nss : list (list bytes)) (left : nat) (d : dnsp) (nsock : N)
  (io : list io_item) : res (dnsp * N * list io_item * list sout) :=
  match left with
  | O => Ok (d, nsock, io, [])
  | S left' =>
    let d1 := set_tries d (d_tries d + 1) in
    let t := dns_target (cfg_at cfg nss) io in               (* get_random_nameserver() reads the file NOW *)
    let target := fst t in
    let sock := nsock in
    let c := pop (snd t) in
    match fst c with
    | IoErr e =>
      if fx10 fx then
        if is_net_err e then
          do r <- try_send_ns fx cfg (tl nss) left' d1 (nsock + 1) (snd c);
          let '(d2, n2, io2, o2) := r in
          Ok (d2, n2, io2, SConnect sock target false :: o2)
        else Ok (d1, nsock + 1, snd c, [SConnect sock target false])
      else Crash XOSError
    | _ =>
      let s := pop (snd c) in
      match fst s with
      | IoErr e =>
        let o := [SConnect sock target true; SSend sock (d_request d) false] in
        if is_net_err e then
          do r <- try_send_ns fx cfg (tl nss) left' d1 (nsock + 1) (snd s);
          let '(d2, n2, io2, o2) := r in
          Ok (d2, n2, io2, o ++ o2)
        else Ok (d1, nsock + 1, snd s, o)
      | _ =>
        Ok (set_socks d1 (d_socks d1 ++ [sock]), nsock + 1, snd s,
            [SConnect sock target true; SSend sock (d_request d) true])
      end
    end
  end.
