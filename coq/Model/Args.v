(* Model/Args.v — executable model of sshuttle's argument readers (property C16):
     sshuttle/options.py:38-98    parse_subnetport  (two regular expressions)
     sshuttle/options.py:104-132  parse_ipport      (three regular expressions)
     sshuttle/ssh.py:33-84        parse_hostport
     sshuttle/cmdline.py:18-24    SSHUTTLE_ARGS ++ argv, argparse "store" = last wins
   Text is ASCII bytes.  (On Python `str`, \w and \d also match non-ASCII
   letters/digits; that behaviour is observed separately by the harness.)
   Python exceptions are values (`Raise cls`); argparse's treatment of an
   exception raised by a type= callable is `argparse_type`.
   The resolver (socket.getaddrinfo for NAMES) is the explicit argument `rs`;
   numeric hosts are read by the modelled libc readers below.
   Definitions only; proofs live in Proofs/Args_lemmas.v. *)
From Coq Require Import List NArith Ascii Bool.
From SV Require Import Lib.Bytes.
Import ListNotations.
Local Open Scope char_scope.
Local Open Scope N_scope.

(* ------------------------------------------------------------------ *)
(* Characters                                                          *)

Definition cN (c : ascii) : N := N_of_ascii c.
Definition in_range (lo hi : N) (c : ascii) : bool := (lo <=? cN c) && (cN c <=? hi).
Definition is_digit (c : ascii) : bool := in_range 48 57 c.            (* ASCII part of \d *)
Definition is_upper (c : ascii) : bool := in_range 65 90 c.
Definition is_lower (c : ascii) : bool := in_range 97 122 c.
Definition is_alpha (c : ascii) : bool := is_upper c || is_lower c.
Definition is_word (c : ascii) : bool :=                                  (* ASCII part of \w *)
  is_alpha c || is_digit c || Ascii.eqb c "_".
Definition is_oct (c : ascii) : bool := in_range 48 55 c.
Definition is_hex (c : ascii) : bool :=
  is_digit c || in_range 65 70 c || in_range 97 102 c.
Definition is_host4 (c : ascii) : bool :=                                 (* [\w\.\-] *)
  is_word c || Ascii.eqb c "." || Ascii.eqb c "-".
(* IPv6 host class.  As found it was [\w\:], which cannot hold the dotted
   tail of ::ffff:1.2.3.4 (finding F23); the repaired class is [\w\:\.] *)
Definition is_host6_asfound (c : ascii) : bool := is_word c || Ascii.eqb c ":".
Definition is_host6 (c : ascii) : bool := is_word c || Ascii.eqb c ":" || Ascii.eqb c ".".
Definition NL : ascii := "010".

Definition digit_val (c : ascii) : N := cN c - 48.
Definition hex_digit_val (c : ascii) : N :=
  if is_digit c then cN c - 48
  else if in_range 65 70 c then cN c - 55 else cN c - 87.

Definition to_lower (c : ascii) : ascii :=
  if is_upper c then ascii_of_N (cN c + 32) else c.

(* ------------------------------------------------------------------ *)
(* List helpers                                                        *)

Definition nonempty (l : bytes) : bool := match l with [] => false | _ => true end.

(* longest prefix whose characters satisfy p, and the rest (a greedy `[..]*`) *)
Fixpoint span (p : ascii -> bool) (l : bytes) : bytes * bytes :=
  match l with
  | c :: l' => if p c then let r := span p l' in (c :: fst r, snd r) else ([], l)
  | [] => ([], [])
  end.

Definition mem_char (c : ascii) (l : bytes) : bool := existsb (Ascii.eqb c) l.

Fixpoint count_char (c : ascii) (l : bytes) : nat :=
  match l with
  | [] => O
  | x :: t => if Ascii.eqb x c then S (count_char c t) else count_char c t
  end.

(* Python s.split(c): always at least one field *)
Fixpoint split_on (c : ascii) (s : bytes) : list bytes :=
  match s with
  | [] => [[]]
  | x :: t =>
    if Ascii.eqb x c then [] :: split_on c t
    else match split_on c t with
         | h :: r => (x :: h) :: r
         | [] => [[x]]
         end
  end.

(* s.partition(c) -> (before, found, after) *)
Fixpoint partition_on (c : ascii) (s : bytes) : bytes * bool * bytes :=
  match s with
  | [] => ([], false, [])
  | x :: t =>
    if Ascii.eqb x c then ([], true, t)
    else let '(a, f, b) := partition_on c t in (x :: a, f, b)
  end.

(* s.rsplit(c, 1) when c occurs: (before the LAST c, after it) *)
Definition rsplit_last (c : ascii) (s : bytes) : option (bytes * bytes) :=
  let '(a, f, b) := partition_on c (rev s) in
  if f then Some (rev b, rev a) else None.

Fixpoint horner (base : N) (dv : ascii -> N) (acc : N) (l : bytes) : N :=
  match l with
  | [] => acc
  | c :: t => horner base dv (acc * base + dv c) t
  end.
Definition dec_val (l : bytes) : N := horner 10 digit_val 0 l.
Definition oct_val (l : bytes) : N := horner 8 digit_val 0 l.
Definition hex_val (l : bytes) : N := horner 16 hex_digit_val 0 l.

Fixpoint join (sep : bytes) (l : list bytes) : bytes :=
  match l with
  | [] => []
  | [a] => a
  | a :: t => a ++ sep ++ join sep t
  end.

Fixpoint bytes_ltb (a b : bytes) : bool :=        (* str `<` on ASCII text *)
  match a, b with
  | [], [] => false
  | [], _ :: _ => true
  | _ :: _, [] => false
  | x :: a', y :: b' =>
    if cN x <? cN y then true else if cN y <? cN x then false else bytes_ltb a' b'
  end.

(* ------------------------------------------------------------------ *)
(* Exceptions and argparse                                             *)

Inductive fatal_msg :=
| MsgFormat       (* '%r is not a valid address/mask:port format' / 'IP:port format' *)
| MsgResolve      (* 'Unable to resolve address: %s' *)
| MsgMixed        (* '... has IPv4 and IPv6 addresses, so the mask of /%s is not supported' *)
| MsgWidth.       (* 'Slash in CIDR notation (/%d) is not between 0 and %d' *)

Inductive exn :=
| EArgType (m : fatal_msg)   (* argparse.ArgumentTypeError, aliased Fatal in options.py:4 *)
| EUnicode                   (* UnicodeError (subclass of ValueError) from the idna codec *)
| EValue.                    (* ValueError *)

Inductive res (A : Type) :=
| Ok (a : A)
| Raise (e : exn).
Arguments Ok {A} a.
Arguments Raise {A} e.

(* What the command-line user sees when a type= callable raises:
   argparse.ArgumentParser._get_value catches ArgumentTypeError and
   (TypeError, ValueError) -> ArgumentError -> parser.error() -> usage message,
   exit status 2.  Anything else would escape as a traceback. *)
Inductive outcome (A : Type) :=
| OOk (a : A)
| OUsage
| OCrash (e : exn).
Arguments OOk {A} a.
Arguments OUsage {A}.
Arguments OCrash {A} e.

Definition argparse_catches (e : exn) : bool :=
  match e with
  | EArgType _ => true
  | EUnicode => true      (* issubclass(UnicodeError, ValueError) *)
  | EValue => true
  end.

Definition argparse_type {A} (r : res A) : outcome A :=
  match r with
  | Ok a => OOk a
  | Raise e => if argparse_catches e then OUsage else OCrash e
  end.

(* int(text) for a text matched by \d+ : CPython refuses more than 4300 digits
   (sys.int_info.default_max_str_digits) with ValueError. *)
Definition MAX_STR_DIGITS : N := 4300.
Definition py_int (ds : bytes) : res N :=
  if MAX_STR_DIGITS <? lenN ds then Raise EValue else Ok (dec_val ds).

(* ------------------------------------------------------------------ *)
(* Regular-expression fragments                                        *)

(* `$` : end of text, or just before a final newline *)
Definition is_eol (r : bytes) : bool :=
  match r with
  | [] => true
  | [c] => Ascii.eqb c NL
  | _ => false
  end.

(* one literal character (tests are written with Ascii.eqb, never with
   character patterns, so that proofs do not split characters into bits) *)
Definition strip_char (c : ascii) (s : bytes) : option bytes :=
  match s with
  | x :: t => if Ascii.eqb x c then Some t else None
  | [] => None
  end.

(* the literal "*." *)
Definition strip_star (s : bytes) : option bytes :=
  match strip_char "*" s with
  | Some t => strip_char "." t
  | None => None
  end.

(* (?:c(\d+))?   -> (group, rest) *)
Definition opt_char_digits (c : ascii) (l : bytes) : option bytes * bytes :=
  match strip_char c l with
  | Some l' =>
    let r := span is_digit l' in
    if nonempty (fst r) then (Some (fst r), snd r) else (None, l)
  | None => (None, l)
  end.

Definition opt_slash_digits := opt_char_digits "/".   (* (?:/(\d+))? *)
Definition opt_colon_digits := opt_char_digits ":".   (* (?::(\d+))? *)
Definition opt_dash_digits := opt_char_digits "-".    (* (?:-(\d+))? *)

(* (?::(\d+)(?:-(\d+))?)?   -> (fport, lport, rest) *)
Definition opt_ports (l : bytes) : option bytes * option bytes * bytes :=
  match opt_colon_digits l with
  | (Some f, r) => let '(lp, r') := opt_dash_digits r in (Some f, lp, r')
  | (None, _) => (None, None, l)
  end.

(* the four groups: host, cidr, fport, lport *)
Definition groups := (bytes * option bytes * option bytes * option bytes)%type.

(* options.py:43   ((?:\*\.)?[\w\.\-]+)(?:/(\d+))?(?::(\d+)(?:-(\d+))?)?$
   Every character that may follow the host ('/', ':', newline, end) is outside
   the host class, so the greedy host is the only candidate. *)
Definition rx4 (s : bytes) : option groups :=
  let '(star, s1) := match strip_star s with
                     | Some t => (true, t)
                     | None => (false, s)
                     end in
  let r := span is_host4 s1 in
  if nonempty (fst r) then
    let host := if star then "*" :: "." :: fst r else fst r in
    let '(cidr, r1) := opt_slash_digits (snd r) in
    let '(fp, lp, r2) := opt_ports r1 in
    if is_eol r2 then Some (host, cidr, fp, lp) else None
  else None.

(* what may follow the host in the IPv6 form:  (?:/(\d+))?]?(?::(\d+)(?:-(\d+))?)?$ *)
Definition tail6 (rest : bytes) : option (option bytes * option bytes * option bytes) :=
  let '(cidr, r1) := opt_slash_digits rest in
  let r2 := match strip_char "]" r1 with Some t => t | None => r1 end in
  let '(fp, lp, r3) := opt_ports r2 in
  if is_eol r3 then Some (cidr, fp, lp) else None.

(* split at the LAST ':' *)
Definition split_last_colon (h : bytes) : option (bytes * bytes) := rsplit_last ":" h.

(* options.py:41   (?:\[?(?:\*\.)?([\w\:\.]+)(?:/(\d+))?]?)(?::(\d+)(?:-(\d+))?)?$
   The host class contains ':' and the digits, so when the greedy attempt
   fails the matcher gives characters back; the only way that can then succeed
   is: the host run ends in ":<digits>" and is followed by "-<digits>" and `$`
   (then ":<digits>" becomes the port group). *)
Definition rx6_gen (cls : ascii -> bool) (s : bytes) : option groups :=
  let s0 := match strip_char "[" s with Some t => t | None => s end in
  let s1 := match strip_star s0 with Some t => t | None => s0 end in
  let r := span cls s1 in
  if nonempty (fst r) then
    match tail6 (snd r) with
    | Some (cidr, fp, lp) => Some (fst r, cidr, fp, lp)
    | None =>
      match opt_dash_digits (snd r) with
      | (Some d2, r') =>
        if is_eol r' then
          match split_last_colon (fst r) with
          | Some (h, d1) =>
            if nonempty h && nonempty d1 && forallb is_digit d1
            then Some (h, None, Some d1, Some d2) else None
          | None => None
          end
        else None
      | (None, _) => None
      end
    end
  else None.

Definition rx6 : bytes -> option groups := rx6_gen is_host6.
Definition rx6_asfound : bytes -> option groups := rx6_gen is_host6_asfound.

(* ------------------------------------------------------------------ *)
(* Numeric hosts: libc readers and printers                            *)

Definition AF_INET : N := 2.
Definition AF_INET6 : N := 10.

(* one number of inet_aton: strtoul(cp, &end, 0) on a text that starts with a
   digit, and the WHOLE part must be consumed ("0x" needs a hex digit after it,
   "0" followed by octal digits is octal, otherwise decimal) *)
Definition c_number (p : bytes) : option N :=
  match p with
  | [] => None
  | c :: t =>
    if Ascii.eqb c "0" then
      match t with
      | [] => Some 0
      | x :: t' =>
        if Ascii.eqb x "x" || Ascii.eqb x "X" then
          if nonempty t' && forallb is_hex t' then Some (hex_val t') else None
        else if forallb is_oct t then Some (oct_val t) else None
      end
    else if forallb is_digit p then Some (dec_val p) else None
  end.

(* glibc __inet_aton_exact (numbers-and-dots, 1..4 parts, the last part fills
   the remaining bytes); result = 32-bit value *)
Definition inet_aton (s : bytes) : option N :=
  match map c_number (split_on "." s) with
  | [Some a] => if a <=? 4294967295 then Some a else None
  | [Some a; Some b] =>
    if (a <=? 255) && (b <=? 16777215) then Some (a * 16777216 + b) else None
  | [Some a; Some b; Some c] =>
    if (a <=? 255) && (b <=? 255) && (c <=? 65535)
    then Some (a * 16777216 + b * 65536 + c) else None
  | [Some a; Some b; Some c; Some d] =>
    if (a <=? 255) && (b <=? 255) && (c <=? 255) && (d <=? 255)
    then Some (a * 16777216 + b * 65536 + c * 256 + d) else None
  | _ => None
  end.

Definition dchar (n : N) : ascii := ascii_of_N (48 + n).
(* decimal text of a number below 1000 *)
Definition dec3 (n : N) : bytes :=
  if n <? 10 then [dchar n]
  else if n <? 100 then [dchar (n / 10); dchar (n mod 10)]
  else [dchar (n / 100); dchar ((n / 10) mod 10); dchar (n mod 10)].

(* inet_ntoa / inet_ntop(AF_INET) *)
Definition print_v4 (v : N) : bytes :=
  dec3 (v / 16777216) ++ "." :: dec3 ((v / 65536) mod 256) ++ "." ::
  dec3 ((v / 256) mod 256) ++ "." :: dec3 (v mod 256).

(* strict dotted quad: inet_pton(AF_INET) and Python ipaddress.IPv4Address
   (four decimal octets, 1-3 digits, no leading zero, <= 255) *)
Definition strict_octet (p : bytes) : option N :=
  if nonempty p && forallb is_digit p && (lenN p <=? 3) then
    if (match p with c :: _ :: _ => Ascii.eqb c "0" | _ => false end) then None
    else if dec_val p <=? 255 then Some (dec_val p) else None
  else None.

Definition parse_v4_strict (s : bytes) : option N :=
  match map strict_octet (split_on "." s) with
  | [Some a; Some b; Some c; Some d] => Some (a * 16777216 + b * 65536 + c * 256 + d)
  | _ => None
  end.

(* IPv6 text -> eight 16-bit words; transcribed from ipaddress._BaseV6.
   _ip_int_from_string (same language as glibc inet_pton(AF_INET6)) *)
Inductive hx := HEmpty | HVal (n : N) | HBad.

Definition hextet (p : bytes) : hx :=
  match p with
  | [] => HEmpty
  | _ => if forallb is_hex p && (lenN p <=? 4) then HVal (hex_val p) else HBad
  end.

Fixpoint vals_of (l : list hx) : option (list N) :=
  match l with
  | [] => Some []
  | HVal n :: t => match vals_of t with Some r => Some (n :: r) | None => None end
  | _ => None
  end.

(* split a list at its first HEmpty *)
Fixpoint split_empty (l : list hx) : option (list hx * list hx) :=
  match l with
  | [] => None
  | HEmpty :: t => Some ([], t)
  | x :: t => match split_empty t with
              | Some (a, b) => Some (x :: a, b)
              | None => None
              end
  end.

Definition is_hempty (x : hx) : bool := match x with HEmpty => true | _ => false end.

Definition nonempty_hx (l : list hx) : bool := match l with [] => false | _ => true end.

Definition assemble_v6 (items : list hx) : option (list N) :=
  match items with
  | a :: rest =>
    match rev rest with
    | z :: rmid =>
      let mid := rev rmid in
      match split_empty mid with
      | None =>                               (* no '::' : exactly eight groups *)
        if Nat.eqb (length items) 8 then vals_of items else None
      | Some (pre, post) =>
        if existsb is_hempty post then None   (* at most one '::' *)
        else
          let hi := if is_hempty a then (if nonempty_hx pre then None else Some [])
                    else vals_of (a :: pre) in
          let lo := if is_hempty z then (if nonempty_hx post then None else Some [])
                    else vals_of (post ++ [z]) in
          match hi, lo with
          | Some h, Some l =>
            if Nat.ltb (length h + length l) 8
            then Some (h ++ repeat 0 (8 - length h - length l)%nat ++ l) else None
          | _, _ => None
          end
      end
    | [] => None
    end
  | [] => None
  end.

Definition parse_v6 (s : bytes) : option (list N) :=
  let parts := split_on ":" s in
  if Nat.ltb (length parts) 3 then None
  else
    let lastp := last parts [] in
    if mem_char "." lastp then
      match parse_v4_strict lastp with
      | Some v => assemble_v6 (map hextet (removelast parts) ++ [HVal (v / 65536); HVal (v mod 65536)])
      | None => None
      end
    else assemble_v6 (map hextet parts).

Definition hchar (n : N) : ascii := if n <? 10 then ascii_of_N (48 + n) else ascii_of_N (87 + n).
(* "%x" of a number below 65536 *)
Definition hex4 (n : N) : bytes :=
  if n <? 16 then [hchar n]
  else if n <? 256 then [hchar (n / 16); hchar (n mod 16)]
  else if n <? 4096 then [hchar (n / 256); hchar ((n / 16) mod 16); hchar (n mod 16)]
  else [hchar (n / 4096); hchar ((n / 256) mod 16); hchar ((n / 16) mod 16); hchar (n mod 16)].

Fixpoint zero_run (ws : list N) : nat :=
  match ws with
  | 0 :: t => S (zero_run t)
  | _ => O
  end.

(* first longest run of >= 2 zero words: (start, length) *)
Fixpoint best_run_from (i : nat) (ws : list N) (best : option (nat * nat)) : option (nat * nat) :=
  match ws with
  | [] => best
  | _ :: t =>
    let l := zero_run ws in
    let better := match best with None => true | Some (_, bl) => Nat.ltb bl l end in
    best_run_from (S i) t (if Nat.leb 2 l && better then Some (i, l) else best)
  end.
Definition best_run (ws : list N) : option (nat * nat) := best_run_from O ws None.

Definition COLON : bytes := [":"].

(* embed = true : glibc inet_ntop(AF_INET6) (what getaddrinfo returns), which
     writes ::a.b.c.d and ::ffff:a.b.c.d with a dotted tail;
   embed = false: str(ipaddress.IPv6Address) of Python 3.12 *)
Definition print_v6 (embed : bool) (ws : list N) : bytes :=
  match best_run ws with
  | None => join COLON (map hex4 ws)
  | Some (b, l) =>
    if embed && Nat.eqb b 0 &&
       (Nat.eqb l 6 || (Nat.eqb l 5 && (nth 5 ws 0 =? 65535)))
    then ":" :: ":" :: (if Nat.eqb l 5 then "f" :: "f" :: "f" :: "f" :: [":"] else []) ++
         print_v4 (nth 6 ws 0 * 65536 + nth 7 ws 0)
    else join COLON (map hex4 (firstn b ws)) ++ ":" :: ":" ::
         join COLON (map hex4 (skipn (b + l) ws))
  end.

(* ------------------------------------------------------------------ *)
(* getaddrinfo(host, port, 0, SOCK_STREAM)                             *)

(* the name table standing for DNS / hosts file: name -> [(family, address text)] *)
Definition resolver := bytes -> list (N * bytes).

(* encodings.idna, ASCII fast path: every label but the last has 1..63
   characters, the last 0..63; otherwise UnicodeError *)
Fixpoint idna_labels_ok (labels : list bytes) : bool :=
  match labels with
  | [] => true
  | [l] => lenN l <? 64
  | l :: t => (0 <? lenN l) && (lenN l <? 64) && idna_labels_ok t
  end.

Definition getaddrinfo (rs : resolver) (host : bytes) : res (list (N * bytes)) :=
  if negb (idna_labels_ok (split_on "." host)) then Raise EUnicode
  else match inet_aton host with
       | Some v => Ok [(AF_INET, print_v4 v)]
       | None =>
         match parse_v6 host with
         | Some ws => Ok [(AF_INET6, print_v6 true ws)]
         | None => match rs host with
                   | [] => Raise (EArgType MsgResolve)    (* socket.gaierror, options.py:56,123 *)
                   | l => Ok l
                   end
         end
       end.

(* glibc 2.36, numeric service text: strtoul -> int; negative or out of
   unsigned long range = unknown service (gaierror); sin_port = htons(int) *)
Definition gai_port (p : N) : option N :=
  if 18446744073709551615 <? p then None
  else if 2147483647 <? p mod 4294967296 then None
  else Some (p mod 65536).

(* ------------------------------------------------------------------ *)
(* options.py:38  parse_subnetport                                     *)

Definition subnet := (N * bytes * N * N * N)%type.   (* family, address, width, fport, lport *)

Definition max_width (family : N) : N := if family =? AF_INET then 32 else 128.

Definition opt_int (o : option bytes) : res N :=     (* int(x or 0) *)
  match o with
  | Some d => py_int d
  | None => Ok 0
  end.

Definition or_else (a b : option bytes) : option bytes :=
  match a with Some _ => a | None => b end.

Definition subnet_entry (cidr fp lp : option bytes) (a : N * bytes) : res subnet :=
  let '(family, addr) := a in
  let maxw := max_width family in
  match (match cidr with
         | None => Ok maxw
         | Some c => match py_int c with
                     | Ok w => if w <=? maxw then Ok w else Raise (EArgType MsgWidth)
                     | Raise e => Raise e
                     end
         end) with
  | Raise e => Raise e
  | Ok w =>
    match opt_int fp with
    | Raise e => Raise e
    | Ok f =>
      match opt_int (or_else lp fp) with
      | Raise e => Raise e
      | Ok l => Ok (family, addr, w, f, l)
      end
    end
  end.

Fixpoint subnet_entries (cidr fp lp : option bytes) (ai : list (N * bytes)) : res (list subnet) :=
  match ai with
  | [] => Ok []
  | a :: t =>
    match subnet_entry cidr fp lp a with
    | Raise e => Raise e
    | Ok x => match subnet_entries cidr fp lp t with
              | Raise e => Raise e
              | Ok r => Ok (x :: r)
              end
    end
  end.

Definition subnet_groups_gen (r6 : bytes -> option groups) (s : bytes) : option groups :=
  if Nat.ltb 1 (count_char ":" s) then r6 s else rx4 s.
Definition subnet_groups : bytes -> option groups := subnet_groups_gen rx6.

Definition parse_subnetport_gen (r6 : bytes -> option groups) (rs : resolver) (s : bytes)
  : res (list subnet) :=
  match subnet_groups_gen r6 s with
  | None => Raise (EArgType MsgFormat)
  | Some (host, cidr, fp, lp) =>
    match getaddrinfo rs host with
    | Raise e => Raise e
    | Ok ai =>
      let has4 := existsb (fun a => fst a =? AF_INET) ai in
      let has6 := existsb (fun a => fst a =? AF_INET6) ai in
      match cidr with
      | Some _ => if has4 && has6 then Raise (EArgType MsgMixed)
                  else subnet_entries cidr fp lp ai
      | None => subnet_entries cidr fp lp ai
      end
    end
  end.

Definition parse_subnetport : resolver -> bytes -> res (list subnet) := parse_subnetport_gen rx6.
(* the code as found (before the F23 repair) *)
Definition parse_subnetport_asfound : resolver -> bytes -> res (list subnet) :=
  parse_subnetport_gen rx6_asfound.

(* ------------------------------------------------------------------ *)
(* options.py:104  parse_ipport                                        *)

(* (?:\[([^]]+)])(?::(\d+))?$ *)
Definition rx_ip_bracket (s : bytes) : option (bytes * option bytes) :=
  match strip_char "[" s with
  | Some t =>
    let r := span (fun c => negb (Ascii.eqb c "]")) t in
    if nonempty (fst r) then
      match strip_char "]" (snd r) with
      | Some r1 =>
        let '(p, r2) := opt_colon_digits r1 in
        if is_eol r2 then Some (fst r, p) else None
      | None => None
      end
    else None
  | None => None
  end.

(* ([\w\.\-]+)(?::(\d+))?$ *)
Definition rx_ip_plain (s : bytes) : option (bytes * option bytes) :=
  let r := span is_host4 s in
  if nonempty (fst r) then
    let '(p, r1) := opt_colon_digits (snd r) in
    if is_eol r1 then Some (fst r, p) else None
  else None.

Definition ipport_groups (s : bytes) : option (bytes * option bytes) :=
  if nonempty s && forallb is_digit s then Some ([], Some s)          (* s.isdigit(): ()(\d+)$ *)
  else if mem_char "]" s then rx_ip_bracket s
  else rx_ip_plain s.

(* min() over (family, ..., (address, ...)) tuples *)
Definition ai_ltb (a b : N * bytes) : bool :=
  if fst a <? fst b then true
  else if fst b <? fst a then false
  else bytes_ltb (snd a) (snd b).

Fixpoint ai_min (cur : N * bytes) (l : list (N * bytes)) : N * bytes :=
  match l with
  | [] => cur
  | x :: t => ai_min (if ai_ltb x cur then x else cur) t
  end.

Definition ANY4 : bytes := ["0"; "."; "0"; "."; "0"; "."; "0"].

Definition parse_ipport (rs : resolver) (s : bytes) : res (N * bytes * N) :=
  match ipport_groups s with
  | None => Raise (EArgType MsgFormat)
  | Some (h, p) =>
    let host := if nonempty h then h else ANY4 in
    match opt_int p with
    | Raise e => Raise e
    | Ok port =>
      match getaddrinfo rs host with
      | Raise e => Raise e
      | Ok ai =>
        match gai_port port, ai with
        | Some port', a :: t => let m := ai_min a t in Ok (fst m, snd m, port')
        | _, _ => Raise (EArgType MsgResolve)
        end
      end
    end
  end.

(* ------------------------------------------------------------------ *)
(* cmdline.py:82-97  the --listen dispatch: the comma separated elements are
   read one by one with parse_ipport; an element of family AF_INET6 becomes
   the IPv6 listen address, any other the IPv4 one (a later element of a
   family replaces an earlier one).  No other option takes part: with
   --listen given, --disable-ipv6 is not consulted; without it the IPv4
   address is "auto" and the IPv6 one "auto" unless --disable-ipv6. *)

Inductive listen_ip :=
| LAuto                           (* "auto" *)
| LNone                           (* None *)
| LAddr (ip : bytes) (port : N).  (* (ip, port) *)

Definition is_fam6 (x : N * bytes * N) : bool := fst (fst x) =? AF_INET6.
Definition slot_of (x : N * bytes * N) : listen_ip := LAddr (snd (fst x)) (snd x).

(* the loop body, over the already parsed elements *)
Fixpoint listen_assign (l : list (N * bytes * N)) (v6 v4 : listen_ip) : listen_ip * listen_ip :=
  match l with
  | [] => (v6, v4)
  | x :: t => if is_fam6 x then listen_assign t (slot_of x) v4 else listen_assign t v6 (slot_of x)
  end.

(* the loop as written: the first element that does not parse raises *)
Fixpoint listen_loop (rs : resolver) (items : list bytes) (v6 v4 : listen_ip) : res (listen_ip * listen_ip) :=
  match items with
  | [] => Ok (v6, v4)
  | s :: t =>
    match parse_ipport rs s with
    | Raise e => Raise e
    | Ok x => if is_fam6 x then listen_loop rs t (slot_of x) v4 else listen_loop rs t v6 (slot_of x)
    end
  end.

(* -> (listenip_v6, listenip_v4) as handed to client.main;  `if opt.listen:` = given and not empty *)
Definition listen_dispatch (rs : resolver) (listen : option bytes) (disable_ipv6 : bool)
  : res (listen_ip * listen_ip) :=
  match listen with
  | Some s => if nonempty s then listen_loop rs (split_on "," s) LNone LNone
              else Ok (if disable_ipv6 then LNone else LAuto, LAuto)
  | None => Ok (if disable_ipv6 then LNone else LAuto, LAuto)
  end.

(* spec side: the last element of a family, None when the text has none *)
Fixpoint last_slot (p : N * bytes * N -> bool) (l : list (N * bytes * N)) (cur : listen_ip) : listen_ip :=
  match l with
  | [] => cur
  | x :: t => last_slot p t (if p x then slot_of x else cur)
  end.

(* spec side, with no hypothesis on the elements: a slot is empty or holds an element of the text, of the slot's family *)
Definition slot_from (rs : resolver) (all : list bytes) (want6 : bool) (v : listen_ip) : Prop :=
  match v with
  | LNone => True
  | LAuto => False
  | LAddr ip port => exists s fam, In s all /\ parse_ipport rs s = Ok (fam, ip, port) /\ (fam =? AF_INET6) = want6
  end.

(* ------------------------------------------------------------------ *)
(* ssh.py:33  parse_hostport                                           *)

(* ipaddress.ip_address(text) for a text that is not a dotted quad:
   IPv6 with optional %scope; result = str() of the address *)
Definition py_ip6_str (s : bytes) : option bytes :=
  let '(a, f, scope) := partition_on "%" s in
  if mem_char "/" s then None
  else if f && (negb (nonempty scope) || mem_char "%" scope) then None
  else match parse_v6 a with
       | Some ws => Some (print_v6 false ws ++ (if f then "%" :: scope else []))
       | None => None
       end.

(* str(ipaddress.ip_address(text)), None = ValueError *)
Definition py_ip_str (s : bytes) : option bytes :=
  match parse_v4_strict s with
  | Some v => Some (print_v4 v)
  | None => py_ip6_str s
  end.

(* urllib.parse._check_bracketed_host *)
Definition bracketed_host_ok (h : bytes) : bool :=
  match strip_char "v" h with
  | Some t =>                          (* \Av[a-fA-F0-9]+\..+\Z *)
    let r := span is_hex t in
    nonempty (fst r) &&
    match strip_char "." (snd r) with
    | Some rest => nonempty rest && negb (mem_char NL rest)
    | None => false
    end
  | None =>
    match parse_v4_strict h with
    | Some _ => false                  (* "An IPv4 address cannot be in brackets" *)
    | None => match py_ip6_str h with Some _ => true | None => false end
    end
  end.

Definition is_url_strip (c : ascii) : bool :=          (* _UNSAFE_URL_BYTES_TO_REMOVE *)
  Ascii.eqb c "009" || Ascii.eqb c "010" || Ascii.eqb c "013".
Definition is_netloc_end (c : ascii) : bool :=
  Ascii.eqb c "/" || Ascii.eqb c "?" || Ascii.eqb c "#".

(* urlparse('//' + host): (hostname, port text) or ValueError.
   The text never contains '@' here (it was split off at the last '@'). *)
Definition url_hostinfo (host : bytes) : res (option bytes * option bytes) :=
  let url := filter (fun c => negb (is_url_strip c)) host in
  let netloc := fst (span (fun c => negb (is_netloc_end c)) url) in
  let hasl := mem_char "[" netloc in
  let hasr := mem_char "]" netloc in
  if xorb hasl hasr then Raise EValue                         (* "Invalid IPv6 URL" *)
  else
    let '(_, have_br, bracketed) := partition_on "[" netloc in
    let '(hostname, porttxt) :=
        if have_br then
          let '(h, _, after) := partition_on "]" bracketed in
          let '(_, _, p) := partition_on ":" after in (h, p)
        else
          let '(h, _, p) := partition_on ":" netloc in (h, p) in
    if hasl && negb (bracketed_host_ok hostname) then Raise EValue
    else
      let hn := if nonempty hostname then
                  let '(h, f, zone) := partition_on "%" hostname in
                  Some (map to_lower h ++ (if f then "%" :: zone else []))
                else None in
      Ok (hn, if nonempty porttxt then Some porttxt else None).

(* SplitResult.port *)
Definition url_port (p : option bytes) : res (option N) :=
  match p with
  | None => Ok None
  | Some t =>
    if forallb is_digit t then
      match py_int t with
      | Ok n => if n <=? 65535 then Ok (Some n) else Raise EValue
      | Raise e => Raise e
      end
    else Raise EValue
  end.

(* (username, password, port, host); None stands for Python's None *)
Definition hostport := (option bytes * option bytes * option N * option bytes)%type.

(* ssh.py:61-79: the text after the last '@' -> (port, host) *)
Definition host_part (host0 : bytes) : res (option N * option bytes) :=
  if mem_char ":" host0 then
    match py_ip_str host0 with
    | Some h => Ok (None, Some h)
    | None =>
      match url_hostinfo host0 with
      | Raise e => Raise e
      | Ok (hn, ptxt) =>
        let host := match hn with
                    | Some h => match py_ip_str h with Some c => Some c | None => Some h end
                    | None => None
                    end in
        match url_port ptxt with
        | Raise e => Raise e
        | Ok port => Ok (port, host)
        end
      end
    end
  else Ok (None, Some host0).

Definition parse_hostport (rhostport : bytes) : res hostport :=
  match rhostport with
  | [] => Ok (None, None, None, None)
  | _ =>
    let '(user0, host0) :=
        match rsplit_last "@" rhostport with
        | Some (u, h) => (Some u, h)
        | None => (None, rhostport)
        end in
    let '(user, pass) :=
        match user0 with
        | Some u =>
          let '(a, f, b) := partition_on ":" u in
          if f then (Some a, Some b) else (Some u, None)
        | None => (None, None)
        end in
    let pass' := match pass with Some [] => None | _ => pass end in
    match host_part host0 with
    | Raise e => Raise e
    | Ok (port, host) => Ok (user, pass', port, host)
    end
  end.

(* ------------------------------------------------------------------ *)
(* cmdline.py:18-24 + argparse store actions                           *)

(* A command line reduced to its store-type option occurrences, in order:
   (destination, value).  argparse applies them left to right with setattr,
   so the last occurrence wins; an absent option keeps its default. *)
Definition assignments := list (bytes * bytes).

Fixpoint last_value (dest : bytes) (cur : option bytes) (a : assignments) : option bytes :=
  match a with
  | [] => cur
  | (d, v) :: t => last_value dest (if bytes_eqb d dest then Some v else cur) t
  end.

Definition effective (dest : bytes) (a : assignments) : option bytes := last_value dest None a.

(* args = [*env_args, *sys.argv[1:]] *)
Definition merge_args (env cli : assignments) : assignments := env ++ cli.

(* ------------------------------------------------------------------ *)
(* Rendering of specifications (the "spec side" of the round-trip)     *)

Record subnet_spec := mkSpec {
  sp_host : bytes;
  sp_width : option bytes;            (* decimal digits *)
  sp_ports : option (bytes * option bytes)
}.

Definition render_ports (p : option (bytes * option bytes)) : bytes :=
  match p with
  | None => []
  | Some (f, None) => ":" :: f
  | Some (f, Some l) => ":" :: f ++ "-" :: l
  end.

Definition render_width (w : option bytes) : bytes :=
  match w with None => [] | Some d => "/" :: d end.

(* a.b.c.d[/w][:p[-q]]   and  name[/w][:p[-q]] *)
Definition render4 (sp : subnet_spec) : bytes :=
  sp_host sp ++ render_width (sp_width sp) ++ render_ports (sp_ports sp).

(* x:y::z[/w]   or, with a port,  [x:y::z[/w]]:p[-q] *)
Definition render6 (sp : subnet_spec) : bytes :=
  match sp_ports sp with
  | None => sp_host sp ++ render_width (sp_width sp)
  | Some _ => "[" :: sp_host sp ++ render_width (sp_width sp) ++ "]" :: render_ports (sp_ports sp)
  end.

(* well-formedness of a specification: the alphabets the manual's forms use *)
Definition digits_ok (d : bytes) : bool := nonempty d && forallb is_digit d.
Definition short (d : bytes) : bool := lenN d <=? MAX_STR_DIGITS.
Definition width_ok (w : option bytes) : bool :=
  match w with None => true | Some d => digits_ok d end.
Definition ports_ok (p : option (bytes * option bytes)) : bool :=
  match p with
  | None => true
  | Some (f, None) => digits_ok f
  | Some (f, Some l) => digits_ok f && digits_ok l
  end.
Definition name4_ok (h : bytes) : bool := nonempty h && forallb is_host4 h.       (* [\w.-]+ *)
Definition host4_ok (h : bytes) : bool :=                                          (* (\*\.)?[\w.-]+ *)
  match strip_star h with Some t => name4_ok t | None => name4_ok h end.
Definition host6_ok (h : bytes) : bool :=              (* [\w:.]+ with at least two ':' *)
  nonempty h && forallb is_host6 h && Nat.ltb 1 (count_char ":" h).

Definition spec_fport (sp : subnet_spec) : option bytes :=
  match sp_ports sp with Some (f, _) => Some f | None => None end.
Definition spec_lport (sp : subnet_spec) : option bytes :=
  match sp_ports sp with Some (_, l) => l | None => None end.
Definition spec_ok (sp : subnet_spec) : bool := width_ok (sp_width sp) && ports_ok (sp_ports sp).
(* every digit run is short enough for int() *)
Definition spec_short (sp : subnet_spec) : bool :=
  match sp_width sp with None => true | Some d => short d end &&
  match sp_ports sp with
  | None => true
  | Some (f, None) => short f
  | Some (f, Some l) => short f && short l
  end.
Definition spec_width_val (family : N) (sp : subnet_spec) : N :=
  match sp_width sp with None => max_width family | Some d => dec_val d end.
Definition spec_fport_val (sp : subnet_spec) : N :=
  match sp_ports sp with None => 0 | Some (f, _) => dec_val f end.
Definition spec_lport_val (sp : subnet_spec) : N :=
  match sp_ports sp with
  | None => 0
  | Some (f, None) => dec_val f
  | Some (_, Some l) => dec_val l
  end.

(* the text has no occurrence of c *)
Definition lacks (c : ascii) (l : bytes) : bool := forallb (fun k => negb (Ascii.eqb k c)) l.

(* numbers-and-dots spellings of an IPv4 address (inet_aton(3)): each part is
   written in decimal, in hexadecimal after 0x/0X, or in octal after 0 *)
Inductive radix := RDec | RHex (upper_x : bool) | ROct.
Definition part := (radix * bytes)%type.
Definition X_UP : ascii := "X".
Definition X_LO : ascii := "x".
Definition ZERO : ascii := "0".
Definition part_text (p : part) : bytes :=
  match fst p with
  | RDec => snd p
  | RHex u => ZERO :: (if u then X_UP else X_LO) :: snd p
  | ROct => ZERO :: snd p
  end.
Definition part_ok (p : part) : bool :=
  match fst p with
  | RDec => digits_ok (snd p) &&
            match snd p with c :: _ :: _ => negb (Ascii.eqb c ZERO) | _ => true end
  | RHex _ => nonempty (snd p) && forallb is_hex (snd p)
  | ROct => forallb is_oct (snd p)
  end.
Definition part_val (p : part) : N :=
  match fst p with
  | RDec => dec_val (snd p)
  | RHex _ => hex_val (snd p)
  | ROct => oct_val (snd p)
  end.
Definition DOT : bytes := ["."].
Definition spelling_text (ps : list part) : bytes := join DOT (map part_text ps).
(* a.b.c.d | a.b.(16 bits) | a.(24 bits) | (32 bits) *)
Definition spelling_val (ps : list part) : option N :=
  match map part_val ps with
  | [a] => if a <=? 4294967295 then Some a else None
  | [a; b] => if (a <=? 255) && (b <=? 16777215) then Some (a * 16777216 + b) else None
  | [a; b; c] => if (a <=? 255) && (b <=? 255) && (c <=? 65535)
                 then Some (a * 16777216 + b * 65536 + c) else None
  | [a; b; c; d] => if (a <=? 255) && (b <=? 255) && (c <=? 255) && (d <=? 255)
                    then Some (a * 16777216 + b * 65536 + c * 256 + d) else None
  | _ => None
  end.

(* table lookup used by the driver *)
Fixpoint tbl_lookup (tbl : list (bytes * list (N * bytes))) (h : bytes) : list (N * bytes) :=
  match tbl with
  | [] => []
  | (k, v) :: t => if bytes_eqb k h then v else tbl_lookup t h
  end.
