(* Model/Dgram.v — executable model of sshuttle's datagram core with virtual time.
   Client: sshuttle/client.py  dnsreqs, udp_by_src (470-471), expire_connections (474-494),
           onaccept_tcp's allocation + expiry (522-531), udp_done (534-538), onaccept_udp (541-560),
           dns_done (563-567), ondns (570-588); Mux.got_packet's final else branch (ssnet.py 433-439);
           methods/__init__.py recv_udp/send_udp (71-82), methods/tproxy.py recv_udp/send_udp (20-96).
   Server: sshuttle/server.py  DnsProxy (169-253), UdpProxy (256-284), dns_req/udp_req/udp_open
           (368-406), the sweeps in main (420-438); ssnet.py runonce (584-609), Mux.got_packet (394-439).
   The model is the code AFTER the repairs F3, F4, F10, F16, F80 (pending_fixes/); every step function takes
   a `fixes` record and the `_asfound` variants (all flags false) are the code as found.
   Definitions only; proofs live in Proofs/Dgram_lemmas.v.                                           *)
From Coq Require Import List NArith Ascii Bool.
From SV Require Import Lib.Bytes Lib.DgramLib Model.Chan Gen.Consts.
Import ListNotations.
Local Open Scope N_scope.

(* ------------------------------------------------------------------ *)
(* results: Python exceptions are values                               *)

Inductive exn :=
| XStruct      (* struct.error *)
| XValue       (* ValueError *)
| XOSError     (* socket.error / OSError *)
| XAssert      (* AssertionError *)
| XKey         (* KeyError *)
| XUnbound     (* UnboundLocalError *)
| XOverflow    (* OverflowError *)
| XType        (* TypeError *)
| XException.  (* plain Exception *)

Inductive res (A : Type) :=
| Ok (a : A)
| Fatal                 (* sshuttle.helpers.Fatal *)
| Crash (x : exn).      (* anything else: the process dies with a traceback *)
Arguments Ok {A} a.
Arguments Fatal {A}.
Arguments Crash {A} x.

Definition bind {A B} (r : res A) (f : A -> res B) : res B :=
  match r with Ok a => f a | Fatal => Fatal | Crash x => Crash x end.
Notation "'do' x <- r ; k" := (bind r (fun x => k)) (at level 200, x pattern, r at level 100, k at level 200).

(* which of the four repairs are present; all_fixed is the modelled code *)
Record fixes := { fx3 : bool; fx4 : bool; fx10 : bool; fx16 : bool; fx80 : bool }.
Definition all_fixed : fixes := {| fx3 := true; fx4 := true; fx10 := true; fx16 := true; fx80 := true |}.
Definition as_found : fixes := {| fx3 := false; fx4 := false; fx10 := false; fx16 := false; fx80 := false |}.

Definition TIMEOUT : N := 30.        (* the literal 30 in client.py 555,584 and server.py 173 *)
Definition BUFSIZE : N := 4096.      (* recv_udp(listener, 4096), recv(4096), recvfrom(4096) *)

(* Mux.send (ssnet.py 382-387): assert len(data) <= 65535; struct.pack('!ccHHH') *)
Definition mux_check (ch cmd : N) (data : bytes) : res unit :=
  if 65535 <? lenN data then Crash XAssert
  else if (65535 <? ch) || (65535 <? cmd) then Crash XStruct
  else Ok tt.

(* "ip,port," + payload : client.py 557-558 (b"%s,%d,") and server.py 283 (b("%s,%r,")) *)
Definition dgram_hdr (a : addr) (data : bytes) : bytes :=
  fst a ++ comma :: dec (snd a) ++ comma :: data.

(* ================================================================== *)
(* CLIENT                                                              *)

Inductive method := MBase | MTproxy.

Record ccfg := { cc_method : method; cc_maxc : N; cc_family : N }.

(* what mux.channels[chan] holds.  KDns: the lambda of client.py 586-587 with
   srcip=dstip (recorded original destination, None when the method cannot tell)
   and dstip=srcip (the asker); q is a ghost query number (no effect on behaviour).
   KUdp: the lambda of 552-553 (dstip=srcip).  KTcp: MuxWrapper.got_packet.        *)
Inductive ckind :=
| KDns (q : N) (from : option addr) (to : addr)
| KUdp (src : addr)
| KTcp.

Record cstate := {
  c_chan : list (N * ckind);          (* mux.channels *)
  c_chani : N;                        (* mux.chani *)
  c_dns : list (N * N);               (* dnsreqs : chan -> deadline *)
  c_udp : list (addr * (N * N));      (* udp_by_src : source -> (chan, deadline) *)
  c_nq : N                            (* ghost: number of DNS queries accepted so far *)
}.

Definition c_init : cstate := {| c_chan := []; c_chani := 0; c_dns := []; c_udp := []; c_nq := 0 |}.

Inductive cout :=
| OFrame (ch cmd : N) (data : bytes)                                  (* mux.send *)
| ODgram (q : option N) (from : option addr) (to : addr) (data : bytes). (* a datagram leaves the client:
      `from` = address the sending socket was bound to (None: the listener socket itself) *)

Inductive sendres := SendOk | SendErr (e : N).    (* outcome of the socket calls inside send_udp *)

Inductive cevent :=
| EDns (now : N) (src : addr) (dst : option addr) (data : bytes)   (* DNS listener readable: ondns *)
| EUdp (now : N) (src : addr) (dst : option addr) (data : bytes)   (* UDP listener readable: onaccept_udp *)
| ETcp (now : N) (family : N) (dst : addr)                         (* TCP accept reaching next_channel *)
| EFrame (ch : N) (data : bytes) (sr : sendres)                    (* frame from the server dispatched by the
                                                                      final else of Mux.got_packet *)
| ETcpEnd (ch : N).                                                (* the TCP flow on identifier ch is over: its
                                                                      MuxWrapper does noread() + nowrite() *)

Definition c_occ (c : cstate) (ch : N) : bool := amem N.eqb ch (c_chan c).

Definition dns_expired (now : N) (p : N * N) : bool := snd p <? now.
Definition udp_expired (now : N) (p : addr * (N * N)) : bool := snd (snd p) <? now.

(* first loop of expire_connections: del mux.channels[chan] for each expired entry *)
Fixpoint expire_dns_loop (exp : list (N * N)) (chan : list (N * ckind)) : res (list (N * ckind)) :=
  match exp with
  | [] => Ok chan
  | (ch, _) :: tl =>
    if amem N.eqb ch chan then expire_dns_loop tl (adel N.eqb ch chan) else Crash XKey
  end.

(* second loop: mux.send(chan, CMD_UDP_CLOSE, b''); del mux.channels[chan] *)
Fixpoint expire_udp_loop (exp : list (addr * (N * N))) (chan : list (N * ckind))
  : res (list (N * ckind) * list cout) :=
  match exp with
  | [] => Ok (chan, [])
  | (_, (ch, _)) :: tl =>
    do _ <- mux_check ch CMD_UDP_CLOSE [];
    if amem N.eqb ch chan then
      do r <- expire_udp_loop tl (adel N.eqb ch chan);
      Ok (fst r, OFrame ch CMD_UDP_CLOSE [] :: snd r)
    else Crash XKey
  end.

Definition expire (now : N) (c : cstate) : res (cstate * list cout) :=
  do chan1 <- expire_dns_loop (filter (dns_expired now) (c_dns c)) (c_chan c);
  do r <- expire_udp_loop (filter (udp_expired now) (c_udp c)) chan1;
  Ok ({| c_chan := fst r; c_chani := c_chani c;
         c_dns := filter (fun p => negb (dns_expired now p)) (c_dns c);
         c_udp := filter (fun p => negb (udp_expired now p)) (c_udp c);
         c_nq := c_nq c |}, snd r).

Definition set_chani (c : cstate) (i : N) : cstate :=
  {| c_chan := c_chan c; c_chani := i; c_dns := c_dns c; c_udp := c_udp c; c_nq := c_nq c |}.

Definition prepend {S O} (o : list O) (r : S * list O) : S * list O := (fst r, o ++ snd r).

(* ondns (client.py 570-588 + F3 repair) *)
Definition ondns (fx : fixes) (cfg : ccfg) (now : N) (src : addr) (dst : option addr) (payload : bytes)
  (c : cstate) : res (cstate * list cout) :=
  match cc_method cfg, dst with
  | MTproxy, None => Ok (c, [])          (* tproxy recv_udp returned None: `if t is None: return` *)
  | _, _ =>
    let dst' := match cc_method cfg with MBase => None | MTproxy => dst end in
    let data := takeN BUFSIZE payload in
    let a := next_channel (cc_maxc cfg) (c_occ c) (c_chani c) in
    let c0 := set_chani c (snd a) in
    match fst a with
    | None =>
      if fx3 fx then expire now c0          (* repaired: log, expire, drop the datagram *)
      else Crash XStruct                    (* as found: mux.send(None, ...) -> struct.error *)
    | Some ch =>
      let dns1 := aset N.eqb ch (now + TIMEOUT) (c_dns c) in        (* dnsreqs[chan] = now + 30 *)
      do _ <- mux_check ch CMD_DNS_REQ data;                        (* mux.send(chan, CMD_DNS_REQ, data) *)
      let chan1 := aset N.eqb ch (KDns (c_nq c) dst' src) (c_chan c) in   (* mux.channels[chan] = lambda *)
      do r <- expire now {| c_chan := chan1; c_chani := snd a; c_dns := dns1; c_udp := c_udp c;
                            c_nq := c_nq c + 1 |};
      Ok (prepend [OFrame ch CMD_DNS_REQ data] r)
    end
  end.

(* the common tail of onaccept_udp (client.py 555-560) *)
Definition udp_forward (now : N) (src dst : addr) (data : bytes) (ch : N) (c : cstate) (pre : list cout)
  : res (cstate * list cout) :=
  let udp1 := aset addr_eqb src (ch, now + TIMEOUT) (c_udp c) in   (* udp_by_src[srcip] = chan, now + 30 *)
  let body := dgram_hdr dst data in
  do _ <- mux_check ch CMD_UDP_DATA body;
  do r <- expire now {| c_chan := c_chan c; c_chani := c_chani c; c_dns := c_dns c; c_udp := udp1;
                        c_nq := c_nq c |};
  Ok (prepend (pre ++ [OFrame ch CMD_UDP_DATA body]) r).

(* onaccept_udp (client.py 541-560 + F3 repair) *)
Definition onaccept_udp (fx : fixes) (cfg : ccfg) (now : N) (src : addr) (dst : option addr)
  (payload : bytes) (c : cstate) : res (cstate * list cout) :=
  match cc_method cfg, dst with
  | MTproxy, None => Ok (c, [])
  | MBase, _ => Crash XType              (* dstip is None: dstip[0] raises TypeError (never configured:
                                            the base method does not offer UDP) *)
  | MTproxy, Some d =>
    let data := takeN BUFSIZE payload in
    match alookup addr_eqb src (c_udp c) with
    | Some (ch, _) => udp_forward now src d data ch c []
    | None =>
      let a := next_channel (cc_maxc cfg) (c_occ c) (c_chani c) in
      let c0 := set_chani c (snd a) in
      match fst a with
      | None => if fx3 fx then expire now c0 else Crash XStruct
      | Some ch =>
        let chan1 := aset N.eqb ch (KUdp src) (c_chan c) in
        let opn := dec (cc_family cfg) in                          (* b"%d" % listener.family *)
        do _ <- mux_check ch CMD_UDP_OPEN opn;
        udp_forward now src d data ch
          {| c_chan := chan1; c_chani := snd a; c_dns := c_dns c; c_udp := c_udp c; c_nq := c_nq c |}
          [OFrame ch CMD_UDP_OPEN opn]
      end
    end
  end.

(* onaccept_tcp from `chan = mux.next_channel()` on (client.py 522-531); the
   accepted socket itself belongs to the stream core *)
Definition onaccept_tcp (cfg : ccfg) (now : N) (family : N) (dst : addr) (c : cstate)
  : res (cstate * list cout) :=
  let a := next_channel (cc_maxc cfg) (c_occ c) (c_chani c) in
  let c0 := set_chani c (snd a) in
  match fst a with
  | None => Ok (c0, [])                  (* 'too many open channels': return without expiry *)
  | Some ch =>
    let body := dec family ++ comma :: fst dst ++ comma :: dec (snd dst) in
    do _ <- mux_check ch CMD_TCP_CONNECT body;
    let chan1 := aset N.eqb ch KTcp (c_chan c) in
    do r <- expire now {| c_chan := chan1; c_chani := snd a; c_dns := c_dns c; c_udp := c_udp c;
                          c_nq := c_nq c |};
    Ok (prepend [OFrame ch CMD_TCP_CONNECT body] r)
  end.

(* A TCP flow ends (ssnet.py 493-519): MuxWrapper.noread() sends TCP_STOP_SENDING, nowrite() sends TCP_EOF, and
   with both directions shut maybe_close() does `self.mux.channels[self.channel] = None` - the key STAYS in the
   dict with the value None (DNS / UDP flows `del` theirs).  c_chan represents a None-valued key by the absence of
   the key: every reader of mux.channels in the modelled code treats the two alike - `not self.channels.get(c)`
   in next_channel (ssnet.py 367: an identifier whose TCP flow is finished is FREE), `self.channels.get(channel)`
   in got_packet (ssnet.py 443) - and `del mux.channels[chan]` is only ever applied to the identifier of a live
   DNS / UDP flow.  An identifier that is not that of a live TCP flow: the environment has no wrapper to end.   *)
Definition tcp_end (ch : N) (c : cstate) : res (cstate * list cout) :=
  match alookup N.eqb ch (c_chan c) with
  | Some KTcp =>
    do _ <- mux_check ch CMD_TCP_STOP_SENDING [];
    do _ <- mux_check ch CMD_TCP_EOF [];
    Ok ({| c_chan := adel N.eqb ch (c_chan c); c_chani := c_chani c; c_dns := c_dns c; c_udp := c_udp c;
           c_nq := c_nq c |},
        [OFrame ch CMD_TCP_STOP_SENDING []; OFrame ch CMD_TCP_EOF []])
  | _ => Ok (c, [])
  end.

(* method.send_udp(sock, srcip=from, dstip=to, data) + F16 repair (socket.error caught by the caller) *)
Definition send_udp (fx : fixes) (m : method) (q : option N) (from : option addr) (to : addr)
  (data : bytes) (sr : sendres) : res (list cout) :=
  let emit f :=
    match sr with
    | SendOk => Ok [ODgram q f to data]
    | SendErr _ => if fx16 fx then Ok [] else Crash XOSError
    end in
  match m with
  | MBase => match from with Some _ => Fatal | None => emit None end
  | MTproxy => match from with None => Ok [] | Some f => emit (Some f) end
  end.

(* Mux.got_packet's else branch: callback = self.channels.get(channel) *)
Definition got_packet (fx : fixes) (cfg : ccfg) (ch : N) (data : bytes) (sr : sendres) (c : cstate)
  : res (cstate * list cout) :=
  match alookup N.eqb ch (c_chan c) with
  | None => Ok (c, [])                                   (* 'warning: closed channel' *)
  | Some (KDns q from to) =>                             (* dns_done *)
    if amem N.eqb ch (c_dns c) then
      let c' := {| c_chan := adel N.eqb ch (c_chan c); c_chani := c_chani c;
                   c_dns := adel N.eqb ch (c_dns c); c_udp := c_udp c; c_nq := c_nq c |} in
      do o <- send_udp fx (cc_method cfg) (Some q) from to data sr;
      Ok (c', o)
    else Crash XKey
  | Some (KUdp src) =>                                   (* udp_done *)
    match split3 data with
    | None => Crash XValue
    | Some (a, p, d) =>
      match undec p with
      | None => Crash XValue
      | Some port =>
        do o <- send_udp fx (cc_method cfg) None (Some (a, port)) src d sr;
        Ok (c, o)
      end
    end
  | Some KTcp => Crash XException                         (* MuxWrapper.got_packet: 'unknown command' *)
  end.

Definition cstep (fx : fixes) (cfg : ccfg) (c : cstate) (e : cevent) : res (cstate * list cout) :=
  match e with
  | EDns now src dst data => ondns fx cfg now src dst data c
  | EUdp now src dst data => onaccept_udp fx cfg now src dst data c
  | ETcp now fam dst => onaccept_tcp cfg now fam dst c
  | EFrame ch data sr => got_packet fx cfg ch data sr c
  | ETcpEnd ch => tcp_end ch c
  end.

(* a run stops at the first exception (the client process is gone) *)
Fixpoint crun (fx : fixes) (cfg : ccfg) (c : cstate) (evs : list cevent)
  : cstate * list (list cout) * res unit :=
  match evs with
  | [] => (c, [], Ok tt)
  | e :: tl =>
    match cstep fx cfg c e with
    | Ok (c', o) => let '(c'', os, r) := crun fx cfg c' tl in (c'', o :: os, r)
    | Fatal => (c, [], Fatal)
    | Crash x => (c, [], Crash x)
    end
  end.

Definition cstep_asfound := cstep as_found.

(* ================================================================== *)
(* SERVER                                                              *)

Inductive fcmd := FDnsReq | FUdpOpen | FUdpData | FUdpClose | FOther.

Record scfg := {
  sc_to_ns : option (bytes * N);     (* --to-ns host@port *)
  sc_sysns : list bytes              (* name servers of /etc/resolv.conf on the remote host *)
}.

(* answers of the environment to the socket calls made inside one iteration,
   consumed in call order; a call that finds the script empty succeeds *)
Inductive io_item :=
| IoOk
| IoErr (e : N)
| IoData (d : bytes)
| IoFrom (d : bytes) (peer : addr)
| IoNs (k : N).                      (* which name server get_random_nameserver picks *)

Record dnsp := {
  d_chan : N; d_tag : N (* ghost *); d_timeout : N; d_tries : N; d_request : bytes;
  d_socks : list N; d_ok : bool
}.
Record udpp := { u_chan : N; u_sock : N; u_ok : bool }.
Inductive shandler := HDns (d : dnsp) | HUdp (u : udpp).

Record sstate := {
  s_h : list (N * shandler);         (* handlers, in list order, keyed by an object identity *)
  s_dnsh : list (N * N);             (* dnshandlers : chan -> handler *)
  s_udph : list (N * N);             (* udphandlers : chan -> handler *)
  s_chan : list N;                   (* keys of mux.channels (values are udp_req closures) *)
  s_nsock : N;                       (* sockets created so far *)
  s_nhid : N                         (* handlers created so far *)
}.

Definition s_init : sstate :=
  {| s_h := []; s_dnsh := []; s_udph := []; s_chan := []; s_nsock := 0; s_nhid := 0 |}.

Inductive sout :=
| SFrame (ch cmd : N) (data : bytes) (tag : N)         (* mux.send; tag is ghost *)
| SUdpSock (sock family : N)                           (* socket.socket(family, SOCK_DGRAM) in UdpProxy *)
| SConnect (sock : N) (to : addr) (ok : bool)
| SSend (sock : N) (data : bytes) (ok : bool)
| SSendto (sock : N) (to : addr) (data : bytes) (ok : bool).

Definition pop (io : list io_item) : io_item * list io_item :=
  match io with [] => (IoOk, []) | x :: tl => (x, tl) end.

Definition is_net_err (e : N) : bool := existsb (N.eqb e) NET_ERRS.

Definition localhost : bytes := ["1"%char; "2"%char; "7"%char; "."%char; "0"%char; "."%char; "0"%char; "."%char; "1"%char].

Definition pick_ns (sysns : list bytes) (k : N) : bytes :=
  match sysns with
  | [] => localhost
  | _ => nth (N.to_nat (k mod N.of_nat (length sysns))) sysns localhost
  end.

Definition mem (x : N) (l : list N) : bool := existsb (N.eqb x) l.

Definition set_tries (d : dnsp) (t : N) : dnsp :=
  {| d_chan := d_chan d; d_tag := d_tag d; d_timeout := d_timeout d; d_tries := t;
     d_request := d_request d; d_socks := d_socks d; d_ok := d_ok d |}.
Definition set_socks (d : dnsp) (l : list N) : dnsp :=
  {| d_chan := d_chan d; d_tag := d_tag d; d_timeout := d_timeout d; d_tries := d_tries d;
     d_request := d_request d; d_socks := l; d_ok := d_ok d |}.
Definition set_dok (d : dnsp) (b : bool) : dnsp :=
  {| d_chan := d_chan d; d_tag := d_tag d; d_timeout := d_timeout d; d_tries := d_tries d;
     d_request := d_request d; d_socks := d_socks d; d_ok := b |}.
Definition set_uok (u : udpp) (b : bool) : udpp :=
  {| u_chan := u_chan u; u_sock := u_sock u; u_ok := b |}.

(* who the query goes to (server.py 201-208; _addrinfo: port 0 means 53) *)
Definition dns_target (cfg : scfg) (io : list io_item) : addr * list io_item :=
  match sc_to_ns cfg with
  | Some (p, port) => ((p, if port =? 0 then 53 else port), io)
  | None =>
    let a := pop io in
    let k := match fst a with IoNs k => k | _ => 0 end in
    ((pick_ns (sc_sysns cfg) k, 53), snd a)
  end.

(* DnsProxy.try_send (server.py 196-229 + F10 repair).  `left` = 3 - self.tries,
   so `if self.tries >= 3: return` is `left = 0`.                                 *)
Fixpoint try_send (fx : fixes) (cfg : scfg) (left : nat) (d : dnsp) (nsock : N) (io : list io_item)
  : res (dnsp * N * list io_item * list sout) :=
  match left with
  | O => Ok (d, nsock, io, [])
  | S left' =>
    let d1 := set_tries d (d_tries d + 1) in
    let t := dns_target cfg io in
    let target := fst t in
    let sock := nsock in                                     (* socket.socket(family, SOCK_DGRAM) *)
    let c := pop (snd t) in                                  (* sock.connect(sockaddr) *)
    match fst c with
    | IoErr e =>
      if fx10 fx then
        if is_net_err e then
          do r <- try_send fx cfg left' d1 (nsock + 1) (snd c);
          let '(d2, n2, io2, o2) := r in
          Ok (d2, n2, io2, SConnect sock target false :: o2)
        else Ok (d1, nsock + 1, snd c, [SConnect sock target false])
      else Crash XOSError                                    (* as found: connect is outside the try *)
    | _ =>
      let s := pop (snd c) in                                (* sock.send(self.request) *)
      match fst s with
      | IoErr e =>
        let o := [SConnect sock target true; SSend sock (d_request d) false] in
        if is_net_err e then
          do r <- try_send fx cfg left' d1 (nsock + 1) (snd s);
          let '(d2, n2, io2, o2) := r in
          Ok (d2, n2, io2, o ++ o2)
        else Ok (d1, nsock + 1, snd s, o)
      | _ =>
        Ok (set_socks d1 (d_socks d1 ++ [sock]), nsock + 1, snd s,
            [SConnect sock target true; SSend sock (d_request d) true])
      end
    end
  end.

Definition tries_left (d : dnsp) : nat := N.to_nat (3 - d_tries d).

(* dns_req (server.py 370-374) with the DnsProxy constructor *)
Definition dns_req (fx : fixes) (cfg : scfg) (now : N) (ch : N) (data : bytes) (tag : N)
  (s : sstate) (io : list io_item) : res (sstate * list io_item * list sout) :=
  let d0 := {| d_chan := ch; d_tag := tag; d_timeout := now + TIMEOUT; d_tries := 0;
               d_request := data; d_socks := []; d_ok := true |} in
  do r <- try_send fx cfg (tries_left d0) d0 (s_nsock s) io;
  let '(d, nsock, io', outs) := r in
  let hid := s_nhid s in
  Ok ({| s_h := s_h s ++ [(hid, HDns d)]; s_dnsh := aset N.eqb ch hid (s_dnsh s);
         s_udph := s_udph s; s_chan := s_chan s; s_nsock := nsock; s_nhid := hid + 1 |}, io', outs).

(* udp_open (server.py 394-405) with the UdpProxy constructor *)
Definition udp_open (ch : N) (data : bytes) (s : sstate) (io : list io_item)
  : res (sstate * list io_item * list sout) :=
  match undec data with
  | None => Crash XValue                                     (* int(data) *)
  | Some fam =>
    let chan1 := if mem ch (s_chan s) then s_chan s else s_chan s ++ [ch] in
    if amem N.eqb ch (s_udph s) then Fatal                   (* 'UDP connection channel %d already open' *)
    else
      let hid := s_nhid s in
      let sock := s_nsock s in
      Ok ({| s_h := s_h s ++ [(hid, HUdp {| u_chan := ch; u_sock := sock; u_ok := true |})];
             s_dnsh := s_dnsh s; s_udph := aset N.eqb ch hid (s_udph s); s_chan := chan1;
             s_nsock := sock + 1; s_nhid := hid + 1 |}, io, [SUdpSock sock fam])
  end.

Definition set_handler (s : sstate) (hid : N) (h : shandler) (nsock : N) : sstate :=
  {| s_h := aset N.eqb hid h (s_h s); s_dnsh := s_dnsh s; s_udph := s_udph s; s_chan := s_chan s;
     s_nsock := nsock; s_nhid := s_nhid s |}.

Definition remove_chan (ch : N) (l : list N) : list N := filter (fun x => negb (N.eqb x ch)) l.

(* udp_req (server.py 379-392 + F80 repair: UDP_CLOSE also forgets udphandlers[channel]; as found the entry
   stays until the sweep after runonce), reached through mux.channels[channel] *)
Definition udp_req (fx : fixes) (ch : N) (cmd : fcmd) (data : bytes) (s : sstate) (io : list io_item)
  : res (sstate * list io_item * list sout) :=
  match cmd with
  | FUdpData =>
    match split3 data with
    | None => Crash XValue
    | Some (a, p, d) =>
      match undec p with
      | None => Crash XValue
      | Some port =>
        match alookup N.eqb ch (s_udph s) with
        | None => Crash XKey
        | Some hid =>
          match alookup N.eqb hid (s_h s) with
          | Some (HUdp u) =>
            if 65535 <? port then Crash XOverflow            (* sendto(): port must be 0-65535 *)
            else
              let r := pop io in
              let ok := match fst r with IoErr _ => false | _ => true end in
              Ok (s, snd r, [SSendto (u_sock u) (a, port) d ok])     (* UdpProxy.send: errors are logged *)
          | _ => Crash XKey
          end
        end
      end
    end
  | FUdpClose =>
    match alookup N.eqb ch (s_udph s) with
    | None => Crash XKey
    | Some hid =>
      match alookup N.eqb hid (s_h s) with
      | Some (HUdp u) =>
        let s1 := set_handler s hid (HUdp (set_uok u false)) (s_nsock s) in
        Ok ({| s_h := s_h s1; s_dnsh := s_dnsh s1;
               s_udph := if fx80 fx then adel N.eqb ch (s_udph s1) else s_udph s1;
               s_chan := remove_chan ch (s_chan s1); s_nsock := s_nsock s1; s_nhid := s_nhid s1 |}, io, [])
      | _ => Crash XKey
      end
    end
  | _ => Ok (s, io, [])
  end.

(* Mux.got_packet on the server for the datagram commands *)
Definition s_frame (fx : fixes) (cfg : scfg) (now : N) (f : N * fcmd * bytes * N) (s : sstate)
  (io : list io_item) : res (sstate * list io_item * list sout) :=
  let '(ch, cmd, data, tag) := f in
  match cmd with
  | FDnsReq => if mem ch (s_chan s) then Crash XAssert else dns_req fx cfg now ch data tag s io
  | FUdpOpen => if mem ch (s_chan s) then Crash XAssert else udp_open ch data s io
  | _ => if mem ch (s_chan s) then udp_req fx ch cmd data s io else Ok (s, io, [])
  end.

Definition remove_sock (x : N) (l : list N) : list N := filter (fun y => negb (N.eqb y x)) l.

(* DnsProxy.callback (server.py 231-253) *)
Definition dns_callback (fx : fixes) (cfg : scfg) (hid : N) (d : dnsp) (sock : N) (s : sstate)
  (io : list io_item) : res (sstate * list io_item * list sout) :=
  let r := pop io in
  match fst r with
  | IoErr e =>
    let d1 := set_socks d (remove_sock sock (d_socks d)) in
    if is_net_err e then
      do t <- try_send fx cfg (tries_left d1) d1 (s_nsock s) (snd r);
      let '(d2, nsock, io', outs) := t in
      Ok (set_handler s hid (HDns d2) nsock, io', outs)
    else Ok (set_handler s hid (HDns d1) (s_nsock s), snd r, [])
  | it =>
    let data := takeN BUFSIZE (match it with IoData x => x | IoFrom x _ => x | _ => [] end) in
    do _ <- mux_check (d_chan d) CMD_DNS_RESPONSE data;
    Ok (set_handler s hid (HDns (set_dok d false)) (s_nsock s), snd r,
        [SFrame (d_chan d) CMD_DNS_RESPONSE data (d_tag d)])
  end.

Definition default_peer : addr := (["0"%char; "."%char; "0"%char; "."%char; "0"%char; "."%char; "0"%char], 0).

(* UdpProxy.callback (server.py 275-284 + F4 repair) *)
Definition udp_callback (fx : fixes) (u : udpp) (s : sstate) (io : list io_item)
  : res (sstate * list io_item * list sout) :=
  let r := pop io in
  match fst r with
  | IoErr e => if fx4 fx then Ok (s, snd r, []) else Crash XUnbound
  | it =>
    let '(data, peer) := match it with
                         | IoFrom x p => (x, p)
                         | IoData x => (x, default_peer)
                         | _ => ([], default_peer)
                         end in
    let body := dgram_hdr peer (takeN BUFSIZE data) in
    do _ <- mux_check (u_chan u) CMD_UDP_DATA body;
    Ok (s, snd r, [SFrame (u_chan u) CMD_UDP_DATA body 0])
  end.

(* runonce's `for h in handlers: for s in h.socks: if s in ready: h.callback(s)`;
   a DnsProxy never holds more than one socket (lemma), so its loop body runs at
   most once with the socket it holds when it is visited *)
Definition visit (fx : fixes) (cfg : scfg) (ready : list N) (hid : N) (s : sstate) (io : list io_item)
  : res (sstate * list io_item * list sout) :=
  match alookup N.eqb hid (s_h s) with
  | Some (HDns d) =>
    match d_socks d with
    | sock :: _ => if mem sock ready then dns_callback fx cfg hid d sock s io else Ok (s, io, [])
    | [] => Ok (s, io, [])
    end
  | Some (HUdp u) => if mem (u_sock u) ready then udp_callback fx u s io else Ok (s, io, [])
  | None => Ok (s, io, [])
  end.

Fixpoint fold_steps {X} (f : X -> sstate -> list io_item -> res (sstate * list io_item * list sout))
  (xs : list X) (s : sstate) (io : list io_item) : res (sstate * list io_item * list sout) :=
  match xs with
  | [] => Ok (s, io, [])
  | x :: tl =>
    do r <- f x s io;
    let '(s1, io1, o1) := r in
    do r2 <- fold_steps f tl s1 io1;
    let '(s2, io2, o2) := r2 in
    Ok (s2, io2, o1 ++ o2)
  end.

Definition h_ok (h : shandler) : bool := match h with HDns d => d_ok d | HUdp u => u_ok u end.
Definition h_kill (h : shandler) : shandler :=
  match h with HDns d => HDns (set_dok d false) | HUdp u => HUdp (set_uok u false) end.

(* the sweeps of server.main (420-438) *)
Definition dns_dead (now : N) (s : sstate) (p : N * N) : bool :=
  match alookup N.eqb (snd p) (s_h s) with
  | Some (HDns d) => (d_timeout d <? now) || negb (d_ok d)
  | Some (HUdp u) => negb (u_ok u)
  | None => true
  end.
Definition udp_dead (s : sstate) (p : N * N) : bool :=
  match alookup N.eqb (snd p) (s_h s) with
  | Some h => negb (h_ok h)
  | None => true
  end.

Definition sweep (now : N) (s : sstate) : sstate :=
  let deadd := map snd (filter (dns_dead now s) (s_dnsh s)) in
  let h1 := map (fun p => if mem (fst p) deadd then (fst p, h_kill (snd p)) else p) (s_h s) in
  {| s_h := h1;
     s_dnsh := filter (fun p => negb (dns_dead now s p)) (s_dnsh s);
     s_udph := filter (fun p => negb (udp_dead s p)) (s_udph s);
     s_chan := s_chan s; s_nsock := s_nsock s; s_nhid := s_nhid s |}.

(* runonce: to_remove = [s for s in handlers if not s.ok] — the first action of
   the NEXT iteration, folded into the end of this one *)
Definition remove_dead (s : sstate) : sstate :=
  {| s_h := filter (fun p => h_ok (snd p)) (s_h s); s_dnsh := s_dnsh s; s_udph := s_udph s;
     s_chan := s_chan s; s_nsock := s_nsock s; s_nhid := s_nhid s |}.

Record sevent := {
  se_now : N;
  se_frames : list (N * fcmd * bytes * N);   (* what Mux.handle dispatches in this iteration *)
  se_ready : list N;                         (* sockets select() reports readable *)
  se_io : list io_item
}.

(* one iteration of `while mux.ok:` in server.main *)
Definition sstep (fx : fixes) (cfg : scfg) (s : sstate) (e : sevent) : res (sstate * list sout) :=
  let ready := filter (fun k => k <? s_nsock s) (se_ready e) in
  do r1 <- fold_steps (s_frame fx cfg (se_now e)) (se_frames e) s (se_io e);
  let '(s1, io1, o1) := r1 in
  do r2 <- fold_steps (visit fx cfg ready) (map fst (s_h s1)) s1 io1;
  let '(s2, io2, o2) := r2 in
  Ok (remove_dead (sweep (se_now e) s2), o1 ++ o2).

Fixpoint srun (fx : fixes) (cfg : scfg) (s : sstate) (evs : list sevent)
  : sstate * list (list sout) * res unit :=
  match evs with
  | [] => (s, [], Ok tt)
  | e :: tl =>
    match sstep fx cfg s e with
    | Ok (s', o) => let '(s'', os, r) := srun fx cfg s' tl in (s'', o :: os, r)
    | Fatal => (s, [], Fatal)
    | Crash x => (s, [], Crash x)
    end
  end.

Definition sstep_asfound := sstep as_found.

Definition fcmd_code (c : fcmd) : N :=
  match c with
  | FDnsReq => CMD_DNS_REQ | FUdpOpen => CMD_UDP_OPEN | FUdpData => CMD_UDP_DATA
  | FUdpClose => CMD_UDP_CLOSE | FOther => CMD_DNS_RESPONSE
  end.
