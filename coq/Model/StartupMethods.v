(* Model/StartupMethods.v — C15: the --method choices of the option parser
   (options.py:247-250, non-win32 branch) as regenerated from /repo into
   Gen/Consts.v on every run, converted to byte strings.  Kept apart from
   Model/Startup.v so that the start-up model does not depend on Gen/Consts.v. *)
From Coq Require Import List String.
From SV Require Import Lib.Bytes Gen.Consts Model.Startup.
Definition method_choices_b : list bytes := Eval compute in map bn Consts.method_choices.
