(* Model/Dialogue.v — executable model of the dialogue between the sshuttle
   client and its privileged helper:
     writer: sshuttle/client.py FirewallClient.start (411-455), sethostip (457-461)
     reader: sshuttle/firewall.py main (201-440), _read_next_string_line (226-236)
   Definitions only; proofs live in Proofs/Dialogue_lemmas.v.

   The helper's standard input is a byte string followed by end of file (the
   client closed the pipe or died); a truncated dialogue is a prefix of it.
   Every way of leaving firewall.main is a value of [exit_kind]; the calls the
   helper makes on its method object, on rewrite_etc_hosts and the STARTED
   reply are the [event] list. *)
From Coq Require Import List NArith ZArith Ascii Bool.
From SV Require Import Lib.Bytes Lib.DialogueLib.
Import ListNotations.
Local Open Scope N_scope.

Import String.StringSyntax.
Delimit Scope string_scope with string.
(* byte-string literal, evaluated at definition time (so that no Coq string
   type reaches the extracted code) *)
Notation B s := (ltac:(let x := eval vm_compute in (bytes_of_string s%string) in exact x))
  (only parsing).

(* ================================================================== *)
(* Client side                                                         *)

(* one element of subnets_include / auto_nets / subnets_exclude:
   (family, ip, width, fport, lport) *)
Record subnet := mkSubnet {
  sn_family : N; sn_ip : bytes; sn_width : N; sn_fport : N; sn_lport : N }.

(* what FirewallClient.setup stored (client.py:391-404), plus auto_nets and
   os.getpid().  user/group are None or a numeric id (client.py:915-931). *)
Record plan := mkPlan {
  p_include : list subnet;
  p_auto : list subnet;
  p_exclude : list subnet;
  p_nslist : list (N * bytes);
  p_port_v6 : N; p_port_v4 : N; p_dns_v6 : N; p_dns_v4 : N;
  p_udp : bool;
  p_user : option N;
  p_group : option N;
  p_tmark : bytes;
  p_pid : N }.

(* b'%d,%d,0,%s,%d,%d\n' % (family, width, ip, fport, lport)  client.py:415-422
   (line bodies are kept without their newline) *)
Definition route_line (excl : bool) (s : subnet) : bytes :=
  dec (sn_family s) ++ comma :: dec (sn_width s) ++ comma ::
  (if excl then ch1 else ch0) :: comma :: sn_ip s ++ comma ::
  dec (sn_fport s) ++ comma :: dec (sn_lport s).

(* b'%d,%s\n' % (family, ip)  client.py:425-427 *)
Definition ns_line (e : N * bytes) : bytes := dec (fst e) ++ comma :: snd e.

(* b'PORTS %d,%d,%d,%d\n'  client.py:429-432 *)
Definition ports_line (p : plan) : bytes :=
  B "PORTS " ++ dec (p_port_v6 p) ++ comma :: dec (p_port_v4 p) ++ comma ::
  dec (p_dns_v6 p) ++ comma :: dec (p_dns_v4 p).

Definition id_text (u : option N) : bytes :=
  match u with None => [dash] | Some n => dec n end.

(* the GO line up to and including the blank before the pid  client.py:434-449 *)
Definition go_head (p : plan) : bytes :=
  B "GO " ++ (if p_udp p then ch1 else ch0) :: sp :: id_text (p_user p) ++ sp ::
  id_text (p_group p) ++ sp :: p_tmark p ++ [sp].

Definition go_line (p : plan) : bytes := go_head p ++ dec (p_pid p).

Definition plan_lines (p : plan) : list bytes :=
  B "ROUTES" :: map (route_line false) (p_include p ++ p_auto p)
  ++ map (route_line true) (p_exclude p)
  ++ B "NSLIST" :: map ns_line (p_nslist p)
  ++ [ports_line p; go_line p].

Definition with_nl (b : bytes) : bytes := b ++ [nl].

(* all bytes FirewallClient.start writes before it waits for STARTED *)
Definition render_plan (p : plan) : bytes := concat (map with_nl (plan_lines p)).

(* sethostip: assert not re.search(br'[^-\w\.]', hostname);
              assert not re.search(br'[^0-9.]', ip)          client.py:458-459 *)
Definition name_char (c : ascii) : bool :=
  is_digit c || ((65 <=? code c) && (code c <=? 90)) || ((97 <=? code c) && (code c <=? 122))
  || Ascii.eqb c "_"%char || Ascii.eqb c dash || Ascii.eqb c "."%char.
Definition ipv4_char (c : ascii) : bool := is_digit c || Ascii.eqb c "."%char.

Definition host_ok (h : bytes * bytes) : bool :=
  forallb name_char (fst h) && forallb ipv4_char (snd h).

(* b'HOST %s,%s\n' % (hostname, ip)  client.py:460 *)
Definition host_line (h : bytes * bytes) : bytes := B "HOST " ++ fst h ++ comma :: snd h.

(* None = AssertionError in the client; nothing is written *)
Definition sethostip (h : bytes * bytes) : option bytes :=
  if host_ok h then Some (with_nl (host_line h)) else None.

Definition render_hosts (hs : list (bytes * bytes)) : bytes :=
  concat (map (fun h => with_nl (host_line h)) hs).

(* plan, then the host updates *)
Definition render_dialogue (p : plan) (hs : list (bytes * bytes)) : bytes :=
  render_plan p ++ render_hosts hs.

(* ================================================================== *)
(* Helper side                                                         *)

(* socket.AF_INET / socket.AF_INET6 on Linux (the harness checks them) *)
Definition AF_INET : Z := 2%Z.
Definition AF_INET6 : Z := 10%Z.

Inductive fatal_class :=
| FExpectedRoutes         (* 'expected ROUTES but got'           firewall.py:251 *)
| FExpectedRoute          (* 'expected route but got'            :255 *)
| FExpectedRouteOrNslist  (* 'expected route or NSLIST but got'  :261 *)
| FExpectedNslist         (* 'expected NSLIST but got'           :273 *)
| FExpectedNslistLine     (* 'expected nslist but got'           :277 *)
| FExpectedNslistOrPorts  (* 'expected nslist or PORTS but got'  :283 *)
| FExpected4Ports         (* 'expected 4 ports but got'          :293 *)
| FExpectedGo             (* 'expected GO but got'               :313 *)
| FExpectedCommand.       (* 'expected command, got'             :376 *)

Inductive crash_class := CValueError | CUnicodeDecodeError | CAssertionError.

Inductive exit_kind :=
| ExSilent                 (* plain return before the try block: nothing was set up  :241 *)
| ExReturn                 (* return from the HOST loop at end of input, through finally *)
| ExFatal (f : fatal_class)
| ExCrash (c : crash_class).

(* an element of the helper's `subnets`: (family, width, exclude, ip, fport, lport) *)
Record hsubnet := mkHsubnet {
  hs_family : Z; hs_width : Z; hs_exclude : bool; hs_ip : bytes; hs_fport : Z; hs_lport : Z }.

Record hplan := mkHplan {
  h_subnets : list hsubnet;
  h_nslist : list (Z * bytes);
  h_port_v6 : Z; h_port_v4 : Z; h_dns_v6 : Z; h_dns_v4 : Z;
  h_udp : bool;
  h_user : option bytes;
  h_group : option bytes;
  h_tmark : bytes;
  h_pid : Z }.

Definition hostmap := list (bytes * bytes).

Inductive event :=
| EvSetup (family port dnsport : Z) (ns : list (Z * bytes)) (subnets : list hsubnet)
          (udp : bool) (user group : option bytes) (tmark : bytes)   (* method.setup_firewall *)
| EvWait (pid : Z)                                                   (* method.wait_for_firewall_ready *)
| EvStarted                                                          (* stdout.write(b'STARTED\n') *)
| EvHosts (hm : hostmap) (port : Z)                                  (* rewrite_etc_hosts(hostmap, port) *)
| EvCommand (line : bytes)                                           (* method.firewall_command(line) -> False *)
| EvRestore (family port : Z) (udp : bool) (user group : option bytes). (* method.restore_firewall *)

Inductive pres (A : Type) :=
| POk (a : A) (rest : list bytes)
| PExit (e : exit_kind).
Arguments POk {A} a rest.
Arguments PExit {A} e.

(* (int(family), int(width), bool(int(exclude)), ip, int(fport), int(lport))  :262-268 *)
Definition route_fields (f w e ip fp lp : bytes) : option hsubnet :=
  match py_int f, py_int w, py_int e, py_int fp, py_int lp with
  | Some f', Some w', Some e', Some fp', Some lp' =>
      Some (mkHsubnet f' w' (negb (Z.eqb e' 0)) ip fp' lp')
  | _, _, _, _, _ => None
  end.

(* the while loop at :253-268 together with the test at :272.  [cs] are the
   successive results of stdin.readline(..). *)
Fixpoint parse_routes (cs : list bytes) : pres (list hsubnet) :=
  match cs with
  | [] => PExit (ExFatal FExpectedRoute)
  | raw :: rest =>
      if negb (all_ascii raw) then PExit (ExCrash CUnicodeDecodeError) else
      let line := strip raw in
      if is_nil line then PExit (ExFatal FExpectedRoute)
      else if prefixb (B "NSLIST") line then
        (if bytes_eqb line (B "NSLIST") then POk [] rest else PExit (ExFatal FExpectedNslist))
      else
        match split_on comma 5 line with
        | [f; w; e; ip; fp; lp] =>
            match route_fields f w e ip fp lp with
            | None => PExit (ExCrash CValueError)
            | Some h =>
                match parse_routes rest with
                | POk l r => POk (h :: l) r
                | PExit x => PExit x
                end
            end
        | _ => PExit (ExFatal FExpectedRouteOrNslist)
        end
  end.

(* the while loop at :275-286; returns the name servers and the PORTS line *)
Fixpoint parse_ns (cs : list bytes) : pres (list (Z * bytes) * bytes) :=
  match cs with
  | [] => PExit (ExFatal FExpectedNslistLine)
  | raw :: rest =>
      if negb (all_ascii raw) then PExit (ExCrash CUnicodeDecodeError) else
      let line := strip raw in
      if is_nil line then PExit (ExFatal FExpectedNslistLine)
      else if prefixb (B "PORTS ") line then POk ([], line) rest
      else
        match split_on comma 1 line with
        | [f; ip] =>
            match py_int f with
            | None => PExit (ExCrash CValueError)
            | Some f' =>
                match parse_ns rest with
                | POk (l, pl) r => POk ((f', ip) :: l, pl) r
                | PExit x => PExit x
                end
            end
        | _ => PExit (ExFatal FExpectedNslistOrPorts)
        end
  end.

Definition port_in_range (z : Z) : bool := (0 <=? z)%Z && (z <=? 65535)%Z.

(* :290-307 *)
Definition parse_ports (line : bytes) : Z * Z * Z * Z + exit_kind :=
  let ports := after_first sp line in
  match split_all comma ports with
  | [a; b; c; d] =>
      match py_int a, py_int b, py_int c, py_int d with
      | Some a', Some b', Some c', Some d' =>
          if port_in_range a' && port_in_range b' && port_in_range c' && port_in_range d'
          then inl (a', b', c', d') else inr (ExCrash CAssertionError)
      | _, _, _, _ => inr (ExCrash CValueError)
      end
  | _ => inr (ExFatal FExpected4Ports)
  end.

Definition none_if_dash (s : bytes) : option bytes :=
  if bytes_eqb s [dash] then None else Some s.

(* :311-326; result: udp, user, group, tmark, pid *)
Definition parse_go (cs : list bytes)
  : pres (bool * option bytes * option bytes * bytes * Z) :=
  match cs with
  | [] => PExit (ExFatal FExpectedGo)
  | raw :: rest =>
      if negb (all_ascii raw) then PExit (ExCrash CUnicodeDecodeError) else
      let line := strip raw in
      if is_nil line || negb (prefixb (B "GO ") line) then PExit (ExFatal FExpectedGo)
      else
        match split_on sp 4 (after_first sp line) with
        | [udp; user; group; tmark; pid] =>
            match py_int udp, py_int pid with
            | Some u, Some pd =>
                POk (negb (Z.eqb u 0), none_if_dash user, none_if_dash group, tmark, pd) rest
            | _, _ => PExit (ExCrash CValueError)
            end
        | _ => PExit (ExCrash CValueError)
        end
  end.

(* everything firewall.main does before its try block (:238-326) *)
Definition parse_plan (cs : list bytes) : pres hplan :=
  match cs with
  | [] => PExit ExSilent
  | raw :: rest =>
      if negb (all_ascii raw) then PExit (ExCrash CUnicodeDecodeError) else
      let line := strip raw in
      if is_nil line then PExit ExSilent
      else if negb (bytes_eqb line (B "ROUTES")) then PExit (ExFatal FExpectedRoutes)
      else
        match parse_routes rest with
        | PExit x => PExit x
        | POk subnets rest1 =>
            match parse_ns rest1 with
            | PExit x => PExit x
            | POk (ns, pl) rest2 =>
                match parse_ports pl with
                | inr x => PExit x
                | inl (a, b, c, d) =>
                    match parse_go rest2 with
                    | PExit x => PExit x
                    | POk (udp, user, group, tmark, pid) rest3 =>
                        POk (mkHplan subnets ns a b c d udp user group tmark pid) rest3
                    end
                end
            end
        end
  end.

(* dict assignment hostmap[name] = ip: an existing key keeps its position *)
Fixpoint hm_set (name ip : bytes) (hm : hostmap) : hostmap :=
  match hm with
  | [] => [(name, ip)]
  | (n, i) :: t => if bytes_eqb n name then (n, ip) :: t else (n, i) :: hm_set name ip t
  end.

(* port_v6 or port_v4  :372,412 *)
Definition hosts_port (hp : hplan) : Z :=
  if Z.eqb (h_port_v6 hp) 0 then h_port_v4 hp else h_port_v6 hp.

(* the while loop at :366-379 *)
Fixpoint host_loop (cs : list bytes) (hm : hostmap) (port : Z)
  : list event * hostmap * exit_kind :=
  match cs with
  | [] => ([], hm, ExReturn)
  | raw :: rest =>
      if negb (all_ascii raw) then ([], hm, ExCrash CUnicodeDecodeError) else
      let line := strip raw in
      if is_nil line then ([], hm, ExReturn)
      else if prefixb (B "HOST ") line then
        match split_on comma 1 (skipn 5 line) with
        | [name; ip] =>
            let hm' := hm_set name ip hm in
            let '(ev, hmf, ex) := host_loop rest hm' port in
            (EvHosts hm' port :: ev, hmf, ex)
        | _ => ([], hm, ExCrash CValueError)
        end
      else ([EvCommand line], hm, ExFatal FExpectedCommand)
  end.

Definition sub_of (fam : Z) (hp : hplan) : list hsubnet :=
  filter (fun s => Z.eqb (hs_family s) fam) (h_subnets hp).
Definition ns_of (fam : Z) (hp : hplan) : list (Z * bytes) :=
  filter (fun e => Z.eqb (fst e) fam) (h_nslist hp).
Definition uses (fam : Z) (hp : hplan) : bool :=
  negb (is_nil (sub_of fam hp)) || negb (is_nil (ns_of fam hp)).

(* :336-347 *)
Definition setup_events (hp : hplan) : list event :=
  (if uses AF_INET6 hp then
     [EvSetup AF_INET6 (h_port_v6 hp) (h_dns_v6 hp) (ns_of AF_INET6 hp) (sub_of AF_INET6 hp)
              (h_udp hp) (h_user hp) (h_group hp) (h_tmark hp)] else [])
  ++
  (if uses AF_INET hp then
     [EvSetup AF_INET (h_port_v4 hp) (h_dns_v4 hp) (ns_of AF_INET hp) (sub_of AF_INET hp)
              (h_udp hp) (h_user hp) (h_group hp) (h_tmark hp)] else []).

(* the finally block :380-418 (restore_etc_hosts only rewrites when the map is not empty) *)
Definition finally_events (hp : hplan) (hm : hostmap) : list event :=
  (if uses AF_INET6 hp then [EvRestore AF_INET6 (h_port_v6 hp) (h_udp hp) (h_user hp) (h_group hp)] else [])
  ++ (if uses AF_INET hp then [EvRestore AF_INET (h_port_v4 hp) (h_udp hp) (h_user hp) (h_group hp)] else [])
  ++ (if is_nil hm then [] else [EvHosts [] (hosts_port hp)]).

(* the try block: set up, confirm, serve HOST lines, always clean up *)
Definition run_plan (hp : hplan) (rest : list bytes) : list event * exit_kind :=
  let '(ev, hm, ex) := host_loop rest [] (hosts_port hp) in
  (setup_events hp ++ EvWait (h_pid hp) :: EvStarted :: ev ++ finally_events hp hm, ex).

Definition helper_lines (cs : list bytes) : list event * exit_kind :=
  match parse_plan cs with
  | PExit x => ([], x)
  | POk hp rest => run_plan hp rest
  end.

(* firewall.main reading its input with stdin.readline(lim) *)
Definition helper_main (lim : option N) (input : bytes) : list event * exit_kind :=
  helper_lines (chunks lim input).

(* the reader as repaired (whole lines) and as found (readline(128)) *)
Definition READ_LIMIT_ASFOUND : N := 128.
Definition helper (input : bytes) := helper_main None input.
Definition helper_asfound (input : bytes) := helper_main (Some READ_LIMIT_ASFOUND) input.

(* ================================================================== *)
(* What the helper should see for a plan: the specification side       *)

Definition hsub_of (excl : bool) (s : subnet) : hsubnet :=
  mkHsubnet (Z.of_N (sn_family s)) (Z.of_N (sn_width s)) excl (sn_ip s)
            (Z.of_N (sn_fport s)) (Z.of_N (sn_lport s)).

Definition hplan_of (p : plan) : hplan :=
  mkHplan (map (hsub_of false) (p_include p ++ p_auto p) ++ map (hsub_of true) (p_exclude p))
          (map (fun e => (Z.of_N (fst e), snd e)) (p_nslist p))
          (Z.of_N (p_port_v6 p)) (Z.of_N (p_port_v4 p)) (Z.of_N (p_dns_v6 p)) (Z.of_N (p_dns_v4 p))
          (p_udp p) (option_map dec (p_user p)) (option_map dec (p_group p)) (p_tmark p)
          (Z.of_N (p_pid p)).

(* successive host maps after each update *)
Fixpoint host_events (hs : list (bytes * bytes)) (hm : hostmap) (port : Z) : list event :=
  match hs with
  | [] => []
  | (n, i) :: t => EvHosts (hm_set n i hm) port :: host_events t (hm_set n i hm) port
  end.

Definition final_map (hs : list (bytes * bytes)) : hostmap :=
  fold_left (fun hm h => hm_set (fst h) (snd h) hm) hs [].

Definition expected_events (p : plan) (hs : list (bytes * bytes)) : list event :=
  let hp := hplan_of p in
  setup_events hp ++ EvWait (h_pid hp) :: EvStarted ::
  host_events hs [] (hosts_port hp) ++ finally_events hp (final_map hs).

(* ---- validity of plans (what the client can compute) ---- *)

Definition MAX_IP_TEXT : N := 45.        (* INET6_ADDRSTRLEN - 1 *)
Definition MAX_ID : N := 4294967295.     (* uid_t / gid_t / fwmark / pid fit 32 bits *)

Definition ip_char (c : ascii) : bool := printable c && negb (Ascii.eqb c comma).
Definition valid_ip (ip : bytes) : bool := (lenN ip <=? MAX_IP_TEXT) && forallb ip_char ip.

Definition valid_subnet (s : subnet) : bool :=
  (sn_family s <=? 65535) && (sn_width s <=? 128) && valid_ip (sn_ip s)
  && (sn_fport s <=? 65535) && (sn_lport s <=? 65535).

Definition valid_ns (e : N * bytes) : bool := (fst e <=? 65535) && valid_ip (snd e).

Definition valid_id (u : option N) : bool :=
  match u with None => true | Some n => n <=? MAX_ID end.

(* '0x' + 1..8 hex digits in practice; anything visible of that length is accepted *)
Definition valid_tmark (t : bytes) : bool := (lenN t <=? 10) && forallb printable t.

Definition valid_plan (p : plan) : bool :=
  forallb valid_subnet (p_include p) && forallb valid_subnet (p_auto p)
  && forallb valid_subnet (p_exclude p) && forallb valid_ns (p_nslist p)
  && (p_port_v6 p <=? 65535) && (p_port_v4 p <=? 65535)
  && (p_dns_v6 p <=? 65535) && (p_dns_v4 p <=? 65535)
  && valid_id (p_user p) && valid_id (p_group p) && valid_tmark (p_tmark p)
  && (p_pid p <=? MAX_ID).

(* longest line a valid plan can produce, newline included:
   "65535,128,1," + 45 + ",65535,65535\n" *)
Definition LINE_BOUND : N := 70.

(* the read limit is harmless for plans when it is absent or at least LINE_BOUND *)
Definition limit_ok (lim : option N) : bool :=
  match lim with None => true | Some n => LINE_BOUND <=? n end.


(* ---- notions used to state the theorems ---- *)

(* every HOST line (with its newline) fits the read limit *)
Definition hosts_fit (lim : option N) (hs : list (bytes * bytes)) : bool :=
  forallb (fun h => fits lim (host_line h)) hs.

(* 5 + len(name) + 1 + len(ip) + 1 <= 128 *)
Definition host_fits_asfound (h : bytes * bytes) : bool := lenN (fst h) + lenN (snd h) <=? 121.

(* events that can occur between STARTED and the finally block *)
Definition host_phase_event (e : event) : Prop :=
  match e with EvHosts _ _ | EvCommand _ => True | _ => False end.

(* the plan lines before GO, and all bytes up to the blank before the pid *)
Definition head_lines (p : plan) : list bytes :=
  B "ROUTES" :: map (route_line false) (p_include p ++ p_auto p)
  ++ map (route_line true) (p_exclude p)
  ++ B "NSLIST" :: map ns_line (p_nslist p)
  ++ [ports_line p].

Definition plan_head_bytes (p : plan) : bytes :=
  concat (map with_nl (head_lines p)) ++ go_head p.


(* ================================================================== *)
(* Canonical text of an outcome (compared with the real helper's)      *)

Definition show_bool (b : bool) : bytes := if b then B "1" else B "0".
Definition show_opt (o : option bytes) : bytes :=
  match o with None => B "None" | Some s => B "s" ++ hex_of s end.

Definition show_hsub (s : hsubnet) : bytes :=
  decZ (hs_family s) ++ B ":" ++ decZ (hs_width s) ++ B ":" ++ show_bool (hs_exclude s) ++ B ":"
  ++ hex_or_dash (hs_ip s) ++ B ":" ++ decZ (hs_fport s) ++ B ":" ++ decZ (hs_lport s).

Definition show_ns (e : Z * bytes) : bytes := decZ (fst e) ++ B ":" ++ hex_or_dash (snd e).

Definition show_list {A} (f : A -> bytes) (l : list A) : bytes :=
  match l with [] => [dash] | _ => join [comma] (map f l) end.

Definition show_host (e : bytes * bytes) : bytes :=
  hex_or_dash (fst e) ++ B "=" ++ hex_or_dash (snd e).

Definition show_event (e : event) : bytes :=
  match e with
  | EvSetup fam port dns ns sn udp user group tmark =>
      B "SETUP " ++ decZ fam ++ [sp] ++ decZ port ++ [sp] ++ decZ dns ++ [sp]
      ++ show_list show_ns ns ++ [sp] ++ show_list show_hsub sn ++ [sp] ++ show_bool udp ++ [sp]
      ++ show_opt user ++ [sp] ++ show_opt group ++ [sp] ++ hex_or_dash tmark
  | EvWait pid => B "WAIT " ++ decZ pid
  | EvStarted => B "STARTED"
  | EvHosts hm port => B "HOSTS " ++ decZ port ++ [sp] ++ show_list show_host hm
  | EvCommand l => B "CMD " ++ hex_or_dash l
  | EvRestore fam port udp user group =>
      B "RESTORE " ++ decZ fam ++ [sp] ++ decZ port ++ [sp] ++ show_bool udp ++ [sp]
      ++ show_opt user ++ [sp] ++ show_opt group
  end.

Definition show_exit (x : exit_kind) : bytes :=
  match x with
  | ExSilent => B "silent"
  | ExReturn => B "return"
  | ExFatal FExpectedRoutes => B "fatal:ROUTES"
  | ExFatal FExpectedRoute => B "fatal:route"
  | ExFatal FExpectedRouteOrNslist => B "fatal:route-or-NSLIST"
  | ExFatal FExpectedNslist => B "fatal:NSLIST"
  | ExFatal FExpectedNslistLine => B "fatal:nslist"
  | ExFatal FExpectedNslistOrPorts => B "fatal:nslist-or-PORTS"
  | ExFatal FExpected4Ports => B "fatal:4-ports"
  | ExFatal FExpectedGo => B "fatal:GO"
  | ExFatal FExpectedCommand => B "fatal:command"
  | ExCrash CValueError => B "crash:ValueError"
  | ExCrash CUnicodeDecodeError => B "crash:UnicodeDecodeError"
  | ExCrash CAssertionError => B "crash:AssertionError"
  end.

Definition show_outcome (o : list event * exit_kind) : bytes :=
  join (B " | ") (map show_event (fst o) ++ [B "EXIT " ++ show_exit (snd o)]).
