(* Model/FwWalk.v — C03: what the generated rules do to a packet.
   Executable definitions only.  This file is the MODELLED kernel packet filter
   (DESIGN.md §3, Appendix B): first-match chain walk with jumps / RETURN /
   non-terminating MARK for iptables and nft, mangle-before-nat hook order,
   policy re-routing of packets carrying the tproxy mark to `lo` and hence to
   PREROUTING, and pf's last-match filter rules + first-match rdr rules.  It is
   not derived from /repo; on Linux it is validated against the real tools in a
   network namespace by the thorough tier of harness/props/c03.py. *)
From Coq Require Import List NArith ZArith Ascii Bool.
From SV Require Import Lib.Bytes Model.FwRules.
Import ListNotations.
Local Open Scope N_scope.

(* ---------------------------------------------------------------- packets *)
Inductive origin := Local | Forwarded.
Record pkt := mkPkt {
  p_fam : family; p_dst : N; p_proto : proto; p_dport : N;
  p_dst_local : bool;          (* destination is an address of this host *)
  p_origin : origin;           (* locally generated vs forwarded *)
  p_uid : N; p_gid : N;        (* owner of the sending socket (Local only) *)
  p_sock : bool;               (* an established/transparent local socket exists for the flow (-m socket) *)
  p_src_lo : bool }.           (* source address is 127.0.0.1 / ::1 (pf: `from ! lo_addr`) *)

Definition proto_eqb (a b : proto) : bool :=
  match a, b with Tcp, Tcp | Udp, Udp => true | _, _ => false end.

(* dst lies under net/w in an address space of `bits f` bits (both sides masked,
   as iptables / nft / pf do when they load the rule) *)
Definition under (f : family) (net w dst : N) : bool :=
  N.shiftr dst (bits f - w) =? N.shiftr net (bits f - w).

(* -------------------------------------------------- semantic rules and walk *)
Inductive cond :=
| KDst (net w : N) | KDstEq (a : N) | KDstIn (l : list N)
| KProto (pr : proto) | KDport (f l : N)
| KLocal | KSocket | KMarkEq (m : N)
| KUid (u : N) | KGid (g : N)
| KFam (f : family) | KFamNot (f : family) | KSrcNotLo.

Definition is_local_origin (p : pkt) : bool :=
  match p_origin p with Local => true | Forwarded => false end.

Definition cond_ok (p : pkt) (mark : N) (c : cond) : bool :=
  match c with
  | KDst net w => under (p_fam p) net w (p_dst p)
  | KDstEq a => p_dst p =? a
  | KDstIn l => existsb (fun a => p_dst p =? a) l
  | KProto pr => proto_eqb (p_proto p) pr
  | KDport f l => (f <=? p_dport p) && (p_dport p <=? l)
  | KLocal => p_dst_local p
  | KSocket => p_sock p
  | KMarkEq m => mark =? m
  | KUid u => is_local_origin p && (p_uid p =? u)
  | KGid g => is_local_origin p && (p_gid p =? g)
  | KFam f => fam_eqb (p_fam p) f
  | KFamNot f => negb (fam_eqb (p_fam p) f)
  | KSrcNotLo => negb (p_src_lo p)
  end.

Inductive tgt :=
| TReturn | TAccept | TRedirect (port : N) | TTproxy (mark port : N)
| TSetMark (m : N) | TJump (c : chain) | TNone.
Record srule := mkSrule { sr_conds : list cond; sr_tgt : tgt }.

Definition rule_matches (p : pkt) (mark : N) (r : srule) : bool :=
  forallb (cond_ok p mark) (sr_conds r).

Inductive outcome :=
| OFall (mark : N)                 (* end of chain or RETURN: back to the caller / policy *)
| OAccept (mark : N)
| ORedirect (port : N)
| OTproxy (mark port : N)
| OFuel.

(* first-match walk; MARK and rules without target continue; a jump descends
   and comes back on RETURN / end of chain.  depth bounds the nesting of jumps. *)
Fixpoint walk (depth : nat) (env : chain -> list srule) (p : pkt)
         : list srule -> N -> outcome :=
  fix go (rs : list srule) (mark : N) : outcome :=
    match rs with
    | [] => OFall mark
    | r :: rs' =>
        if rule_matches p mark r then
          match sr_tgt r with
          | TReturn => OFall mark
          | TAccept => OAccept mark
          | TRedirect port => ORedirect port
          | TTproxy m port => OTproxy m port
          | TSetMark m => go rs' m
          | TNone => go rs' mark
          | TJump c =>
              match depth with
              | O => OFuel
              | S d => match walk d env p (env c) mark with
                       | OFall m => go rs' m
                       | o => o
                       end
              end
          end
        else go rs' mark
    end.

Definition DEPTH : nat := 3.

(* ------------------------------------------------- iptables: argv -> meaning *)
Definition item_conds (it : ipt_item) : list cond :=
  match it with
  | IDestHost _ a => [KDstEq a]
  | IDest _ net w => [KDst net w]
  | IProto pr => [KProto pr]
  | IDport f l => [KDport f l]
  | IDport1 n => [KDport n n]
  | IDstLocal => [KLocal]
  | IMSocket => [KSocket]
  | IMarkEq _ m => [KMarkEq m]
  | IUid u => [KUid u]
  | IGid g => [KGid g]
  | _ => []
  end.

Fixpoint find_map {A B} (f : A -> option B) (l : list A) : option B :=
  match l with [] => None | x :: r => match f x with Some y => Some y | None => find_map f r end end.

Definition arg_or0 (f : ipt_item -> option N) (r : list ipt_item) : N :=
  match find_map f r with Some n => n | None => 0 end.
Definition get_toports it := match it with IToPorts n => Some n | _ => None end.
Definition get_onport it := match it with IOnPort n => Some n | _ => None end.
Definition get_setmark it := match it with ISetMark _ m => Some m | _ => None end.
Definition get_tpmark it := match it with ITproxyMark _ m => Some m | _ => None end.
Definition get_j it := match it with IJ t => Some t | _ => None end.

Definition sem_ipt (r : list ipt_item) : srule :=
  mkSrule (flat_map item_conds r)
    (match find_map get_j r with
     | None => TNone
     | Some JReturn => TReturn
     | Some JAccept => TAccept
     | Some JRedirect => TRedirect (arg_or0 get_toports r)
     | Some JMark => TSetMark (arg_or0 get_setmark r)
     | Some JTproxy => TTproxy (arg_or0 get_tpmark r) (arg_or0 get_onport r)
     | Some (JChain c) => TJump c
     end).

Definition table_eqb (a b : table) : bool :=
  match a, b with TNat, TNat | TMangle, TMangle => true | _, _ => false end.
Definition chain_eqb (a b : chain) : bool :=
  match a, b with
  | OUTPUT, OUTPUT | PREROUTING, PREROUTING | CMain, CMain | CMark, CMark
  | CTproxy, CTproxy | CDivert, CDivert => true
  | _, _ => false
  end.
Definition tc_eqb (t : table) (c : chain) (t' : table) (c' : chain) : bool :=
  table_eqb t t' && chain_eqb c c'.

(* content of chain (t, c) after running the commands (-N keeps, -F empties,
   -I c 1 prepends, -A appends); acc = content before *)
Fixpoint rules_of (cmds : list ipt_cmd) (t : table) (c : chain) (acc : list (list ipt_item))
  : list (list ipt_item) :=
  match cmds with
  | [] => acc
  | CNew _ _ :: k => rules_of k t c acc
  | CFlush t' c' :: k => rules_of k t c (if tc_eqb t c t' c' then [] else acc)
  | CIns1 t' c' r :: k => rules_of k t c (if tc_eqb t c t' c' then r :: acc else acc)
  | CApp t' c' r :: k => rules_of k t c (if tc_eqb t c t' c' then acc ++ [r] else acc)
  end.

Definition ipt_env (cmds : list ipt_cmd) (t : table) (c : chain) : list srule :=
  map sem_ipt (rules_of cmds t c []).

Inductive verdict :=
| Untouched                 (* leaves / is forwarded as if sshuttle were not there *)
| Divert (port : N)         (* delivered to the local listener on this port *)
| ToSocket                  (* tproxy: belongs to an already diverted flow, delivered to its socket *)
| Stray                     (* pf: routed to lo0 but not translated there *)
| Stuck.                    (* walk ran out of fuel — unreachable, see walk lemmas *)

(* nat method: locally generated packets traverse mangle/OUTPUT then
   nat/OUTPUT; forwarded ones nat/PREROUTING; packet mark starts at 0 *)
Definition nat_result (o : outcome) : verdict :=
  match o with ORedirect port => Divert port | OFuel => Stuck | _ => Untouched end.
Definition nat_verdict_of (cmds : list ipt_cmd) (p : pkt) : verdict :=
  let nat := ipt_env cmds TNat in
  match p_origin p with
  | Local =>
      match walk DEPTH (ipt_env cmds TMangle) p (ipt_env cmds TMangle OUTPUT) 0 with
      | OFall m | OAccept m => nat_result (walk DEPTH nat p (nat OUTPUT) m)
      | OFuel => Stuck
      | _ => Untouched
      end
  | Forwarded => nat_result (walk DEPTH nat p (nat PREROUTING) 0)
  end.
Definition nat_verdict (pl : plan) (p : pkt) : verdict :=
  nat_verdict_of (nat_cmds pl (p_fam p)) p.

(* tproxy method: mangle/OUTPUT may set the mark; a packet carrying the tproxy
   mark is re-routed to lo (ip rule fwmark <tmark> ... local default dev lo, set
   up by the user as the manual says) and enters mangle/PREROUTING; forwarded
   packets enter PREROUTING directly *)
Definition tproxy_result (o : outcome) : verdict :=
  match o with
  | OTproxy _ port => Divert port
  | OAccept _ => ToSocket
  | OFuel => Stuck
  | _ => Untouched
  end.
Definition tproxy_verdict_of (tmark : N) (cmds : list ipt_cmd) (p : pkt) : verdict :=
  let env := ipt_env cmds TMangle in
  match p_origin p with
  | Local =>
      match walk DEPTH env p (env OUTPUT) 0 with
      | OFall m | OAccept m =>
          if (m =? tmark) && negb (tmark =? 0)
          then tproxy_result (walk DEPTH env p (env PREROUTING) m)
          else Untouched
      | OFuel => Stuck
      | _ => Untouched
      end
  | Forwarded => tproxy_result (walk DEPTH env p (env PREROUTING) 0)
  end.
Definition tproxy_verdict (pl : plan) (p : pkt) : verdict :=
  tproxy_verdict_of (pl_tmark pl) (tproxy_cmds pl (p_fam p)) p.

(* the two chains taken on their own (for c03_tproxy_chains_agree) *)
Definition tproxy_marked (pl : plan) (p : pkt) : bool :=
  let env := ipt_env (tproxy_cmds pl (p_fam p)) TMangle in
  match walk DEPTH env p (env CMark) 0 with
  | OFall m | OAccept m => m =? pl_tmark pl
  | _ => false
  end.
Definition tproxy_diverted (pl : plan) (p : pkt) : bool :=
  let env := ipt_env (tproxy_cmds pl (p_fam p)) TMangle in
  match walk DEPTH env p (env CTproxy) 0 with
  | OTproxy _ _ => true
  | _ => false
  end.

(* ---------------------------------------------------- nft: argv -> meaning *)
Definition nft_item_conds (it : nft_item) : list cond :=
  match it with
  | NFamNe f => [KFamNot f]
  | NDnsDaddr f _ a => [KFam f; KDstEq a]
  | NUdp53 => [KProto Udp; KDport 53 53]
  | NFibLocalRet => [KLocal]
  | NTcpRange f a b => [KFam f; KProto Tcp; KDport a b]
  | NTcpPort f a => [KFam f; KProto Tcp; KDport a a]
  | NTcpAny f => [KFam f; KProto Tcp]
  | NDaddr f _ net w => [KFam f; KDst net w]
  | _ => []
  end.
Definition nft_get_tgt (it : nft_item) : option tgt :=
  match it with
  | NRet | NFibLocalRet => Some TReturn
  | NRedirect p => Some (TRedirect p)
  | _ => None
  end.
Definition sem_nft (r : list nft_item) : srule :=
  mkSrule (flat_map nft_item_conds r)
    (match find_map nft_get_tgt r with Some t => t | None => TNone end).

(* content of the regular chain / of a hook chain of one sshuttle table *)
Fixpoint nft_chain_of (cmds : list nft_cmd) (acc : list (list nft_item)) : list (list nft_item) :=
  match cmds with
  | [] => acc
  | NFlushChain :: k => nft_chain_of k []
  | NAddRule r :: k => nft_chain_of k (acc ++ [r])
  | _ :: k => nft_chain_of k acc
  end.
Definition nft_hook_eqb (a b : nft_hook) : bool :=
  match a, b with HPrerouting, HPrerouting | HOutput, HOutput => true | _, _ => false end.
(* number of `jump <chain>` rules in hook h *)
Fixpoint nft_jumps (cmds : list nft_cmd) (h : nft_hook) : nat :=
  match cmds with
  | [] => O
  | NAddJump h' :: k => if nft_hook_eqb h h' then S (nft_jumps k h) else nft_jumps k h
  | _ :: k => nft_jumps k h
  end.

(* one inet table: the hook chain consists of jumps into the regular chain;
   a redirect is final, everything else falls through to policy accept *)
Definition nft_table_outcome (cmds : list nft_cmd) (p : pkt) : outcome :=
  let h := match p_origin p with Local => HOutput | Forwarded => HPrerouting end in
  let body := map sem_nft (nft_chain_of cmds []) in
  let env (c : chain) := match c with CMain => body | _ => [] end in
  walk DEPTH env p (repeat (mkSrule [] (TJump CMain)) (nft_jumps cmds h)) 0.

(* both sshuttle tables are `inet` tables: every packet of either family
   traverses both (v6 is set up first: firewall.py:315-328) *)
Definition nft_verdict_of (cmds6 cmds4 : list nft_cmd) (p : pkt) : verdict :=
  match nft_table_outcome cmds6 p with
  | ORedirect port => Divert port
  | OFuel => Stuck
  | _ => nat_result (nft_table_outcome cmds4 p)
  end.
Definition nft_verdict (pl : plan) (p : pkt) : verdict :=
  nft_verdict_of (nft_cmds pl V6) (nft_cmds pl V4) p.

(* ------------------------------------------------------ pf: text -> meaning *)
Inductive pf_act := APassOut | ARouteLo | ARdr (port : N) | AInLo (port : N).
Record pf_srule := mkPf { pf_conds : list cond; pf_act_of : pf_act }.

Definition pf_entry_conds (f : family) (e : entry) : list cond :=
  [KFam f; KProto Tcp; KDst (e_net e) (e_width e)]
  ++ (if e_fport e =? 0 then [] else [KDport (e_fport e) (e_lport e)]).
Definition pf_dns_conds (f : family) (tbl : list N) : list cond :=
  [KFam f; KProto Udp; KDstIn tbl; KDport 53 53].

Definition pf_table_of (ls : list pf_line) : list N :=
  flat_map (fun l => match l with PTable nss => map ns_addr nss | _ => [] end) ls.

Definition sem_pf_line (tbl : list N) (l : pf_line) : list pf_srule :=
  match l with
  | PTable _ => []
  | PRdrTcp f e port => [mkPf (KSrcNotLo :: pf_entry_conds f e) (ARdr port)]
  | PRdrDns f d => [mkPf (pf_dns_conds f tbl) (ARdr d)]
  | PRouteTcp f e | ORouteTcp f e => [mkPf (pf_entry_conds f e) ARouteLo]
  | PPassTcp f e => [mkPf (pf_entry_conds f e) APassOut]
  | PRouteDns f | ORouteDns f => [mkPf (pf_dns_conds f tbl) ARouteLo]
  | ODivertTcp f e port => [mkPf (pf_entry_conds f e) (AInLo port)]
  | ORdrDns f d => [mkPf (pf_dns_conds f tbl) (AInLo d)]
  end.

Definition pf_matches (p : pkt) (r : pf_srule) : bool := forallb (cond_ok p 0) (pf_conds r).
Definition is_out (r : pf_srule) : bool :=
  match pf_act_of r with APassOut | ARouteLo => true | _ => false end.
Definition is_rdr (r : pf_srule) : bool := match pf_act_of r with ARdr _ => true | _ => false end.
Definition is_inlo (r : pf_srule) : bool := match pf_act_of r with AInLo _ => true | _ => false end.

Definition first_match (p : pkt) (rs : list pf_srule) : option pf_srule := find (pf_matches p) rs.
Fixpoint last_match (p : pkt) (rs : list pf_srule) : option pf_srule :=
  match rs with
  | [] => None
  | r :: k => match last_match p k with
              | Some x => Some x
              | None => if pf_matches p r then Some r else None
              end
  end.

(* outbound packet: the last matching `pass out` rule decides; route-to lo0
   makes it re-enter on lo0 where, on FreeBSD/Darwin, the first matching rdr
   rule translates it and, on OpenBSD, the last matching `pass in on lo0` rule
   diverts it.  No matching rule: the anchor has no effect. *)
Definition pf_verdict_of (os : pf_os) (ls : list pf_line) (p : pkt) : verdict :=
  let rs := flat_map (sem_pf_line (pf_table_of ls)) ls in
  match last_match p (filter is_out rs) with
  | Some r =>
      match pf_act_of r with
      | ARouteLo =>
          match os with
          | FreeBsd => match first_match p (filter is_rdr rs) with
                       | Some r' => match pf_act_of r' with ARdr port => Divert port | _ => Stray end
                       | None => Stray
                       end
          | OpenBsd => match last_match p (filter is_inlo rs) with
                       | Some r' => match pf_act_of r' with AInLo port => Divert port | _ => Stray end
                       | None => Stray
                       end
          end
      | _ => Untouched
      end
  | None => Untouched
  end.
Definition pf_verdict (os : pf_os) (pl : plan) (p : pkt) : option verdict :=
  match pf_rules os pl (p_fam p) with
  | Some ls => Some (pf_verdict_of os ls p)
  | None => None
  end.

(* ------------------------------------------------------------ specification *)
(* written from the property text, independently of subnet_weight *)
Definition e_matches (p : pkt) (e : entry) : bool :=
  fam_eqb (e_fam e) (p_fam p)
  && under (e_fam e) (e_net e) (e_width e) (p_dst p)
  && ((e_fport e =? 0) || ((e_fport e <=? p_dport p) && (p_dport p <=? e_lport e))).

(* number of ports an entry covers; "no port" = all 65536 *)
Definition range_size (e : entry) : N :=
  if e_fport e =? 0 then 65536 else e_lport e - e_fport e + 1.

(* b is at least as specific as a: narrower port range first, then longer
   prefix, exclusion winning ties *)
Definition spec_leb (a b : entry) : bool :=
  (range_size b <? range_size a) ||
  ((range_size b =? range_size a) &&
   ((e_width a <? e_width b) ||
    ((e_width a =? e_width b) && implb (e_excl a) (e_excl b)))).

Definition spec_intercept (es : list entry) (p : pkt) : Prop :=
  exists e, In e es /\ e_matches p e = true /\ e_excl e = false /\
            forall e', In e' es -> e_matches p e' = true -> spec_leb e' e = true.

Definition spec_interceptb (es : list entry) (p : pkt) : bool :=
  existsb (fun e => e_matches p e && negb (e_excl e)
                    && forallb (fun e' => implb (e_matches p e') (spec_leb e' e)) es) es.

Definition ns_hit (pl : plan) (p : pkt) : bool :=
  existsb (fun n => fam_eqb (ns_fam n) (p_fam p) && (p_dst p =? ns_addr n)) (pl_ns pl).

(* the owner restriction as each method implements it *)
Definition opt_okb (o : option N) (x : N) : bool :=
  match o with None => true | Some y => x =? y end.
Definition nat_owner_okb (pl : plan) (p : pkt) : bool :=
  if has_owner pl
  then is_local_origin p && opt_okb (pl_user pl) (p_uid p) && opt_okb (pl_group pl) (p_gid p)
  else true.

(* well-formedness of what the client sends (C15/C16 establish it) *)
Definition wf_entry (e : entry) : Prop :=
  e_width e <= bits (e_fam e) /\ e_lport e < 65536 /\ e_fport e <= e_lport e
  /\ (e_fport e = 0 -> e_lport e = 0).
Definition wf_entryb (e : entry) : bool :=
  (e_width e <=? bits (e_fam e)) && (e_lport e <? 65536) && (e_fport e <=? e_lport e)
  && (negb (e_fport e =? 0) || (e_lport e =? 0)).
Definition wf_plan (pl : plan) : Prop :=
  Forall wf_entry (pl_entries pl)
  /\ (fam_active pl V4 = true -> pl_port4 pl <> 0)
  /\ (fam_active pl V6 = true -> pl_port6 pl <> 0)
  /\ pl_tmark pl <> 0.
Definition wf_planb (pl : plan) : bool :=
  forallb wf_entryb (pl_entries pl)
  && implb (fam_active pl V4) (negb (pl_port4 pl =? 0))
  && implb (fam_active pl V6) (negb (pl_port6 pl =? 0))
  && negb (pl_tmark pl =? 0).

(* F18: the packets for which tproxy's `--dest <ns>/32` differs from `<ns>` *)
Definition ns_hit32 (pl : plan) (p : pkt) : bool :=
  existsb (fun n => fam_eqb (ns_fam n) (p_fam p) && under (p_fam p) (ns_addr n) 32 (p_dst p)) (pl_ns pl).
Definition f18_class (pl : plan) (p : pkt) : bool :=
  match p_fam p, p_proto p with
  | V6, Udp => (p_dport p =? 53) && ns_hit32 pl p && negb (ns_hit pl p)
  | _, _ => false
  end.
