(* Model/Addr.v — executable model of how sshuttle recovers the destination an
   application dialled and hands it to the server (property C05).
     sshuttle/methods/__init__.py:10-31   original_dst
     sshuttle/methods/tproxy.py:20-50     recv_udp (cmsg decoding), get_tcp_dstip
     sshuttle/methods/pf.py:424-448       Method.get_tcp_dstip   (QUERY_PF_NAT request / reply)
     sshuttle/methods/pf.py:78-102,486-497 query_nat, firewall_command
     sshuttle/firewall.py:226-231,368-380 the helper's readline(128) reader and command loop
     sshuttle/client.py:497-531           onaccept_tcp (guard, CONNECT payload)
     sshuttle/client.py:534-559           udp header  b"%s,%d,"
     sshuttle/server.py:354-366,381-387   new_channel, udp_req
   Also the text codecs these rely on: CPython `%d` / int(), ipaddress.IPv4Address /
   IPv6Address.__str__ (CPython 3.12: no dotted tail), glibc inet_ntop / inet_pton.
   Definitions only; proofs live in Proofs/Addr_lemmas.v. *)
From Coq Require Import List NArith ZArith Ascii Bool.
From SV Require Import Lib.Bytes Gen.Consts.
Import ListNotations.
Local Open Scope N_scope.

(* ------------------------------------------------------------------ *)
(* Results: Python exceptions are values                               *)

Inductive exn :=
| StructError | ValueError | UnicodeDecodeError | TypeError | OverflowError
| UnboundLocalError | OSError (errno : N).

Inductive result (A : Type) :=
| Ok (v : A)
| Fatal
| Crash (e : exn).
Arguments Ok {A} v.
Arguments Fatal {A}.
Arguments Crash {A} e.

(* ------------------------------------------------------------------ *)
(* Characters and generic text surgery                                 *)

Definition ch (n : N) : ascii := ascii_of_N n.
Definition COMMA : ascii := ch 44.
Definition DOT : ascii := ch 46.
Definition COLON : ascii := ch 58.
Definition SPACE : ascii := ch 32.
Definition NL : ascii := ch 10.
Definition ZERO_CH : ascii := ch 48.

(* Python  s.split(sep)  for a one-character separator: every occurrence *)
Fixpoint split_on (sep : ascii) (s : bytes) : list bytes :=
  match s with
  | [] => [[]]
  | c :: r =>
    if Ascii.eqb c sep then [] :: split_on sep r
    else match split_on sep r with
         | w :: ws => (c :: w) :: ws
         | [] => [[c]]                       (* unreachable: split_on never returns [] *)
         end
  end.

(* first occurrence of sep: (before, after) *)
Fixpoint cut (sep : ascii) (s : bytes) : option (bytes * bytes) :=
  match s with
  | [] => None
  | c :: r =>
    if Ascii.eqb c sep then Some ([], r)
    else match cut sep r with
         | Some (a, b) => Some (c :: a, b)
         | None => None
         end
  end.

(* Python  s.split(sep, k) *)
Fixpoint splitn (k : nat) (sep : ascii) (s : bytes) : list bytes :=
  match k with
  | O => [s]
  | S k' => match cut sep s with
            | None => [s]
            | Some (a, b) => a :: splitn k' sep b
            end
  end.

(* sep.join(parts) *)
Fixpoint join (sep : ascii) (ps : list bytes) : bytes :=
  match ps with
  | [] => []
  | [p] => p
  | p :: rest => p ++ sep :: join sep rest
  end.

Definition mem_ch (c : ascii) (s : bytes) : bool := existsb (Ascii.eqb c) s.

(* bytes.strip() / ASCII str.strip(): \t \n \v \f \r and space *)
Definition is_ws (c : ascii) : bool :=
  let n := N_of_ascii c in ((9 <=? n) && (n <=? 13)) || (n =? 32).

(* str.strip() on a decoded str additionally strips \x1c..\x1f (str.isspace) *)
Definition is_ws_str (c : ascii) : bool :=
  let n := N_of_ascii c in is_ws c || ((28 <=? n) && (n <=? 31)).

Fixpoint lstrip (ws : ascii -> bool) (s : bytes) : bytes :=
  match s with
  | c :: r => if ws c then lstrip ws r else s
  | [] => []
  end.
Definition strip_by (ws : ascii -> bool) (s : bytes) : bytes := rev (lstrip ws (rev (lstrip ws s))).
Definition strip (s : bytes) : bytes := strip_by is_ws s.          (* bytes.strip(); what int() skips *)
Definition strip_str (s : bytes) : bytes := strip_by is_ws_str s.  (* str.strip() *)

Definition is_ascii7 (s : bytes) : bool := forallb (fun c => N_of_ascii c <? 128) s.

Fixpoint starts_with (p s : bytes) : bool :=
  match p, s with
  | [], _ => true
  | a :: p', b :: s' => Ascii.eqb a b && starts_with p' s'
  | _ :: _, [] => false
  end.

(* ------------------------------------------------------------------ *)
(* Numbers as text: `%d`, `%x`, int()                                  *)

Definition digit_char (d : N) : ascii :=
  ch (if d <? 10 then 48 + d else 87 + d).

(* digits of n in base b, most significant first.  Fuel = 1 + floor(log2 n)
   always suffices (b >= 2); the out-of-fuel branch emits the impossible digit
   value b (rendered as a non-digit) and is proved unreachable by the
   round-trip lemmas undec_dec / hexval_hex, which hold for every n. *)
Fixpoint ndigits (b : N) (fuel : nat) (n : N) (acc : list N) : list N :=
  match fuel with
  | O => b :: acc
  | S f => if n <? b then n :: acc else ndigits b f (n / b) (n mod b :: acc)
  end.
Definition digits (b n : N) : list N := ndigits b (S (N.to_nat (N.log2 n))) n [].

Definition dec (n : N) : bytes := map digit_char (digits 10 n).   (* b'%d' % n, n >= 0 *)
Definition hex (n : N) : bytes := map digit_char (digits 16 n).   (* '%x' % n *)

Definition dec_val (c : ascii) : option N :=
  let n := N_of_ascii c in
  if (48 <=? n) && (n <=? 57) then Some (n - 48) else None.

Definition hex_val (c : ascii) : option N :=
  let n := N_of_ascii c in
  if (48 <=? n) && (n <=? 57) then Some (n - 48)
  else if (97 <=? n) && (n <=? 102) then Some (n - 87)
  else if (65 <=? n) && (n <=? 70) then Some (n - 55)
  else None.

Fixpoint undigits (b : N) (val : ascii -> option N) (s : bytes) (acc : N) : option N :=
  match s with
  | [] => Some acc
  | c :: r => match val c with
              | Some d => undigits b val r (acc * b + d)
              | None => None
              end
  end.

(* non-empty string of decimal digits *)
Definition undec (s : bytes) : option N :=
  match s with [] => None | _ => undigits 10 dec_val s 0 end.

(* int(s) for ASCII str / bytes: surrounding white space, optional sign,
   decimal digits.  (PEP 515 underscores are NOT modelled; the harness keeps
   them out of the generated fields.)  None = ValueError. *)
Definition py_int (s : bytes) : option Z :=
  match strip s with
  | c :: r =>
    if Ascii.eqb c (ch 45) then option_map (fun n => (- Z.of_N n)%Z) (undec r)
    else if Ascii.eqb c (ch 43) then option_map Z.of_N (undec r)
    else option_map Z.of_N (undec (c :: r))
  | [] => None
  end.

(* ------------------------------------------------------------------ *)
(* IPv4 text: str(ipaddress.IPv4Address(raw)) = inet_ntop(AF_INET, raw) *)

Definition fmt4 (a : bytes) : bytes :=
  join DOT (map (fun b => dec (N_of_ascii b)) a).

(* one octet as accepted by inet_pton(AF_INET) / ipaddress: 1-3 decimal
   digits, no leading zero unless it is "0", value <= 255 *)
Definition parse_octet (w : bytes) : option N :=
  match w with
  | [] => None
  | c :: r =>
    if Ascii.eqb c ZERO_CH && negb (match r with [] => true | _ => false end) then None
    else if 3 <? lenN w then None
    else match undigits 10 dec_val w 0 with
         | Some n => if n <=? 255 then Some n else None
         | None => None
         end
  end.

Definition parse4 (s : bytes) : option bytes :=
  match split_on DOT s with
  | [a; b; c; d] =>
    match parse_octet a, parse_octet b, parse_octet c, parse_octet d with
    | Some a', Some b', Some c', Some d' => Some [ch a'; ch b'; ch c'; ch d']
    | _, _, _, _ => None
    end
  | _ => None
  end.

(* ------------------------------------------------------------------ *)
(* IPv6 text                                                           *)

Fixpoint groups_of (a : bytes) : list N :=
  match a with
  | h :: l :: r => get_u16 h l :: groups_of r
  | _ => []
  end.

Fixpoint bytes_of_groups (gs : list N) : bytes :=
  match gs with
  | [] => []
  | g :: r => put_u16 g ++ bytes_of_groups r
  end.

Definition is0 (g : N) : bool := g =? 0.

(* ipaddress._compress_hextets / glibc inet_ntop6: the longest run of zero
   groups, leftmost on ties.  State: index, best (start,len), current (start,len). *)
Fixpoint best_run_go (m : list bool) (idx bs bl cs cl : nat) : nat * nat :=
  match m with
  | [] => (bs, bl)
  | true :: r =>
    let cs' := if Nat.eqb cl 0 then idx else cs in
    let cl' := S cl in
    if Nat.ltb bl cl' then best_run_go r (S idx) cs' cl' cs' cl'
    else best_run_go r (S idx) bs bl cs' cl'
  | false :: r => best_run_go r (S idx) bs bl 0%nat 0%nat
  end.
Definition best_run (m : list bool) : nat * nat := best_run_go m 0 0 0 0 0.

(* one element of the list that ':'.join() receives *)
Inductive part :=
| PG (g : N)            (* a hextet, printed '%x' *)
| PE                    (* '' — the artefact of '::' *)
| PV4 (hi lo : N)       (* dotted-quad tail covering the last two groups *)
| PBad.                 (* (parser only) anything else *)

(* ipaddress.IPv6Address._compress_hextets (CPython 3.12, Lib/ipaddress.py):
     if best_len > 1: if end == len: hextets += ['']
                      hextets[start:end] = ['']
                      if start == 0: hextets = [''] + hextets            *)
Definition compress (gs : list N) : list part :=
  let '(s, l) := best_run (map is0 gs) in
  if Nat.ltb 1 l then
    let e := (s + l)%nat in
    (if Nat.eqb s 0 then [PE] else []) ++ map PG (firstn s gs) ++ [PE]
      ++ map PG (skipn e gs) ++ (if Nat.eqb e (length gs) then [PE] else [])
  else map PG gs.

(* glibc inet_ntop6: same run selection (runs of length >= 2 only); when the
   run starts at group 0 and has length 6, or length 5 followed by ffff, the
   last 32 bits are printed as a dotted quad. *)
Definition compress_ntop (gs : list N) : list part :=
  let '(s, l) := best_run (map is0 gs) in
  if Nat.eqb s 0 && (Nat.eqb l 6 || (Nat.eqb l 5 && (nth 5 gs 0 =? 65535))) then
    [PE; PE] ++ (if Nat.eqb l 5 then [PG 65535] else []) ++ [PV4 (nth 6 gs 0) (nth 7 gs 0)]
  else compress gs.

Definition render_part (p : part) : bytes :=
  match p with
  | PG g => hex g
  | PE => []
  | PV4 hi lo => fmt4 (put_u16 hi ++ put_u16 lo)
  | PBad => [ch 63]
  end.

(* str(ipaddress.IPv6Address(raw16))   — used by original_dst *)
Definition fmt6 (a : bytes) : bytes := join COLON (map render_part (compress (groups_of a))).
(* socket.inet_ntop(AF_INET6, raw16)   — used by tproxy.recv_udp, by CPython's
   getsockname()/getpeername() and by pf.query_nat *)
Definition fmt6_ntop (a : bytes) : bytes := join COLON (map render_part (compress_ntop (groups_of a))).

(* The parser: inet_pton(AF_INET6) as used by connect() on the server and by
   pf.query_nat; follows ipaddress.IPv6Address._ip_int_from_string part by part. *)
Definition parse_hextet (w : bytes) : option N :=
  match w with
  | [] => None
  | _ => if 4 <? lenN w then None else undigits 16 hex_val w 0
  end.

Definition classify (w : bytes) : part :=
  match w with
  | [] => PE
  | _ =>
    if mem_ch DOT w then
      match parse4 w with
      | Some [a; b; c; d] => PV4 (get_u16 a b) (get_u16 c d)
      | _ => PBad
      end
    else match parse_hextet w with Some g => PG g | None => PBad end
  end.

Definition is_pe (p : part) : bool := match p with PE => true | _ => false end.

(* a dotted tail is allowed only as the last part; it stands for two groups *)
Definition expand_tail (ps : list part) : list part :=
  match rev ps with
  | PV4 hi lo :: r => rev r ++ [PG hi; PG lo]
  | _ => ps
  end.

Fixpoint all_groups (ps : list part) : option (list N) :=
  match ps with
  | [] => Some []
  | PG g :: r => match all_groups r with Some gs => Some (g :: gs) | None => None end
  | _ => None
  end.

Definition parse_parts (ps0 : list part) : option (list N) :=
  let ps := expand_tail ps0 in
  let n := length ps in
  if Nat.ltb n 3 || Nat.ltb 9 n then None else
  match filter (fun i => is_pe (nth i ps PBad)) (seq 1 (n - 2)) with
  | [] =>
    if Nat.eqb n 8 then all_groups ps else None
  | [k] =>
    let hi0 := k in
    let lo0 := (n - k - 1)%nat in
    let first_e := is_pe (hd PBad ps) in
    let last_e := is_pe (last ps PBad) in
    let hi := if first_e then (hi0 - 1)%nat else hi0 in
    let lo := if last_e then (lo0 - 1)%nat else lo0 in
    if first_e && negb (Nat.eqb hi 0) then None
    else if last_e && negb (Nat.eqb lo 0) then None
    else if Nat.ltb 7 (hi + lo) then None
    else
      match all_groups (firstn hi ps), all_groups (skipn (n - lo) ps) with
      | Some h, Some l => Some (h ++ repeat 0 (8 - (hi + lo)) ++ l)
      | _, _ => None
      end
  | _ => None
  end.

Definition parse6 (s : bytes) : option bytes :=
  match parse_parts (map classify (split_on COLON s)) with
  | Some gs => Some (bytes_of_groups gs)
  | None => None
  end.

(* ------------------------------------------------------------------ *)
(* Kernel layouts                                                      *)

Inductive endian := LE | BE.

Definition AF_INET : N := 2.
Definition AF_INET6 : N := 10.          (* Linux; the client prints sock.family as is *)
Definition SOL_IP : N := 0.
Definition SOL_IPV6 : N := 41.
Definition IP_ORIGDSTADDR : N := 20.    (* tproxy.py:13 *)
Definition IPV6_ORIGDSTADDR : N := 74.  (* tproxy.py:16 *)
Definition ENOPROTOOPT : N := 92.
Definition EINVAL : N := 22.
Definition IPPROTO_TCP : N := 6.

(* a 16-bit field stored in host byte order *)
Definition native_u16 (e : endian) (n : N) : bytes :=
  match e with
  | BE => put_u16 n
  | LE => [ch (n mod 256); ch (n / 256)]
  end.

(* struct sockaddr_in { sa_family_t sin_family; __be16 sin_port; struct in_addr sin_addr; char pad[8]; } *)
Definition sockaddr_in (e : endian) (a : bytes) (p : N) : bytes :=
  native_u16 e AF_INET ++ put_u16 p ++ a ++ repeat zero 8.

(* struct sockaddr_in6 { sa_family_t; __be16 sin6_port; __be32 sin6_flowinfo; struct in6_addr; __u32 sin6_scope_id; } *)
Definition sockaddr_in6 (e : endian) (a : bytes) (p : N) (flow scope : bytes) : bytes :=
  native_u16 e AF_INET6 ++ put_u16 p ++ flow ++ a ++ scope.

(* ------------------------------------------------------------------ *)
(* original_dst (methods/__init__.py:10-31)                            *)

(* getsockopt outcome: the returned buffer, or socket.error(errno) *)
Definition original_dst (fam : N) (gso : bytes + N) (sockname : bytes * N)
  : result (bytes * N) :=
  if (fam =? AF_INET) || (fam =? AF_INET6) then
    match gso with
    | inr e => if e =? ENOPROTOOPT then Ok sockname else Crash (OSError e)
    | inl sa =>
      if fam =? AF_INET then
        (* struct.unpack_from('!2xH4s', sockaddr_in[:8]) *)
        match takeN 8 sa with
        | [_; _; p1; p2; a1; a2; a3; a4] => Ok (fmt4 [a1; a2; a3; a4], get_u16 p1 p2)
        | _ => Crash StructError
        end
      else
        (* struct.unpack_from("!2xH4x16s", sockaddr_in): needs 24 bytes *)
        if lenN sa <? 24 then Crash StructError
        else match sa with
             | _ :: _ :: p1 :: p2 :: _ :: _ :: _ :: _ :: r => Ok (fmt6 (takeN 16 r), get_u16 p1 p2)
             | _ => Crash StructError
             end
    end
  else Fatal.

(* ------------------------------------------------------------------ *)
(* tproxy.recv_udp (methods/tproxy.py:20-50)                           *)

Definition read_native_u16 (e : endian) (b0 b1 : ascii) : N :=
  match e with BE => get_u16 b0 b1 | LE => get_u16 b1 b0 end.

(* socket.htons on a host of the given endianness *)
Definition htons (e : endian) (n : N) : N :=
  match e with BE => n | LE => (n mod 256) * 256 + n / 256 end.

(* one matching control message: family/port by '=HH' + htons, then inet_ntop
   of cmsg_data[start:start+len] *)
Definition cmsg_decode (e : endian) (want_fam start len : N) (v6 : bool) (d : bytes)
  : result (bytes * N) :=
  match takeN 4 d with
  | [f0; f1; p0; p1] =>
    let family := read_native_u16 e f0 f1 in
    let port := htons e (read_native_u16 e p0 p1) in
    if family =? want_fam then
      let raw := takeN len (dropN start d) in
      if lenN raw =? len then Ok ((if v6 then fmt6_ntop raw else fmt4 raw), port)
      else Crash ValueError                   (* inet_ntop: invalid length *)
    else Fatal
  | _ => Crash StructError
  end.

Fixpoint recv_udp_dst (e : endian) (anc : list (N * N * bytes)) : result (option (bytes * N)) :=
  match anc with
  | [] => Ok None
  | (lvl, typ, d) :: r =>
    if (lvl =? SOL_IP) && (typ =? IP_ORIGDSTADDR) then
      match cmsg_decode e AF_INET 4 4 false d with
      | Ok v => Ok (Some v) | Fatal => Fatal | Crash x => Crash x
      end
    else if (lvl =? SOL_IPV6) && (typ =? IPV6_ORIGDSTADDR) then
      match cmsg_decode e AF_INET6 8 16 true d with
      | Ok v => Ok (Some v) | Fatal => Fatal | Crash x => Crash x
      end
    else recv_udp_dst e r
  end.

(* What recvmsg(bufsize, ancbufsize) hands back for the control messages the kernel has
   for a datagram: Linux put_cmsg() (net/core/scm.c), one call per message, in order.
   `hdr` = sizeof(struct cmsghdr) = CMSG_LEN(0) (16 on 64-bit Linux, 12 on 32-bit),
   `al` = the alignment of CMSG_ALIGN (sizeof(long)), `room` = what is left of the
   buffer the caller offered (msg_controllen).
     - room < hdr: nothing is stored, MSG_CTRUNC;
     - hdr + len(data) > room: the DATA IS CUT to room - hdr bytes, MSG_CTRUNC;
     - the buffer advances by min(CMSG_SPACE(len), room).
   CPython's recvmsg returns the (possibly cut) data of every stored message, and
   msg_flags.  The result is (ancdata, MSG_CTRUNC set).  Validated against the running
   kernel by the harness (loopback sockets with IP(V6)_RECVORIGDSTADDR, every buffer
   size around the boundaries).                                                       *)
Definition cmsg_align (al n : N) : N := ((n + al - 1) / al) * al.
Definition cmsg_space (hdr al n : N) : N := cmsg_align al hdr + cmsg_align al n.

Fixpoint put_cmsgs (hdr al room : N) (msgs : list (N * N * bytes)) : list (N * N * bytes) * bool :=
  match msgs with
  | [] => ([], false)
  | (lvl, typ, d) :: r =>
    if room <? hdr then (fst (put_cmsgs hdr al room r), true)
    else
      let fits := hdr + lenN d <=? room in
      let d' := if fits then d else takeN (room - hdr) d in
      let used := N.min (cmsg_space hdr al (lenN d)) room in
      let t := put_cmsgs hdr al (room - used) r in
      ((lvl, typ, d') :: fst t, negb fits || snd t)
  end.

(* the data room of the control buffer recv_udp offers: socket.CMSG_SPACE(24), tproxy.py:23
   (the harness observes the number the real code passes and compares) *)
Definition ANC_DATA_ROOM : N := 24.

(* tproxy.recv_udp on a kernel-like socket: the destination decoded from what the kernel
   stores into a control buffer of `room` bytes, and the MSG_CTRUNC flag of that call
   (which recv_udp does not look at: `data, ancdata, _, srcip = listener.recvmsg(...)`) *)
Definition recv_udp_kernel (e : endian) (hdr al room : N) (msgs : list (N * N * bytes))
  : result (option (bytes * N)) * bool :=
  let t := put_cmsgs hdr al room msgs in (recv_udp_dst e (fst t), snd t).

(* getsockname() of a transparent (tproxy) socket / getpeername(): CPython's
   makesockaddr = (inet_ntop text, ntohs port) *)
Definition sockname4 (a : bytes) (p : N) : bytes * N := (fmt4 a, p).
Definition sockname6 (a : bytes) (p : N) : bytes * N := (fmt6_ntop a, p).

(* ------------------------------------------------------------------ *)
(* CONNECT payload (client.py:527-528) and server.new_channel          *)

Definition connect_payload (fam : N) (ip : bytes) (port : N) : bytes :=
  dec fam ++ COMMA :: ip ++ COMMA :: dec port.

Inductive famclass := FamV4 | FamV6.

(* server.py:354-365.  decode("ASCII"), split(',', 2), int, family normalisation, int *)
Definition new_channel (data : bytes) : result (famclass * bytes * Z) :=
  if negb (is_ascii7 data) then Crash UnicodeDecodeError else
  match splitn 2 COMMA data with
  | [f; ip; port] =>
    match py_int f with
    | None => Crash ValueError
    | Some fam =>
      match py_int port with
      | None => Crash ValueError
      | Some p => Ok (if (fam =? 2)%Z then FamV4 else FamV6, ip, p)
      end
    end
  | _ => Crash ValueError
  end.

(* ------------------------------------------------------------------ *)
(* UDP data header (client.py:556-557) and server.udp_req              *)

Definition udp_frame (ip : bytes) (port : N) (payload : bytes) : bytes :=
  ip ++ COMMA :: dec port ++ COMMA :: payload.

Definition udp_req (data : bytes) : result (bytes * Z * bytes) :=
  match splitn 2 COMMA data with
  | [ip; port; payload] =>
    match py_int port with
    | None => Crash ValueError
    | Some p => Ok (ip, p, payload)
    end
  | _ => Crash ValueError
  end.

(* ------------------------------------------------------------------ *)
(* pf: the QUERY_PF_NAT dialogue                                       *)

(* "QUERY_PF_NAT " *)
Definition s_QUERY : bytes := map ch [81; 85; 69; 82; 89; 95; 80; 70; 95; 78; 65; 84; 32].
(* "QUERY_PF_NAT_SUCCESS " *)
Definition s_SUCCESS : bytes := map ch [81; 85; 69; 82; 89; 95; 80; 70; 95; 78; 65; 84; 95; 83; 85; 67; 67; 69; 83; 83; 32].
(* "QUERY_PF_NAT_FAILURE " *)
Definition s_FAILURE : bytes := map ch [81; 85; 69; 82; 89; 95; 80; 70; 95; 78; 65; 84; 95; 70; 65; 73; 76; 85; 82; 69; 32].

(* pf.py:436-439 *)
Definition pf_request (fam : N) (peer : bytes * N) (proxy : bytes * N) : bytes :=
  s_QUERY ++ dec fam ++ COMMA :: dec IPPROTO_TCP ++ COMMA :: fst peer ++ COMMA :: dec (snd peer)
    ++ COMMA :: fst proxy ++ COMMA :: dec (snd proxy) ++ [NL].

(* file.readline(limit): up to and including the first newline, at most limit bytes *)
Fixpoint readline_lim (limit : nat) (s : bytes) : bytes * bytes :=
  match limit, s with
  | O, _ => ([], s)
  | _, [] => ([], [])
  | S k, c :: r =>
    if Ascii.eqb c NL then ([c], r)
    else let '(l, rest) := readline_lim k r in (c :: l, rest)
  end.

(* file.readline(): the whole line *)
Fixpoint readline_all (s : bytes) : bytes * bytes :=
  match s with
  | [] => ([], [])
  | c :: r =>
    if Ascii.eqb c NL then ([c], r)
    else let '(l, rest) := readline_all r in (c :: l, rest)
  end.

Definition readline_opt (lim : option nat) (s : bytes) : bytes * bytes :=
  match lim with
  | None => readline_all s
  | Some k => readline_lim k s
  end.

(* firewall.py `_read_next_string_line`: the argument of stdin.readline(...) as
   regenerated from /repo on every run (Some 128 in sshuttle as found, None =
   no limit once the F5 repair is applied).  The C05 theorems hold for every
   limit that is absent or >= 128. *)
Definition readline_limit_code : option nat := option_map N.to_nat Consts.fw_readline_limit.

(* what the fake/real pf kernel answers to DIOCNATLOOK *)
Inductive nat_answer :=
| NatFound (rdaddr : bytes) (rdport : N)
| NatError (msg : bytes).                    (* IOError, str(e) = msg *)

Record nat_query := mkNatQuery {
  q_af : Z; q_proto : Z; q_saddr : bytes; q_sport : Z; q_daddr : bytes; q_dport : Z }.

Inductive helper_out :=
| HReply (q : option nat_query) (line : bytes)   (* query that reached the kernel (if any), line written *)
| HNotCommand                                    (* firewall_command returned False -> Fatal in main *)
| HCrash (e : exn).

Definition inet_pton (fam6 : N) (fam : Z) (s : bytes) : option bytes :=
  if (fam =? 2)%Z then parse4 s
  else if (fam =? Z.of_N fam6)%Z then parse6 s
  else None.

Definition fmt_by_len (raw : bytes) : bytes :=
  if lenN raw =? 4 then fmt4 raw else fmt6_ntop raw.

Definition port_ok (p : Z) : bool := (0 <=? p)%Z && (p <=? 65535)%Z.

(* "illegal IP address string passed to inet_pton" *)
Definition enoent_msg : bytes := map ch [105; 108; 108; 101; 103; 97; 108; 32; 73; 80; 32; 97; 100; 100; 114; 101; 115; 115; 32; 115; 116; 114; 105; 110; 103; 32; 112; 97; 115; 115; 101; 100; 32; 116; 111; 32; 105; 110; 101; 116; 95; 112; 116; 111; 110].
(* "[Errno 97] Address family not supported by protocol" *)
Definition eaf_msg : bytes := map ch [91; 69; 114; 114; 110; 111; 32; 57; 55; 93; 32; 65; 100; 100; 114; 101; 115; 115; 32; 102; 97; 109; 105; 108; 121; 32; 110; 111; 116; 32; 115; 117; 112; 112; 111; 114; 116; 101; 100; 32; 98; 121; 32; 112; 114; 111; 116; 111; 99; 111; 108].

(* pf.py:486-497 firewall_command + 78-102 query_nat, on a stripped ASCII line.
   fam6 = the helper platform's AF_INET6.  kernel = answer to the look-up. *)
Definition firewall_command (fam6 : N) (kernel : nat_query -> nat_answer) (line : bytes) : helper_out :=
  if negb (starts_with s_QUERY line) then HNotCommand else
  match split_on COMMA (dropN 13 line) with
  | [family; proto; sip; sport; dip; dport] =>
    match py_int proto, py_int family, py_int sport, py_int dport with
    | Some pr, Some fam, Some sp, Some dp =>
      (* socket.inet_pton(family, ...): family must fit a C int *)
      if negb ((-2147483648 <=? fam)%Z && (fam <=? 2147483647)%Z) then HCrash OverflowError else
      if negb ((fam =? 2)%Z || (fam =? Z.of_N fam6)%Z) then HReply None (s_FAILURE ++ eaf_msg ++ [NL]) else
      match inet_pton fam6 fam sip, inet_pton fam6 fam dip with
      | Some sa, Some da =>
        if negb (port_ok sp && port_ok dp) then HCrash OverflowError else
        (* pnl.proto is a c_uint8: ctypes keeps the low 8 bits *)
        let q := mkNatQuery fam (pr mod 256)%Z sa sp da dp in
        match kernel q with
        | NatFound ra rp => HReply (Some q) (s_SUCCESS ++ fmt_by_len ra ++ COMMA :: dec rp ++ [NL])
        | NatError m => HReply (Some q) (s_FAILURE ++ m ++ [NL])
        end
      | _, _ => HReply None (s_FAILURE ++ enoent_msg ++ [NL])
      end
    | _, _, _, _ => HCrash ValueError
    end
  | _ => HCrash TypeError
  end.

(* one turn of the helper's loop on its stdin (firewall.py:226-231, 368-380):
   readline(limit), decode('ASCII'), strip; empty -> the helper returns *)
Inductive helper_turn :=
| TEof
| TOut (o : helper_out) (rest : bytes).

Definition helper_step (fam6 : N) (lim : option nat) (kernel : nat_query -> nat_answer) (stdin : bytes)
  : helper_turn :=
  let '(raw, rest) := readline_opt lim stdin in
  match raw with
  | [] => TEof
  | _ =>
    if negb (is_ascii7 raw) then TOut (HCrash UnicodeDecodeError) rest else
    match strip_str raw with
    | [] => TEof
    | line => TOut (firewall_command fam6 kernel line) rest
    end
  end.

(* client side, pf.py:442-448: decode the reply line *)
Definition pf_reply_decode (in_line : bytes) (sockname : bytes * N) : result (bytes * Z) :=
  (* pf.py:443 debug2(... + in_line.decode("ASCII")) is evaluated first *)
  if negb (is_ascii7 in_line) then Crash UnicodeDecodeError else
  if starts_with s_SUCCESS in_line then
    match split_on COMMA (dropN 21 in_line) with
    | [ip; port] =>
      match py_int port with
      | Some p => Ok (ip, p)
      | None => Crash ValueError
      end
    | _ => Crash ValueError
    end
  else Ok (fst sockname, Z.of_N (snd sockname)).

(* pf.Method.get_tcp_dstip: getpeername outcome, getsockname, and the helper at
   the other end of pfile answering the single request line *)
Definition pf_get_tcp_dstip (fam6 fam : N) (lim : option nat) (kernel : nat_query -> nat_answer)
  (peer : (bytes * N) + N) (sockname : bytes * N) : result (bytes * Z) :=
  match peer with
  | inr e => if e =? EINVAL then Ok (fst sockname, Z.of_N (snd sockname))
             else Crash UnboundLocalError
  | inl pr =>
    match helper_step fam6 lim kernel (pf_request fam pr sockname) with
    | TOut (HReply _ line) _ => pf_reply_decode line sockname
    | TOut HNotCommand _ => Fatal          (* helper dies: 'expected command' *)
    | TOut (HCrash x) _ => Crash x
    | TEof => Fatal
    end
  end.

(* ------------------------------------------------------------------ *)
(* onaccept_tcp (client.py:497-531): guard + CONNECT                   *)

Inductive accept_out :=
| AccDropSelf                                   (* "-- ignored: that's my address!" *)
| AccNoChannel                                  (* too many open channels *)
| AccConnect (chan : N) (payload : bytes).

Definition self_guard (islocal : bytes -> bool) (dst : bytes * N) (listen_port : N) : bool :=
  (snd dst =? listen_port) && islocal (fst dst).

Definition onaccept_tcp (islocal : bytes -> bool) (fam : N) (dst : bytes * N)
  (listen_port : N) (chan : option N) : accept_out :=
  if self_guard islocal dst listen_port then AccDropSelf
  else match chan with
       | None => AccNoChannel
       | Some 0 => AccNoChannel                  (* `if not chan` *)
       | Some c => AccConnect c (connect_payload fam (fst dst) (snd dst))
       end.

(* what ssnet.connect_dst is called with, for a connection the kernel reports
   as (gso / sockname), on the nat/nft path *)
Definition e2e_nat (islocal : bytes -> bool) (fam : N) (gso : bytes + N) (sockname : bytes * N)
  (chan : N) : result (option (famclass * bytes * Z)) :=
  match original_dst fam gso sockname with
  | Ok dst =>
    match onaccept_tcp islocal fam dst (snd sockname) (Some chan) with
    | AccConnect _ payload =>
      match new_channel payload with
      | Ok v => Ok (Some v) | Fatal => Fatal | Crash x => Crash x
      end
    | _ => Ok None
    end
  | Fatal => Fatal
  | Crash x => Crash x
  end.

(* same for a destination that is already a (text, port) pair: tproxy's
   getsockname and pf's decoded reply *)
Definition e2e_text (islocal : bytes -> bool) (fam : N) (dst : bytes * N) (listen_port : N)
  (chan : N) : result (option (famclass * bytes * Z)) :=
  match onaccept_tcp islocal fam dst listen_port (Some chan) with
  | AccConnect _ payload =>
    match new_channel payload with
    | Ok v => Ok (Some v) | Fatal => Fatal | Crash x => Crash x
    end
  | _ => Ok None
  end.

(* UDP: cmsg -> header -> server *)
Definition e2e_udp (e : endian) (anc : list (N * N * bytes)) (payload : bytes)
  : result (option (bytes * Z * bytes)) :=
  match recv_udp_dst e anc with
  | Ok (Some dst) =>
    match udp_req (udp_frame (fst dst) (snd dst) payload) with
    | Ok v => Ok (Some v) | Fatal => Fatal | Crash x => Crash x
    end
  | Ok None => Ok None
  | Fatal => Fatal
  | Crash x => Crash x
  end.
