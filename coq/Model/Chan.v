(* Model/Chan.v — Mux.next_channel (sshuttle/ssnet.py:361-368):
     for _ in range(1024):
         self.chani += 1
         if self.chani > MAX_CHANNEL: self.chani = 1
         if not self.channels.get(self.chani): return self.chani
   (falls off the loop and returns None when 1024 successive identifiers are taken).
   `occ c` = "self.channels.get(c) is truthy".  MAX_CHANNEL is a parameter
   (ssnet.MAX_CHANNEL, set by --wrap).                                        *)
From Coq Require Import List NArith Bool.
Import ListNotations.
Local Open Scope N_scope.

Definition chan_step (maxc chani : N) : N :=
  let c := chani + 1 in if maxc <? c then 1 else c.

Fixpoint next_channel_loop (tries : nat) (maxc : N) (occ : N -> bool) (chani : N)
  : option N * N :=
  match tries with
  | O => (None, chani)
  | S t =>
    let c := chan_step maxc chani in
    if occ c then next_channel_loop t maxc occ c else (Some c, c)
  end.

Definition TRIES : nat := 1024.

Definition next_channel (maxc : N) (occ : N -> bool) (chani : N) : option N * N :=
  next_channel_loop TRIES maxc occ chani.

(* the k-th identifier visited after the cursor *)
Fixpoint chan_iter (k : nat) (maxc chani : N) : N :=
  match k with O => chani | S k' => chan_step maxc (chan_iter k' maxc chani) end.
