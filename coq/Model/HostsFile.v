(* Model/HostsFile.v — executable model of sshuttle/firewall.py
   rewrite_etc_hosts (lines 25-67) / restore_etc_hosts (lines 70-74) and of the
   HOST loop / finally block of firewall.main that call them (lines 372-376,
   410-412), over a small file system.  Definitions only; proofs live in
   Proofs/HostsFile_lemmas.v.

   Text is bytes.  The model is exact for hosts files that decode as UTF-8 and
   whose non-ASCII characters are not Unicode white space (str.strip/rstrip
   would strip U+0085, U+00A0, U+2000.. as well); bytes >= 128 are passed
   through untouched.  Undecodable files make the real code raise
   UnicodeDecodeError before anything is written (not modelled; see harness). *)
From Coq Require Import List NArith Ascii Bool.
From SV Require Import Lib.Bytes Gen.Consts.
Import ListNotations.
Local Open Scope N_scope.

(* ------------------------------------------------------------------ *)
(* Python text primitives                                              *)

Definition ch_nl : ascii := ascii_of_N 10.
Definition ch_cr : ascii := ascii_of_N 13.
Definition ch_sp : ascii := ascii_of_N 32.
Definition ch_hash : ascii := ascii_of_N 35.

Definition is_nl (a : ascii) : bool := N_of_ascii a =? 10.

(* str.isspace() restricted to ASCII: \t \n \v \f \r, FS GS RS US, space *)
Definition is_ws (a : ascii) : bool :=
  let n := N_of_ascii a in
  ((9 <=? n) && (n <=? 13)) || ((28 <=? n) && (n <=? 31)) || (n =? 32).

(* open(path).read() in text mode, newline=None: "\r\n" and lone "\r" become "\n" *)
Fixpoint univ_nl (c : bytes) : bytes :=
  match c with
  | [] => []
  | a :: r =>
      if N_of_ascii a =? 13 then
        match r with
        | b :: r' => if N_of_ascii b =? 10 then ch_nl :: univ_nl r' else ch_nl :: univ_nl r
        | [] => [ch_nl]
        end
      else a :: univ_nl r
  end.

(* str.rstrip(): drop the maximal all-white-space suffix *)
Fixpoint rstrip (c : bytes) : bytes :=
  match c with
  | [] => []
  | a :: r => match rstrip r with
              | [] => if is_ws a then [] else [a]
              | r' => a :: r'
              end
  end.

(* bool(s.strip()) : some character is not white space *)
Definition nonblank (c : bytes) : bool := existsb (fun a => negb (is_ws a)) c.

(* str.split('\n'): always at least one field *)
Fixpoint split_nl (c : bytes) : list bytes :=
  match c with
  | [] => [[]]
  | a :: r =>
      if is_nl a then [] :: split_nl r
      else match split_nl r with
           | h :: t => (a :: h) :: t
           | [] => [[a]]
           end
  end.

Fixpoint is_prefix_b (p l : bytes) : bool :=
  match p, l with
  | [], _ => true
  | _ :: _, [] => false
  | a :: p', b :: l' => Ascii.eqb a b && is_prefix_b p' l'
  end.

(* line.find(m) >= 0 *)
Fixpoint is_infix_b (m l : bytes) : bool :=
  is_prefix_b m l ||
  match l with
  | [] => false
  | _ :: l' => is_infix_b m l'
  end.

(* '%d' % n for n >= 0 *)
Fixpoint digits_le (fuel : nat) (n : N) : list N :=
  match fuel with
  | O => []
  | S f => if n <? 10 then [n] else (n mod 10) :: digits_le f (n / 10)
  end.
Definition digit_char (d : N) : ascii := ascii_of_N (48 + d).
Definition dec (n : N) : bytes :=
  map digit_char (rev (digits_le (S (N.to_nat (N.log2 n))) n)).

(* APPEND = '# sshuttle-firewall-%d AUTOCREATED' % port   (firewall.py:27) *)
Definition marker (port : N) : bytes := hosts_marker_pre ++ dec port ++ hosts_marker_post.
Definition has_marker (port : N) (line : bytes) : bool := is_infix_b (marker port) line.

(* '%-30s' % s *)
Definition ljust (w : nat) (s : bytes) : bytes := s ++ repeat ch_sp (w - length s)%nat.

(* '%-30s %s' % ('%s %s' % (ip, name), APPEND)     (firewall.py:51, without the '\n') *)
Definition marked_line (port : N) (e : bytes * bytes) : bytes :=
  let '(name, ip) := e in
  ljust 30 (ip ++ ch_sp :: name) ++ ch_sp :: marker port.

(* sorted(hostmap.items()): tuples compare by name first (code points = bytes
   for ASCII names), names are unique dict keys; ties broken by ip as Python would *)
Fixpoint bytes_ltb (a b : bytes) : bool :=
  match a, b with
  | _, [] => false
  | [], _ :: _ => true
  | x :: a', y :: b' =>
      if N_of_ascii x <? N_of_ascii y then true
      else if N_of_ascii y <? N_of_ascii x then false
      else bytes_ltb a' b'
  end.
Definition entry := (bytes * bytes)%type.       (* (name, ip) *)
Definition entry_leb (x y : entry) : bool :=
  if bytes_ltb (fst x) (fst y) then true
  else if bytes_ltb (fst y) (fst x) then false
  else negb (bytes_ltb (snd y) (snd x)).
Fixpoint insert_entry (x : entry) (l : list entry) : list entry :=
  match l with
  | [] => [x]
  | y :: l' => if entry_leb x y then x :: l else y :: insert_entry x l'
  end.
Definition sort_entries (l : list entry) : list entry := fold_right insert_entry [] l.

(* hostmap[name] = ip   (firewall.py:374) *)
Fixpoint hm_set (name ip : bytes) (hm : list entry) : list entry :=
  match hm with
  | [] => [(name, ip)]
  | (n, i) :: r => if bytes_eqb n name then (name, ip) :: r else (n, i) :: hm_set name ip r
  end.

(* the lines of old_content.rstrip().split('\n')   (firewall.py:46) *)
Definition norm_lines (content : bytes) : list bytes := split_nl (rstrip content).

Definition kept_lines (port : N) (content : bytes) : list bytes :=
  filter (fun l => negb (has_marker port l)) (norm_lines content).

(* the sequence of strings handed to f.write (each ends with '\n') *)
Definition writes_of (port : N) (old : bytes) (hm : list entry) : list bytes :=
  map (fun l => l ++ [ch_nl]) (kept_lines port old ++ map (marked_line port) (sort_entries hm)).

Definition new_content (port : N) (old : bytes) (hm : list entry) : bytes :=
  concat (writes_of port old hm).

(* ------------------------------------------------------------------ *)
(* File system                                                         *)

Inductive path := PHosts | PBak | PTmp (port : N).

Definition path_eqb (a b : path) : bool :=
  match a, b with
  | PHosts, PHosts => true
  | PBak, PBak => true
  | PTmp p, PTmp q => p =? q
  | _, _ => false
  end.

Record file := mkFile { f_data : bytes; f_uid : N; f_gid : N; f_mode : N; f_ino : N }.

Record fsys := mkFs {
  files : list (path * file);
  next_ino : N;
  link_ok : bool       (* does os.link work on this file system? *)
}.

Fixpoint lookup (p : path) (l : list (path * file)) : option file :=
  match l with
  | [] => None
  | (q, f) :: r => if path_eqb p q then Some f else lookup p r
  end.

Fixpoint remove_path (p : path) (l : list (path * file)) : list (path * file) :=
  match l with
  | [] => []
  | (q, f) :: r => if path_eqb p q then remove_path p r else (q, f) :: remove_path p r
  end.

Definition set_path (p : path) (f : file) (l : list (path * file)) : list (path * file) :=
  (p, f) :: remove_path p l.

Definition fs_get (p : path) (s : fsys) : option file := lookup p (files s).
Definition fs_set (p : path) (f : file) (s : fsys) : fsys :=
  mkFs (set_path p f (files s)) (next_ino s) (link_ok s).
Definition fs_del (p : path) (s : fsys) : fsys :=
  mkFs (remove_path p (files s)) (next_ino s) (link_ok s).
Definition fs_fresh (s : fsys) : N * fsys :=
  (next_ino s, mkFs (files s) (next_ino s + 1) (link_ok s)).

(* content of the hosts path as the code sees it ('' when missing) *)
Definition data_of (o : option file) : bytes :=
  match o with Some f => f_data f | None => [] end.
Definition hosts_data (s : fsys) : bytes := data_of (fs_get PHosts s).

(* ------------------------------------------------------------------ *)
(* One rewrite_etc_hosts call as a machine over primitive operations    *)

Inductive prim :=
| OpRead (found : bool)              (* open(HOSTSFILE).read()          :31 *)
| OpStat (found : bool)              (* os.stat(HOSTSFILE)              :32 *)
| OpExists (r : bool)                (* os.path.exists(BAKFILE)         :38 *)
| OpLink (ok : bool)                 (* os.link(HOSTSFILE, BAKFILE)     :40 *)
| OpCopy (ok : bool)                 (* shutil.copyfile(HOSTSFILE, BAKFILE) :43; false = SameFileError / ENOENT *)
| OpOpenTmp (port : N)               (* open(tmpname, 'w')              :45 *)
| OpWrite (port : N) (d : bytes)     (* f.write(...)                 :49,51 *)
| OpClose (port : N)                 (* f.close()                       :52 *)
| OpChown (port uid gid : N)         (* os.chown                     :56,59 *)
| OpChmod (port mode : N)            (* os.chmod                     :57,60 *)
| OpRename (port : N).               (* os.rename(tmpname, HOSTSFILE)   :62 *)

Inductive pc :=
| AtRead | AtStat | AtExists | AtLink | AtCopy | AtOpen
| AtWrite (pending : list bytes)
| AtChown | AtChmod | AtRename
| AtDone
| AtCrash.             (* an exception escaped rewrite_etc_hosts *)

Record inst := mkInst {
  i_port : N;
  i_map : list entry;
  i_pc : pc;
  i_old : bytes;                     (* old_content (after text-mode decoding) *)
  i_st : option (N * N * N)          (* st: uid, gid, permission bits *)
}.

Definition start (port : N) (hm : list entry) : inst := mkInst port hm AtRead [] None.

Definition with_pc (i : inst) (c : pc) : inst :=
  mkInst (i_port i) (i_map i) c (i_old i) (i_st i).

(* `if old_content.strip() and not os.path.exists(BAKFILE)` — exists is only
   evaluated when the left operand is truthy *)
Definition after_read (old : bytes) : pc := if nonblank old then AtExists else AtOpen.

Definition default_mode : N := 420.   (* 0o644 *)

Definition step (i : inst) (s : fsys) : inst * fsys * option prim :=
  let p := i_port i in
  let tmp := PTmp p in
  match i_pc i with
  | AtRead =>
      match fs_get PHosts s with
      | Some f => (mkInst p (i_map i) AtStat (univ_nl (f_data f)) None, s, Some (OpRead true))
      | None => (mkInst p (i_map i) (after_read []) [] None, s, Some (OpRead false))
      end
  | AtStat =>
      match fs_get PHosts s with
      | Some f => (mkInst p (i_map i) (after_read (i_old i)) (i_old i)
                          (Some (f_uid f, f_gid f, f_mode f)), s, Some (OpStat true))
      | None => (mkInst p (i_map i) (after_read (i_old i)) (i_old i) None, s, Some (OpStat false))
      end
  | AtExists =>
      match fs_get PBak s with
      | Some _ => (with_pc i AtOpen, s, Some (OpExists true))
      | None => (with_pc i AtLink, s, Some (OpExists false))
      end
  | AtLink =>
      match fs_get PHosts s, fs_get PBak s with
      | Some f, None =>
          if link_ok s then (with_pc i AtOpen, fs_set PBak f s, Some (OpLink true))
          else (with_pc i AtCopy, s, Some (OpLink false))
      | _, _ => (with_pc i AtCopy, s, Some (OpLink false))
      end
  | AtCopy =>
      match fs_get PHosts s with
      | None => (with_pc i AtCrash, s, Some (OpCopy false))
      | Some f =>
          match fs_get PBak s with
          | Some b =>
              if f_ino b =? f_ino f then (with_pc i AtCrash, s, Some (OpCopy false))
              else (with_pc i AtOpen,
                    fs_set PBak (mkFile (f_data f) (f_uid b) (f_gid b) (f_mode b) (f_ino b)) s,
                    Some (OpCopy true))
          | None =>
              let '(n, s') := fs_fresh s in
              (with_pc i AtOpen, fs_set PBak (mkFile (f_data f) 0 0 default_mode n) s',
               Some (OpCopy true))
          end
      end
  | AtOpen =>
      let w := AtWrite (writes_of p (i_old i) (i_map i)) in
      match fs_get tmp s with
      | Some t => (with_pc i w, fs_set tmp (mkFile [] (f_uid t) (f_gid t) (f_mode t) (f_ino t)) s,
                   Some (OpOpenTmp p))
      | None =>
          let '(n, s') := fs_fresh s in
          (with_pc i w, fs_set tmp (mkFile [] 0 0 default_mode n) s', Some (OpOpenTmp p))
      end
  | AtWrite [] => (with_pc i AtChown, s, Some (OpClose p))
  | AtWrite (d :: rest) =>
      match fs_get tmp s with
      | Some t => (with_pc i (AtWrite rest),
                   fs_set tmp (mkFile (f_data t ++ d) (f_uid t) (f_gid t) (f_mode t) (f_ino t)) s,
                   Some (OpWrite p d))
      | None => (with_pc i AtCrash, s, None)
      end
  | AtChown =>
      let '(u, g) := match i_st i with Some (u, g, _) => (u, g) | None => (0, 0) end in
      match fs_get tmp s with
      | Some t => (with_pc i AtChmod, fs_set tmp (mkFile (f_data t) u g (f_mode t) (f_ino t)) s,
                   Some (OpChown p u g))
      | None => (with_pc i AtCrash, s, None)
      end
  | AtChmod =>
      let m := match i_st i with Some (_, _, m) => m | None => default_mode end in
      match fs_get tmp s with
      | Some t => (with_pc i AtRename, fs_set tmp (mkFile (f_data t) (f_uid t) (f_gid t) m (f_ino t)) s,
                   Some (OpChmod p m))
      | None => (with_pc i AtCrash, s, None)
      end
  | AtRename =>
      match fs_get tmp s with
      | Some t => (with_pc i AtDone, fs_set PHosts t (fs_del tmp s), Some (OpRename p))
      | None => (with_pc i AtCrash, s, None)
      end
  | AtDone => (i, s, None)
  | AtCrash => (i, s, None)
  end.

(* ------------------------------------------------------------------ *)
(* Running one instance alone: k primitive steps (k = crash point)      *)

Definition is_final (c : pc) : bool :=
  match c with AtDone | AtCrash => true | _ => false end.

Fixpoint run_k (k : nat) (i : inst) (s : fsys) : inst * fsys * list prim :=
  match k with
  | O => (i, s, [])
  | S k' =>
      if is_final (i_pc i) then (i, s, [])
      else
        let '(i1, s1, e) := step i s in
        let '(i2, s2, tr) := run_k k' i1 s1 in
        (i2, s2, match e with Some x => x :: tr | None => tr end)
  end.

(* an upper bound on the number of steps of one call: 5 before the open, the
   open, one per write, close, chown, chmod, rename *)
Definition fuel_for (port : N) (old : bytes) (hm : list entry) : nat :=
  (12 + length old + length hm)%nat.

(* rewrite_etc_hosts(hostmap, port) run to completion.  The fuel is a function
   of the file length (number of lines <= length + 1) and the map size. *)
Definition rewrite_fs (port : N) (hm : list entry) (s : fsys) : inst * fsys * list prim :=
  run_k (fuel_for port (hosts_data s) hm) (start port hm) s.

(* restore_etc_hosts(hostmap, port): only if this instance added hosts  :72 *)
Definition restore_fs (port : N) (hm : list entry) (s : fsys) : fsys * list prim :=
  match hm with
  | [] => (s, [])
  | _ :: _ => let '(_, s', tr) := rewrite_fs port [] s in (s', tr)
  end.

(* ------------------------------------------------------------------ *)
(* Serial histories of several firewall helpers (one per port)          *)

Inductive hop :=
| HHost (port : N) (name ip : bytes)   (* main: HOST line -> hostmap[name]=ip; rewrite  :372-376 *)
| HEnd (port : N).                     (* main: finally -> restore_etc_hosts            :412 *)

Definition maps := list (N * list entry).

Fixpoint map_of (port : N) (m : maps) : list entry :=
  match m with
  | [] => []
  | (q, hm) :: r => if q =? port then hm else map_of port r
  end.
Definition set_map (port : N) (hm : list entry) (m : maps) : maps := (port, hm) :: m.

Definition hop_step (st : fsys * maps) (h : hop) : fsys * maps :=
  let '(s, m) := st in
  match h with
  | HHost p name ip =>
      let hm := hm_set name ip (map_of p m) in
      let '(_, s', _) := rewrite_fs p hm s in
      (s', set_map p hm m)
  | HEnd p =>
      (* restore_etc_hosts does nothing for an instance that never added a host *)
      match map_of p m with
      | [] => (s, m)
      | _ :: _ => let '(s', _) := restore_fs p (map_of p m) s in (s', set_map p [] m)
      end
  end.

Definition run_history (s : fsys) (h : list hop) : fsys * maps :=
  fold_left hop_step h (s, []).

(* ------------------------------------------------------------------ *)
(* Two instances interleaved: the schedule says who takes the next step  *)

Fixpoint run_sched (sched : list bool) (a b : inst) (s : fsys)
  : inst * inst * fsys * list (bool * prim) :=
  match sched with
  | [] => (a, b, s, [])
  | false :: r =>
      let '(a1, s1, e) := step a s in
      let '(a2, b2, s2, tr) := run_sched r a1 b s1 in
      (a2, b2, s2, match e with Some x => (false, x) :: tr | None => tr end)
  | true :: r =>
      let '(b1, s1, e) := step b s in
      let '(a2, b2, s2, tr) := run_sched r a b1 s1 in
      (a2, b2, s2, match e with Some x => (true, x) :: tr | None => tr end)
  end.

(* lines of a written hosts file: every line is terminated by '\n' *)
Definition file_lines (c : bytes) : list bytes := norm_lines (univ_nl c).

(* the lines of a file carrying the marker of `port` *)
Definition own_lines (port : N) (c : bytes) : list bytes :=
  filter (has_marker port) (file_lines c).

(* a fresh file system holding only the hosts file *)
Definition fs_init (content : option bytes) (uid gid mode : N) (lnk : bool) : fsys :=
  match content with
  | Some c => mkFs [(PHosts, mkFile c uid gid mode 1)] 2 lnk
  | None => mkFs [] 2 lnk
  end.

(* ------------------------------------------------------------------ *)
(* The helper's map over the HOST lines of one session (update histories) *)

(* hostmap.get(name) *)
Fixpoint hm_get (name : bytes) (hm : list entry) : option bytes :=
  match hm with
  | [] => None
  | (n, i) :: r => if bytes_eqb n name then Some i else hm_get name r
  end.

(* the helper's map after the HOST lines (name, ip) of one session, in arrival order *)
Definition hm_after (upd : list entry) : list entry :=
  fold_left (fun hm e => hm_set (fst e) (snd e) hm) upd [].   (* = hm_from [] upd *)

(* specification side: the address of the LAST update for `name` in an update history *)
Fixpoint last_addr (name : bytes) (upd : list entry) : option bytes :=
  match upd with
  | [] => None
  | (n, i) :: r =>
      match last_addr name r with
      | Some j => Some j
      | None => if bytes_eqb n name then Some i else None
      end
  end.

(* one helper's view of a history of hops: its map *)
Definition sess_step (p : N) (hm : list entry) (h : hop) : list entry :=
  match h with
  | HHost q n i => if q =? p then hm_set n i hm else hm
  | HEnd q => if q =? p then [] else hm
  end.

(* hostmap after the updates `upd` starting from `hm`: firewall.main's HOST loop, hostmap[name] = ip each time *)
Definition hm_from (hm : list entry) (upd : list entry) : list entry :=
  fold_left (fun hm e => hm_set (fst e) (snd e) hm) upd hm.

(* the hops of one session of port p receiving the updates `upd` *)
Definition host_hops (p : N) (upd : list entry) : list hop := map (fun e => HHost p (fst e) (snd e)) upd.

(* ------------------------------------------------------------------ *)
(* Decoding.  open(HOSTSFILE).read() is a text-mode read: the WHOLE file is decoded in the locale
   encoding (UTF-8) before anything else happens.  A byte sequence that is not well-formed UTF-8
   (Unicode table 3-7, what CPython's strict decoder accepts: no overlong forms, no surrogates,
   nothing above U+10FFFF) raises UnicodeDecodeError - a ValueError, not caught by
   `except IOError` (firewall.py:33) - so rewrite_etc_hosts is left before os.stat, before the
   backup, before the temporary is created.  Well-formed input round-trips byte for byte
   (decode, then encode on write), which is why the machine above works on bytes. *)
Definition in_rng (lo hi : N) (a : ascii) : bool := (lo <=? N_of_ascii a) && (N_of_ascii a <=? hi).

Fixpoint utf8_ok (l : bytes) : bool :=
  match l with
  | [] => true
  | b0 :: r =>
      let n := N_of_ascii b0 in
      if n <=? 127 then utf8_ok r
      else if in_rng 194 223 b0 then
        match r with
        | b1 :: r1 => in_rng 128 191 b1 && utf8_ok r1
        | _ => false
        end
      else if in_rng 224 239 b0 then
        match r with
        | b1 :: b2 :: r2 =>
            (if n =? 224 then in_rng 160 191 b1 else if n =? 237 then in_rng 128 159 b1 else in_rng 128 191 b1)
            && in_rng 128 191 b2 && utf8_ok r2
        | _ => false
        end
      else if in_rng 240 244 b0 then
        match r with
        | b1 :: b2 :: b3 :: r3 =>
            (if n =? 240 then in_rng 144 191 b1 else if n =? 244 then in_rng 128 143 b1 else in_rng 128 191 b1)
            && in_rng 128 191 b2 && in_rng 128 191 b3 && utf8_ok r3
        | _ => false
        end
      else false
  end.

(* rewrite_etc_hosts(hostmap, port) on a hosts file of ARBITRARY bytes *)
Definition rewrite_dec (port : N) (hm : list entry) (s : fsys) : inst * fsys * list prim :=
  if utf8_ok (hosts_data s) then rewrite_fs port hm s
  else (with_pc (start port hm) AtCrash, s, [OpRead true]).

(* restore_etc_hosts(hostmap, port) likewise; true = the exception escaped (firewall.main catches it, :421) *)
Definition restore_dec (port : N) (hm : list entry) (s : fsys) : fsys * list prim * bool :=
  match hm with
  | [] => (s, [], false)
  | _ :: _ => let '(i, s', tr) := rewrite_dec port [] s in
              (s', tr, match i_pc i with AtCrash => true | _ => false end)
  end.
