(* Model/FwLife.v — life cycle of the packet-filter objects created by the
   privileged helper: sshuttle/firewall.py main (lines 201-428),
   sshuttle/linux.py (ipt, nft, ipt_chain_exists, nonfatal) and
   setup_firewall / restore_firewall of methods/nat.py, nft.py, tproxy.py,
   pf.py.  Executable definitions only; proofs live in Proofs/FwLife_lemmas.v.

   The kernel packet filter is MODELLED (DESIGN.md section 3, Appendix B):
   iptables/ip6tables per (family, table) as an ordered list of chains, nft
   as a list of inet tables, pf as anchors + enable state.  Individual rules
   are opaque argv token lists (C03 owns their meaning); the only structure
   used is the token following "-j" (the jump target), which is what the
   kernel uses to refuse "-X" of a referenced chain. *)
From Coq Require Import String List NArith ZArith Ascii Bool.
From SV Require Import Lib.Bytes.
Import ListNotations.

Definition tok := bytes.
Definition rule := list tok.
(* token literals are evaluated at definition time, so that the extracted
   model contains plain byte lists (and no Coq `string` type) *)
Notation bs s := (ltac:(let v := eval vm_compute in (bytes_of_string s%string) in exact v)) (only parsing).

Fixpoint rule_eqb (a b : rule) : bool :=
  match a, b with
  | [], [] => true
  | x :: a', y :: b' => bytes_eqb x y && rule_eqb a' b'
  | _, _ => false
  end.

(* target of a rule: the token after the first "-j" *)
Fixpoint jump_target (r : rule) : option tok :=
  match r with
  | [] => None
  | t :: r' =>
      if bytes_eqb t (bs "-j")
      then match r' with x :: _ => Some x | [] => None end
      else jump_target r'
  end.

Definition jumps_to (c : tok) (r : rule) : bool :=
  match jump_target r with Some x => bytes_eqb x c | None => false end.

(* ------------------------------------------------------------------ *)
(* One iptables table: ordered chains                                   *)

Definition chain := (tok * list rule)%type.
Definition table := list chain.

Fixpoint find_chain (c : tok) (T : table) : option (list rule) :=
  match T with
  | [] => None
  | (n, rs) :: T' => if bytes_eqb n c then Some rs else find_chain c T'
  end.

Fixpoint set_chain (c : tok) (rs : list rule) (T : table) : table :=
  match T with
  | [] => []
  | (n, rs0) :: T' => if bytes_eqb n c then (n, rs) :: T' else (n, rs0) :: set_chain c rs T'
  end.

Fixpoint del_chain (c : tok) (T : table) : table :=
  match T with
  | [] => []
  | (n, rs0) :: T' => if bytes_eqb n c then T' else (n, rs0) :: del_chain c T'
  end.

Definition referenced (c : tok) (T : table) : bool :=
  existsb (fun ch : chain => existsb (jumps_to c) (snd ch)) T.

(* -D: remove the first rule equal to r; None when there is none *)
Fixpoint remove_first (r : rule) (l : list rule) : option (list rule) :=
  match l with
  | [] => None
  | x :: l' => if rule_eqb x r then Some l'
               else match remove_first r l' with Some l'' => Some (x :: l'') | None => None end
  end.

Inductive iop :=
| INew (c : tok)                 (* -N c *)
| IFlush (c : tok)               (* -F c *)
| IDelChain (c : tok)            (* -X c *)
| IInsert (c : tok) (r : rule)   (* -I c 1 r *)
| IAppend (c : tok) (r : rule)   (* -A c r *)
| IDelete (c : tok) (r : rule)   (* -D c r *)
| IList.                         (* -nL *)

(* DESIGN Appendix B.  None = the command exits non-zero, nothing changed. *)
Definition tbl_exec (o : iop) (T : table) : option table :=
  match o with
  | INew c => match find_chain c T with Some _ => None | None => Some (T ++ [(c, [])]) end
  | IFlush c => match find_chain c T with Some _ => Some (set_chain c [] T) | None => None end
  | IDelChain c =>
      match find_chain c T with
      | Some [] => if referenced c T then None else Some (del_chain c T)
      | _ => None
      end
  | IInsert c r => match find_chain c T with Some rs => Some (set_chain c (r :: rs) T) | None => None end
  | IAppend c r => match find_chain c T with Some rs => Some (set_chain c (rs ++ [r]) T) | None => None end
  | IDelete c r =>
      match find_chain c T with
      | Some rs => match remove_first r rs with Some rs' => Some (set_chain c rs' T) | None => None end
      | None => None
      end
  | IList => Some T
  end.

(* `iptables -nL`: per chain a "Chain <name> (...)" header, a column header,
   one line per rule, a blank line.  A rule line starts with the target column
   (`%-9s `: the target name padded to 9), then the protocol/address columns
   (abstract here), then the rule's match and target text; the model prints
   every argv token of the rule VERBATIM there, so whatever bytes a rule
   carries in a free-text position (`-m comment --comment <bytes>`: the kernel
   stores and iptables prints comment bytes as they are, valid UTF-8 or not)
   appear in the listing as they are.  Chain names are printed verbatim too
   (iptables refuses white space in a chain name, nothing else). *)
Fixpoint first_word (b : bytes) : bytes :=
  match b with
  | [] => []
  | a :: b' => if Ascii.eqb a " "%char then [] else a :: first_word b'
  end.

Definition pad_to (n : nat) (b : bytes) : bytes := b ++ repeat " "%char (n - length b).

Definition rule_line (r : rule) : bytes :=
  pad_to 9 (match jump_target r with Some t => first_word t | None => [] end) ++
  " "%char :: bs "0    --  0.0.0.0/0            0.0.0.0/0           " ++
  flat_map (fun t : tok => " "%char :: t) r.

Definition listing (T : table) : list bytes :=
  flat_map (fun ch : chain =>
              [bs "Chain " ++ fst ch ++ bs " (" ++ bs "policy ACCEPT)";
               bs "target     prot opt source               destination"] ++
              map rule_line (snd ch) ++ [[]]) T.

Fixpoint starts_with (p l : bytes) : bool :=
  match p, l with
  | [], _ => true
  | a :: p', b :: l' => if Ascii.eqb a b then starts_with p' l' else false
  | _ :: _, [] => false
  end.

(* linux.py:23  output.decode('ASCII', errors='replace'): every byte below 0x80 is
   that code point, every other byte becomes U+FFFD; the decoder is total *)
Inductive uchar := UA (a : ascii) | URepl.

Definition uchar_eqb (x y : uchar) : bool :=
  match x, y with
  | UA a, UA b => Ascii.eqb a b
  | URepl, URepl => true
  | _, _ => false
  end.

Definition ascii7 (a : ascii) : bool :=
  match a with Ascii _ _ _ _ _ _ _ b7 => negb b7 end.

Definition decode_replace (b : bytes) : list uchar :=
  map (fun a : ascii => if ascii7 a then UA a else URepl) b.

(* a Python str given by its code points 0..255 (the chain name is built from
   'sshuttle-%s' % port, nat.py:31 / tproxy.py:134-136) *)
Definition ustr (b : bytes) : list uchar := map UA b.

Fixpoint ustarts_with (p l : list uchar) : bool :=
  match p, l with
  | [], _ => true
  | a :: p', b :: l' => if uchar_eqb a b then ustarts_with p' l' else false
  | _ :: _, [] => false
  end.

(* linux.py:24  line.startswith('Chain %s ' % name) *)
Definition chain_pattern (name : tok) : list uchar := ustr (bs "Chain " ++ name ++ bs " ").

(* linux.py:23-25 on the lines of the listing (one element per line the kernel prints) *)
Definition chain_in_listing (name : tok) (lines : list bytes) : bool :=
  existsb (fun l : bytes => ustarts_with (chain_pattern name) (decode_replace l)) lines.

(* the same on the raw output bytes, as the code does it: decode, then .split('\n').
   It coincides with chain_in_listing when no printed line contains a line feed
   (Proofs/FwLife_lemmas.v chain_in_output_lines); a rule whose text contains one
   prints as several lines — finding F90. *)
Definition is_lf (c : uchar) : bool := uchar_eqb c (UA "010"%char).

Fixpoint usplit (l : list uchar) : list (list uchar) :=
  match l with
  | [] => [[]]
  | c :: l' =>
      match usplit l' with
      | cur :: rest => if is_lf c then [] :: cur :: rest else (c :: cur) :: rest
      | [] => [[c]]
      end
  end.

Definition chain_in_output (name : tok) (out : bytes) : bool :=
  existsb (ustarts_with (chain_pattern name)) (usplit (decode_replace out)).

(* ------------------------------------------------------------------ *)
(* nft: inet tables                                                     *)

Definition nfttable := (tok * table)%type.     (* name, chains *)

Inductive nftop :=
| NAddTable (t : tok)
| NAddChain (t c : tok) (spec : list tok)       (* printed args after the table *)
| NFlushChain (t c : tok)
| NAddRule (t c : tok) (args : list tok)        (* args as passed (args[0] starts with the chain name) *)
| NDeleteTable (t : tok)
| NCreateChain (t c : tok) (spec : list tok).    (* `nft create chain`: as `add chain`, but an existing chain is an error
                                                   (EEXIST, "File exists"; checked against nft 1.0.x in a namespace).
                                                   methods/nft.py does not issue it; the kernel model knows it so that a
                                                   changed set-up sequence is ANSWERED as the real tool answers. *)

Fixpoint find_tbl (t : tok) (L : list nfttable) : option table :=
  match L with
  | [] => None
  | (n, T) :: L' => if bytes_eqb n t then Some T else find_tbl t L'
  end.
Fixpoint set_tbl (t : tok) (T : table) (L : list nfttable) : list nfttable :=
  match L with
  | [] => []
  | (n, T0) :: L' => if bytes_eqb n t then (n, T) :: L' else (n, T0) :: set_tbl t T L'
  end.
Fixpoint del_tbl (t : tok) (L : list nfttable) : list nfttable :=
  match L with
  | [] => []
  | (n, T0) :: L' => if bytes_eqb n t then L' else (n, T0) :: del_tbl t L'
  end.

Definition nft_exec (o : nftop) (L : list nfttable) : option (list nfttable) :=
  match o with
  | NAddTable t => match find_tbl t L with Some _ => Some L | None => Some (L ++ [(t, [])]) end
  | NAddChain t c _ =>
      match find_tbl t L with
      | Some T => match find_chain c T with
                  | Some _ => Some L
                  | None => Some (set_tbl t (T ++ [(c, [])]) L)
                  end
      | None => None
      end
  | NFlushChain t c =>
      match find_tbl t L with
      | Some T => match find_chain c T with Some _ => Some (set_tbl t (set_chain c [] T) L) | None => None end
      | None => None
      end
  | NAddRule t c args =>
      match find_tbl t L with
      | Some T => match find_chain c T with
                  | Some rs => Some (set_tbl t (set_chain c (rs ++ [args]) T) L)
                  | None => None
                  end
      | None => None
      end
  | NDeleteTable t => match find_tbl t L with Some _ => Some (del_tbl t L) | None => None end
  | NCreateChain t c _ =>
      match find_tbl t L with
      | Some T => match find_chain c T with
                  | Some _ => None
                  | None => Some (set_tbl t (T ++ [(c, [])]) L)
                  end
      | None => None
      end
  end.

(* ------------------------------------------------------------------ *)
(* pf                                                                   *)

Inductive pfos := FreeBSD | OpenBSD | Darwin.

Record pfstate := mkPf {
  pf_loaded : bool;                 (* kernel module present (FreeBSD kldload) *)
  pf_on : bool;                     (* enabled by -e *)
  pf_refs : list tok;               (* Darwin -E tokens outstanding *)
  pf_next : N;                      (* next Darwin token *)
  pf_skip_lo : bool;                (* "set skip on lo" in force *)
  pf_main : list bytes;             (* rule sets loaded into the main ruleset by `pfctl -f -` *)
  pf_calls : list (bool * tok);     (* anchor calls in the main ruleset: (is_rdr, name) *)
  pf_anchors : list (tok * bytes)   (* non-empty anchors: name -> rule text *)
}.

Inductive pfop :=
| PStatus                              (* pfctl -s all *)
| PSkipQuery                           (* pfctl -s Interfaces -i lo -v *)
| PLoadMain (text : bytes)             (* pfctl -f /dev/stdin *)
| PLoadAnchor (a : tok) (text : bytes) (* pfctl -a A -f /dev/stdin *)
| PFlushAnchor (a : tok)               (* pfctl -a A -F all *)
| PEnable                              (* pfctl -e *)
| PDisable                             (* pfctl -d *)
| PEnableRef                           (* pfctl -E *)
| PReleaseRef (t : tok)                (* pfctl -X t *)
| PKldLoad                             (* kldload pf   (subprocess.call, rc only) *)
| PKldUnload                           (* kldunload pf *)
| PAddCall (rdr : bool) (a : tok).     (* ioctl DIOCCHANGERULE x2 (+DIOCBEGINADDRS): append an anchor call *)

Fixpoint anchor_del (a : tok) (L : list (tok * bytes)) : list (tok * bytes) :=
  match L with
  | [] => []
  | (n, x) :: L' => if bytes_eqb n a then anchor_del a L' else (n, x) :: anchor_del a L'
  end.

Definition anchor_set (a : tok) (text : bytes) (L : list (tok * bytes)) : list (tok * bytes) :=
  match text with
  | [] => anchor_del a L
  | _ => anchor_del a L ++ [(a, text)]
  end.

Fixpoint tok_del (t : tok) (l : list tok) : option (list tok) :=
  match l with
  | [] => None
  | x :: l' => if bytes_eqb x t then Some l'
               else match tok_del t l' with Some l'' => Some (x :: l'') | None => None end
  end.

(* decimal rendering of small numbers (Darwin tokens) *)
Fixpoint dec_fuel (fuel : nat) (n : N) (acc : bytes) : bytes :=
  match fuel with
  | O => acc
  | S f =>
      let d := ascii_of_N (48 + N.modulo n 10) in
      if N.ltb n 10 then d :: acc else dec_fuel f (N.div n 10) (d :: acc)
  end.
Definition dec (n : N) : bytes := dec_fuel 40 n [].

Definition pf_enabled (p : pfstate) : bool :=
  pf_on p || match pf_refs p with [] => false | _ => true end.

Definition has_call (rdr : bool) (a : tok) (p : pfstate) : bool :=
  existsb (fun c : bool * tok => Bool.eqb (fst c) rdr && bytes_eqb (snd c) a) (pf_calls p).

(* output of `pfctl -s all` as far as pf.py looks at it (pf.py:67,117,198) *)
Definition pf_status_lines (p : pfstate) : list bytes :=
  [bs "TRANSLATION RULES:"] ++
  map (fun c : bool * tok => bs "rdr-anchor """ ++ snd c ++ bs """ all")
      (filter (fun c : bool * tok => fst c) (pf_calls p)) ++
  [[]; bs "FILTER RULES:"] ++
  map (fun c : bool * tok => bs "anchor """ ++ snd c ++ bs """ all")
      (filter (fun c : bool * tok => negb (fst c)) (pf_calls p)) ++
  [[]; bs "INFO:";
   if pf_enabled p then bs "Status: Enabled for 0 days 00:00:01           Debug: Urgent"
   else bs "Status: Disabled for 0 days 00:00:01          Debug: Urgent"].

(* result: new state (None = non-zero exit), stdout lines, stderr lines *)
Definition pf_exec (o : pfop) (p : pfstate) : option pfstate * list bytes * list bytes :=
  let same := (Some p, [], []) in
  let fail := (None, [], []) in
  let upd := fun q : pfstate => (Some q, [], []) in
  match o with
  | PKldLoad => if pf_loaded p then fail
                else upd (mkPf true (pf_on p) (pf_refs p) (pf_next p) (pf_skip_lo p) (pf_main p) (pf_calls p) (pf_anchors p))
  | PKldUnload => if pf_loaded p
                  then upd (mkPf false false [] (pf_next p) false [] [] [])
                  else fail
  | _ =>
    if negb (pf_loaded p) then fail else
    match o with
    | PStatus => (Some p, pf_status_lines p, [])
    | PSkipQuery => (Some p, [if pf_skip_lo p then bs "lo0 (skip)" else bs "lo0"], [])
    | PLoadMain text =>
        upd (mkPf true (pf_on p) (pf_refs p) (pf_next p) false (pf_main p ++ [text]) [] (pf_anchors p))
    | PLoadAnchor a text =>
        upd (mkPf true (pf_on p) (pf_refs p) (pf_next p) (pf_skip_lo p) (pf_main p) (pf_calls p)
                  (anchor_set a text (pf_anchors p)))
    | PFlushAnchor a =>
        upd (mkPf true (pf_on p) (pf_refs p) (pf_next p) (pf_skip_lo p) (pf_main p) (pf_calls p)
                  (anchor_del a (pf_anchors p)))
    | PEnable => if pf_enabled p then fail
                 else upd (mkPf true true (pf_refs p) (pf_next p) (pf_skip_lo p) (pf_main p) (pf_calls p) (pf_anchors p))
    | PDisable => if pf_enabled p
                  then upd (mkPf true false [] (pf_next p) (pf_skip_lo p) (pf_main p) (pf_calls p) (pf_anchors p))
                  else fail
    | PEnableRef =>
        let t := dec (pf_next p) in
        (Some (mkPf true (pf_on p) (pf_refs p ++ [t]) (N.succ (pf_next p)) (pf_skip_lo p) (pf_main p)
                    (pf_calls p) (pf_anchors p)),
         [], [bs "pf enabled"; bs "Token : " ++ t])
    | PReleaseRef t =>
        match tok_del t (pf_refs p) with
        | Some l => upd (mkPf true (pf_on p) l (pf_next p) (pf_skip_lo p) (pf_main p) (pf_calls p) (pf_anchors p))
        | None => fail
        end
    | PAddCall rdr a =>
        upd (mkPf true (pf_on p) (pf_refs p) (pf_next p) (pf_skip_lo p) (pf_main p)
                  (pf_calls p ++ [(rdr, a)]) (pf_anchors p))
    | _ => same
    end
  end.

(* ------------------------------------------------------------------ *)
(* Whole kernel state and commands                                      *)

Inductive fam := V6 | V4.
Inductive tbl := TNat | TMangle.

Record kstate := mkK {
  k_v6nat : table; k_v6mangle : table; k_v4nat : table; k_v4mangle : table;
  k_nft : list nfttable;
  k_pf : pfstate
}.

Definition get_tbl (f : fam) (t : tbl) (s : kstate) : table :=
  match f, t with
  | V6, TNat => k_v6nat s | V6, TMangle => k_v6mangle s
  | V4, TNat => k_v4nat s | V4, TMangle => k_v4mangle s
  end.

Definition put_tbl (f : fam) (t : tbl) (T : table) (s : kstate) : kstate :=
  match f, t with
  | V6, TNat => mkK T (k_v6mangle s) (k_v4nat s) (k_v4mangle s) (k_nft s) (k_pf s)
  | V6, TMangle => mkK (k_v6nat s) T (k_v4nat s) (k_v4mangle s) (k_nft s) (k_pf s)
  | V4, TNat => mkK (k_v6nat s) (k_v6mangle s) T (k_v4mangle s) (k_nft s) (k_pf s)
  | V4, TMangle => mkK (k_v6nat s) (k_v6mangle s) (k_v4nat s) T (k_nft s) (k_pf s)
  end.

Inductive cmd :=
| Ipt (f : fam) (t : tbl) (o : iop)
| Nft (o : nftop)
| Pf (o : pfop).

(* result: new state (None = non-zero exit / no effect), stdout lines, stderr lines *)
Definition exec (c : cmd) (s : kstate) : option kstate * list bytes * list bytes :=
  match c with
  | Ipt f t IList => (Some s, listing (get_tbl f t s), [])
  | Ipt f t o =>
      match tbl_exec o (get_tbl f t s) with
      | Some T => (Some (put_tbl f t T s), [], [])
      | None => (None, [], [])
      end
  | Nft o =>
      match nft_exec o (k_nft s) with
      | Some L => (Some (mkK (k_v6nat s) (k_v6mangle s) (k_v4nat s) (k_v4mangle s) L (k_pf s)), [], [])
      | None => (None, [], [])
      end
  | Pf o =>
      match pf_exec o (k_pf s) with
      | (Some p, out, err) =>
          (Some (mkK (k_v6nat s) (k_v6mangle s) (k_v4nat s) (k_v4mangle s) (k_nft s) p), out, err)
      | (None, out, err) => (None, out, err)
      end
  end.

(* ------------------------------------------------------------------ *)
(* argv printing (what the subprocess boundary sees)                    *)

Definition tbl_name (t : tbl) : tok := match t with TNat => bs "nat" | TMangle => bs "mangle" end.
Definition ipt_prog (f : fam) : tok := match f with V6 => bs "ip6tables" | V4 => bs "iptables" end.

Definition iop_args (o : iop) : list tok :=
  match o with
  | INew c => [bs "-N"; c]
  | IFlush c => [bs "-F"; c]
  | IDelChain c => [bs "-X"; c]
  | IInsert c r => [bs "-I"; c; bs "1"] ++ r
  | IAppend c r => [bs "-A"; c] ++ r
  | IDelete c r => [bs "-D"; c] ++ r
  | IList => [bs "-nL"]
  end.

Definition nftop_args (o : nftop) : list tok :=
  match o with
  | NAddTable t => [bs "add table"; bs "inet"; t; []]
  | NAddChain t c spec => [bs "add chain"; bs "inet"; t; c] ++ spec
  | NFlushChain t c => [bs "flush chain"; bs "inet"; t; c]
  | NAddRule t c args => [bs "add rule"; bs "inet"; t] ++ args
  | NDeleteTable t => [bs "delete table"; bs "inet"; t; []]
  | NCreateChain t c spec => [bs "create chain"; bs "inet"; t; c] ++ spec
  end.

(* pfctl: argv after shlex.split; stdin travels separately *)
Definition pfop_args (o : pfop) : list tok :=
  match o with
  | PStatus => [bs "pfctl"; bs "-s"; bs "all"]
  | PSkipQuery => [bs "pfctl"; bs "-s"; bs "Interfaces"; bs "-i"; bs "lo"; bs "-v"]
  | PLoadMain _ => [bs "pfctl"; bs "-f"; bs "/dev/stdin"]
  | PLoadAnchor a _ => [bs "pfctl"; bs "-a"; a; bs "-f"; bs "/dev/stdin"]
  | PFlushAnchor a => [bs "pfctl"; bs "-a"; a; bs "-F"; bs "all"]
  | PEnable => [bs "pfctl"; bs "-e"]
  | PDisable => [bs "pfctl"; bs "-d"]
  | PEnableRef => [bs "pfctl"; bs "-E"]
  | PReleaseRef t => [bs "pfctl"; bs "-X"; t]
  | PKldLoad => [bs "kldload"; bs "pf"]
  | PKldUnload => [bs "kldunload"; bs "pf"]
  | PAddCall rdr a => [bs "ioctl-add-anchor"; if rdr then bs "rdr" else bs "pass"; a]
  end.

Definition pfop_stdin (o : pfop) : bytes :=
  match o with PLoadMain t => t | PLoadAnchor _ t => t | _ => [] end.

Definition argv (c : cmd) : list tok :=
  match c with
  | Ipt f t o => [ipt_prog f; bs "-w"; bs "-t"; tbl_name t] ++ iop_args o
  | Nft o => bs "nft" :: nftop_args o
  | Pf o => pfop_args o
  end.

(* ------------------------------------------------------------------ *)
(* parsing argv back (used by the co-process driver, so that the real     *)
(* code's commands are interpreted by this same model)                    *)

Definition parse_iop (args : list tok) : option iop :=
  match args with
  | op :: rest =>
      if bytes_eqb op (bs "-nL") then match rest with [] => Some IList | _ => None end else
      match rest with
      | c :: r =>
          if bytes_eqb op (bs "-N") then match r with [] => Some (INew c) | _ => None end
          else if bytes_eqb op (bs "-F") then match r with [] => Some (IFlush c) | _ => None end
          else if bytes_eqb op (bs "-X") then match r with [] => Some (IDelChain c) | _ => None end
          else if bytes_eqb op (bs "-A") then Some (IAppend c r)
          else if bytes_eqb op (bs "-D") then Some (IDelete c r)
          else if bytes_eqb op (bs "-I") then
            match r with
            | one :: r' => if bytes_eqb one (bs "1") then Some (IInsert c r') else None
            | [] => None
            end
          else None
      | [] => None
      end
  | [] => None
  end.

Definition parse_tbl (t : tok) : option tbl :=
  if bytes_eqb t (bs "nat") then Some TNat
  else if bytes_eqb t (bs "mangle") then Some TMangle else None.

Definition parse_nft (args : list tok) : option nftop :=
  match args with
  | act :: inet :: t :: rest =>
      if negb (bytes_eqb inet (bs "inet")) then None
      else if bytes_eqb act (bs "add table") then Some (NAddTable t)
      else if bytes_eqb act (bs "delete table") then Some (NDeleteTable t)
      else match rest with
           | a0 :: more =>
               if bytes_eqb act (bs "add chain") then Some (NAddChain t a0 more)
               else if bytes_eqb act (bs "create chain") then Some (NCreateChain t a0 more)
               else if bytes_eqb act (bs "flush chain") then Some (NFlushChain t a0)
               else if bytes_eqb act (bs "add rule") then Some (NAddRule t (first_word a0) rest)
               else None
           | [] => None
           end
  | _ => None
  end.

(* pfctl argv + stdin *)
Definition parse_pf (args : list tok) (stdin : bytes) : option pfop :=
  match args with
  | [a; b] =>
      if bytes_eqb a (bs "kldload") then Some PKldLoad
      else if bytes_eqb a (bs "kldunload") then Some PKldUnload
      else if bytes_eqb b (bs "-e") then Some PEnable
      else if bytes_eqb b (bs "-d") then Some PDisable
      else if bytes_eqb b (bs "-E") then Some PEnableRef
      else None
  | [a; b; c] =>
      if bytes_eqb a (bs "ioctl-add-anchor") then Some (PAddCall (bytes_eqb b (bs "rdr")) c)
      else if bytes_eqb b (bs "-X") then Some (PReleaseRef c)
      else if bytes_eqb b (bs "-s") then Some PStatus
      else if bytes_eqb b (bs "-f") then Some (PLoadMain stdin)
      else None
  | [_; a; x; b; _] =>
      if bytes_eqb a (bs "-a") then
        if bytes_eqb b (bs "-f") then Some (PLoadAnchor x stdin)
        else if bytes_eqb b (bs "-F") then Some (PFlushAnchor x) else None
      else None
  | [_; _; _; _; _; _] => Some PSkipQuery
  | _ => None
  end.

Definition parse_cmd (av : list tok) (stdin : bytes) : option cmd :=
  match av with
  | prog :: rest =>
      if bytes_eqb prog (bs "nft") then option_map Nft (parse_nft rest)
      else if bytes_eqb prog (bs "iptables") || bytes_eqb prog (bs "ip6tables") then
        match rest with
        | w :: mt :: t :: args =>
            match parse_tbl t, parse_iop args with
            | Some tb, Some o =>
                Some (Ipt (if bytes_eqb prog (bs "iptables") then V4 else V6) tb o)
            | _, _ => None
            end
        | _ => None
        end
      else option_map Pf (parse_pf av stdin)
  | [] => None
  end.

(* ------------------------------------------------------------------ *)
(* The helper's programs: straight-line steps with nonfatal() and the    *)
(* ipt_chain_exists() guard                                              *)

Inductive sstep :=
| Do (c : cmd)         (* ipt()/nft(): non-zero exit raises Fatal (linux.py:38-40, 49-51) *)
| Try (c : cmd).       (* nonfatal(ipt/nft, ...): Fatal is logged and swallowed (linux.py:6-10) *)

Inductive step :=
| Simple (s : sstep)
| IfChain (f : fam) (t : tbl) (name : tok) (body : list sstep).
    (* if ipt_chain_exists(family, table, name): body — the listing is an external
       command of its own; its failure raises Fatal (linux.py:26-27) *)

Inductive mark := MSetup (f : fam) | MStarted | MRestore (f : fam) | MHosts.

Inductive event :=
| ECmd (c : cmd) (ok : bool) (st : kstate)   (* command, exit status = 0?, kernel state afterwards *)
| EMark (m : mark).

Definition faultfn := nat -> bool.

(* one external command: the n-th command of the session fails without
   effect when faults n *)
Definition issue (faults : faultfn) (c : cmd) (n : nat) (s : kstate)
  : bool * list bytes * list bytes * kstate :=
  if faults n then (false, [], [], s)
  else match exec c s with
       | (Some s', out, err) => (true, out, err, s')
       | (None, out, err) => (false, out, err, s)
       end.

(* result of running steps: completed without Fatal?, next command index, state, events *)
Definition runres := (bool * nat * kstate * list event)%type.

Definition run_sstep (faults : faultfn) (x : sstep) (n : nat) (s : kstate) : runres :=
  match x with
  | Do c => let '(ok, _, _, s') := issue faults c n s in (ok, S n, s', [ECmd c ok s'])
  | Try c => let '(ok, _, _, s') := issue faults c n s in (true, S n, s', [ECmd c ok s'])
  end.

Fixpoint run_ss (faults : faultfn) (xs : list sstep) (n : nat) (s : kstate) : runres :=
  match xs with
  | [] => (true, n, s, [])
  | x :: xs' =>
      let '(ok, n1, s1, ev1) := run_sstep faults x n s in
      if ok then let '(ok2, n2, s2, ev2) := run_ss faults xs' n1 s1 in (ok2, n2, s2, ev1 ++ ev2)
      else (false, n1, s1, ev1)
  end.

Definition run_step (faults : faultfn) (x : step) (n : nat) (s : kstate) : runres :=
  match x with
  | Simple y => run_sstep faults y n s
  | IfChain f t name body =>
      let c := Ipt f t IList in
      let '(ok, out, _, s') := issue faults c n s in
      if ok then
        if chain_in_listing name out
        then let '(ok2, n2, s2, ev2) := run_ss faults body (S n) s' in (ok2, n2, s2, ECmd c true s' :: ev2)
        else (true, S n, s', [ECmd c true s'])
      else (false, S n, s', [ECmd c false s'])
  end.

Fixpoint run (faults : faultfn) (xs : list step) (n : nat) (s : kstate) : runres :=
  match xs with
  | [] => (true, n, s, [])
  | x :: xs' =>
      let '(ok, n1, s1, ev1) := run_step faults x n s in
      if ok then let '(ok2, n2, s2, ev2) := run faults xs' n1 s1 in (ok2, n2, s2, ev1 ++ ev2)
      else (false, n1, s1, ev1)
  end.

(* ------------------------------------------------------------------ *)
(* Session configuration                                                *)

Inductive method := MNat | MNft | MTproxy | MPf (os : pfos).

Record famcfg := mkFam {
  fc_on : bool;                    (* subnets_f or nslist_f non-empty (firewall.py:334,341) *)
  fc_port : tok;                   (* str(port_f) *)
  fc_body : list (tok * rule);     (* iptables: (chain, rule) of every -A, in order;
                                      nft: (chain, args) of every body `add rule`;
                                      pf: [(anchor, [rules text])] *)
}.

Record cfg := mkCfg {
  c_method : method;
  c_v6 : famcfg;
  c_v4 : famcfg;
  c_owner : option rule;           (* nat: ['--uid-owner', u]? ++ ['--gid-owner', g]?; None when neither *)
  c_udp : bool;
  c_repaired : bool;               (* true: the repaired tproxy.restore_firewall / pf loaded flag / pf disable (F9, F17, F150);
                                      false: the code as found *)
  c_nlines : nat;                  (* dialogue lines up to and including GO *)
  c_tail : list bool               (* lines after GO: true = HOST line, false = a line no method accepts *)
}.

Definition fcfg (c : cfg) (f : fam) : famcfg := match f with V6 => c_v6 c | V4 => c_v4 c end.

(* ---- nat (methods/nat.py) ---- *)
Definition nat_chain (port : tok) : tok := bs "sshuttle-" ++ port.
Definition bOUTPUT := bs "OUTPUT".
Definition bPREROUTING := bs "PREROUTING".

(* nat.py:39-44 / 105-110 without the leading -I OUTPUT 1 / -D OUTPUT *)
Definition nat_mark_rule (own : rule) (port : tok) : rule :=
  [bs "-m"; bs "owner"] ++ own ++ [bs "-j"; bs "MARK"; bs "--set-mark"; port].

(* nat.py:46-48 / 113-115 *)
Definition nat_jump (owner : option rule) (port : tok) : rule :=
  match owner with
  | Some _ => [bs "-m"; bs "mark"; bs "--mark"; port; bs "-j"; nat_chain port]
  | None => [bs "-j"; nat_chain port]
  end.

(* nat.py:83-119 *)
Definition nat_restore (f : fam) (owner : option rule) (port : tok) : list step :=
  let chain := nat_chain port in
  [IfChain f TNat chain
     ((match owner with
       | Some own => [Try (Ipt f TMangle (IDelete bOUTPUT (nat_mark_rule own port)))]
       | None => []
       end) ++
      [Try (Ipt f TNat (IDelete bOUTPUT (nat_jump owner port)));
       Try (Ipt f TNat (IDelete bPREROUTING (nat_jump owner port)));
       Try (Ipt f TNat (IFlush chain));
       Do (Ipt f TNat (IDelChain chain))])].

(* nat.py:15-81 *)
Definition nat_setup (f : fam) (owner : option rule) (port : tok) (body : list (tok * rule)) : list step :=
  let chain := nat_chain port in
  nat_restore f owner port ++
  map Simple
    ([Do (Ipt f TNat (INew chain)); Do (Ipt f TNat (IFlush chain))] ++
     (match owner with
      | Some own => [Try (Ipt f TMangle (IInsert bOUTPUT (nat_mark_rule own port)))]
      | None => []
      end) ++
     [Do (Ipt f TNat (IInsert bOUTPUT (nat_jump owner port)));
      Do (Ipt f TNat (IInsert bPREROUTING (nat_jump owner port)))] ++
     map (fun cr : tok * rule => Do (Ipt f TNat (IAppend (fst cr) (snd cr)))) body).

(* ---- tproxy (methods/tproxy.py) ---- *)
Definition tp_mark (port : tok) : tok := bs "sshuttle-m-" ++ port.
Definition tp_tproxy (port : tok) : tok := bs "sshuttle-t-" ++ port.
Definition tp_divert (port : tok) : tok := bs "sshuttle-d-" ++ port.

(* tproxy.py:231-259.  As found every step is a bare _ipt (Do); the repaired
   code wraps every deletion in nonfatal (pending_fixes/F9.diff). *)
Definition tproxy_restore (repaired : bool) (f : fam) (port : tok) : list step :=
  let w := fun c : cmd => if repaired then Try c else Do c in
  let m := tp_mark port in let t := tp_tproxy port in let d := tp_divert port in
  [IfChain f TMangle m
     [w (Ipt f TMangle (IDelete bOUTPUT [bs "-j"; m]));
      w (Ipt f TMangle (IFlush m));
      w (Ipt f TMangle (IDelChain m))];
   IfChain f TMangle t
     [w (Ipt f TMangle (IDelete bPREROUTING [bs "-j"; t]));
      w (Ipt f TMangle (IFlush t));
      w (Ipt f TMangle (IDelChain t))];
   IfChain f TMangle d
     [w (Ipt f TMangle (IFlush d));
      w (Ipt f TMangle (IDelChain d))]].

(* tproxy.py:116-229 *)
Definition tproxy_setup (repaired : bool) (f : fam) (port : tok) (body : list (tok * rule)) : list step :=
  let m := tp_mark port in let t := tp_tproxy port in let d := tp_divert port in
  tproxy_restore repaired f port ++
  map Simple
    ([Do (Ipt f TMangle (INew m)); Do (Ipt f TMangle (IFlush m));
      Do (Ipt f TMangle (INew d)); Do (Ipt f TMangle (IFlush d));
      Do (Ipt f TMangle (INew t)); Do (Ipt f TMangle (IFlush t));
      Do (Ipt f TMangle (IInsert bOUTPUT [bs "-j"; m]));
      Do (Ipt f TMangle (IInsert bPREROUTING [bs "-j"; t]))] ++
     map (fun cr : tok * rule => Do (Ipt f TMangle (IAppend (fst cr) (snd cr)))) body).

(* ---- nft (methods/nft.py) ---- *)
Definition nft_table (f : fam) (port : tok) : tok :=
  match f with V4 => bs "sshuttle-ipv4-" ++ port | V6 => bs "sshuttle-ipv6-" ++ port end.

Definition nft_restore (f : fam) (port : tok) : list step :=
  [Simple (Try (Nft (NDeleteTable (nft_table f port))))].

Definition nft_setup (f : fam) (port : tok) (body : list (tok * rule)) : list step :=
  let t := nft_table f port in
  map Simple
    ([Do (Nft (NAddTable t));
      Do (Nft (NAddChain t (bs "prerouting") [bs "{ type nat hook prerouting priority -100; policy accept; }"]));
      Do (Nft (NAddChain t (bs "output") [bs "{ type nat hook output priority -100; policy accept; }"]));
      Do (Nft (NAddChain t t []));
      Do (Nft (NFlushChain t t));
      Do (Nft (NAddRule t (bs "output") [bs "output jump " ++ t]));
      Do (Nft (NAddRule t (bs "prerouting") [bs "prerouting jump " ++ t]))] ++
     map (fun cr : tok * rule => Do (Nft (NAddRule t (fst cr) (snd cr)))) body).

(* ---- pf (methods/pf.py) ---- *)
(* _pf_context (pf.py:19-23) *)
Record pyctx := mkPy { py_started : Z; py_loaded : bool; py_tokens : list tok }.

Definition pf_anchor (f : fam) (port : tok) : tok :=
  match f with V4 => bs "sshuttle-" ++ port | V6 => bs "sshuttle6-" ++ port end.

(* generic sequencing for pf: each piece returns
   (completed without Fatal, python context, next index, state, events) *)
Definition pfres := (bool * pyctx * nat * kstate * list event)%type.

Definition pf_do (faults : faultfn) (o : pfop) (n : nat) (s : kstate)
  : bool * list bytes * list bytes * nat * kstate * list event :=
  let '(ok, out, err, s') := issue faults (Pf o) n s in
  (ok, out, err, S n, s', [ECmd (Pf o) ok s']).

(* the ioctl pair is not an external command: it is not subject to the
   fault index (an ioctl error would be an uncaught OSError) *)
Definition pf_ioctl_add (rdr : bool) (a : tok) (s : kstate) : kstate * list event :=
  match exec (Pf (PAddCall rdr a)) s with
  | (Some s', _, _) => (s', [ECmd (Pf (PAddCall rdr a)) true s'])
  | (None, _, _) => (s, [ECmd (Pf (PAddCall rdr a)) false s])
  end.

Fixpoint is_infix_fuel (fuel : nat) (p l : bytes) : bool :=
  match fuel with
  | O => false
  | S k => starts_with p l || match l with [] => false | _ :: l' => is_infix_fuel k p l' end
  end.
Definition is_infix (p l : bytes) : bool := is_infix_fuel (S (length l)) p l.
Definition join_lines (ls : list bytes) : bytes :=
  flat_map (fun l : bytes => l ++ ["010"%char]) ls.

(* pf.setup_firewall (pf.py:450-474) for one family *)
Definition pf_setup (faults : faultfn) (os : pfos) (f : fam) (port : tok) (body : list (tok * rule))
           (py : pyctx) (n : nat) (s : kstate) : pfres :=
  let a := pf_anchor f port in
  let text := match body with (_, [x]) :: _ => x | _ => [] end in
  (* Darwin/OpenBSD add_anchors: has_skip_loopback (pf.py:273-279, 353-359) *)
  let '(ok0, n0, s0, ev0) :=
    match os with
    | FreeBSD => (true, n, s, [])
    | _ =>
        let '(ok, out, _, n1, s1, ev1) := pf_do faults PSkipQuery n s in
        if ok then
          if is_infix (bs "skip") (join_lines out) then
            let '(ok2, _, _, n2, s2, ev2) :=
              pf_do faults (PLoadMain (match os with OpenBSD => bs "match on lo" ++ ["010"%char]
                                                  | _ => bs "pass on lo" ++ ["010"%char] end)) n1 s1 in
            (ok2, n2, s2, ev1 ++ ev2)
          else (true, n1, s1, ev1)
        else (false, n1, s1, ev1)
    end in
  if negb ok0 then (false, py, n0, s0, ev0) else
  (* add_anchors: pfctl -s all (pf.py:113-118, 196-200) *)
  let '(ok1, out1, _, n1, s1, ev1) := pf_do faults PStatus n0 s0 in
  if negb ok1 then (false, py, n1, s1, ev0 ++ ev1) else
  let status := join_lines out1 in
  let '(s2, ev2) :=
    match os with
    | OpenBSD => (s1, [])
    | _ => if is_infix (["010"%char] ++ bs "rdr-anchor """ ++ a ++ bs """") status then (s1, [])
           else pf_ioctl_add true a s1
    end in
  let '(s3, ev3) :=
    if is_infix (["010"%char] ++ bs "anchor """ ++ a ++ bs """") status then (s2, [])
    else pf_ioctl_add false a s2 in
  (* add_rules (pf.py:148-151) *)
  let '(ok4, _, _, n4, s4, ev4) := pf_do faults (PLoadAnchor a text) n1 s3 in
  let evs := ev0 ++ ev1 ++ ev2 ++ ev3 ++ ev4 in
  if negb ok4 then (false, py, n4, s4, evs) else
  (* enable *)
  match os with
  | Darwin =>
      (* pf.py:344-346: pfctl -E, token from stderr *)
      let '(ok5, _, err5, n5, s5, ev5) := pf_do faults PEnableRef n4 s4 in
      if negb ok5 then (false, py, n5, s5, evs ++ ev5) else
      let t := match err5 with _ :: l :: _ => skipn 8 l | _ => [] end in
      (true, mkPy (py_started py) (py_loaded py) (py_tokens py ++ [t]), n5, s5, evs ++ ev5)
  | _ =>
      (* FreeBSD: kldload first, rc only (pf.py:182-187) *)
      let '(okk, nk, sk, evk) :=
        match os with
        | FreeBSD => let '(ok, _, _, n5, s5, ev5) := pf_do faults PKldLoad n4 s4 in (ok, n5, s5, ev5)
        | _ => (false, n4, s4, [])
        end in
      (* Generic.enable (pf.py:66-69) looks at the status fetched BEFORE *)
      let disabled := is_infix (bs "INFO:" ++ ["010"%char] ++ bs "Status: Disabled") status in
      let '(ok6, py6, n6, s6, ev6) :=
        if disabled then
          let '(ok, _, _, n6, s6, ev6) := pf_do faults PEnable nk sk in
          (ok, mkPy (if ok then Z.succ (py_started py) else py_started py) (py_loaded py) (py_tokens py), n6, s6, ev6)
        else (true, py, nk, sk, []) in
      if negb ok6 then (false, py6, n6, s6, evs ++ evk ++ ev6) else
      (true, mkPy (py_started py6) (if okk then true else py_loaded py6) (py_tokens py6), n6, s6, evs ++ evk ++ ev6)
  end.

(* pf.restore_firewall (pf.py:476-484) -> pf.disable(anchor).
   repaired = true: the flush is wrapped in try/finally (F150 fixed): when `pfctl -a A -F all` fails the
   `pfctl -d` / `pfctl -X token` bookkeeping still runs and the flush's Fatal propagates afterwards;
   repaired = false: the code as found stops at the failing flush. *)
Definition pf_restore (repaired : bool) (faults : faultfn) (os : pfos) (f : fam) (port : tok)
           (py : pyctx) (n : nat) (s : kstate) : pfres :=
  let a := pf_anchor f port in
  let '(ok1, _, _, n1, s1, ev1) := pf_do faults (PFlushAnchor a) n s in
  if negb ok1 && negb repaired then (false, py, n1, s1, ev1) else
  match os with
  | Darwin =>
      (* pf.py:348-351 *)
      match rev (py_tokens py) with
      | [] => (ok1, py, n1, s1, ev1)
      | t :: rest =>
          let py' := mkPy (py_started py) (py_loaded py) (rev rest) in   (* pop() happens before pfctl runs *)
          let '(ok2, _, _, n2, s2, ev2) := pf_do faults (PReleaseRef t) n1 s1 in
          (ok1 && ok2, py', n2, s2, ev1 ++ ev2)
      end
  | _ =>
      (* Generic.disable (pf.py:71-76) *)
      let '(ok2, n2, s2, ev2) :=
        if Z.eqb (py_started py) 1 then
          let '(ok, _, _, n2, s2, ev2) := pf_do faults PDisable n1 s1 in (ok, n2, s2, ev2)
        else (true, n1, s1, []) in
      if negb ok2 then (false, py, n2, s2, ev1 ++ ev2) else
      let py2 := mkPy (Z.pred (py_started py)) (py_loaded py) (py_tokens py) in
      match os with
      | FreeBSD =>
          (* pf.py:189-194: subprocess.call, rc ignored; not reached when super().disable raised *)
          if ok1 && py_loaded py2 && Z.eqb (py_started py2) 0 then
            let '(_, _, _, n3, s3, ev3) := pf_do faults PKldUnload n2 s2 in
            (true, py2, n3, s3, ev1 ++ ev2 ++ ev3)
          else (ok1, py2, n2, s2, ev1 ++ ev2)
      | _ => (ok1, py2, n2, s2, ev1 ++ ev2)
      end
  end.

(* ------------------------------------------------------------------ *)
(* set-up / restore of one family for every method                       *)

Definition setup_prog (c : cfg) (f : fam) : list step :=
  let fc := fcfg c f in
  match c_method c with
  | MNat => nat_setup f (c_owner c) (fc_port fc) (fc_body fc)
  | MTproxy => tproxy_setup (c_repaired c) f (fc_port fc) (fc_body fc)
  | MNft => nft_setup f (fc_port fc) (fc_body fc)
  | MPf _ => []
  end.

Definition restore_prog (c : cfg) (f : fam) : list step :=
  let fc := fcfg c f in
  match c_method c with
  | MNat => nat_restore f (c_owner c) (fc_port fc)
  | MTproxy => tproxy_restore (c_repaired c) f (fc_port fc)
  | MNft => nft_restore f (fc_port fc)
  | MPf _ => []
  end.

Definition do_setup (faults : faultfn) (c : cfg) (f : fam) (py : pyctx) (n : nat) (s : kstate) : pfres :=
  match c_method c with
  | MPf os => pf_setup faults os f (fc_port (fcfg c f)) (fc_body (fcfg c f)) py n s
  | _ => let '(ok, n', s', ev) := run faults (setup_prog c f) n s in (ok, py, n', s', ev)
  end.

Definition do_restore (faults : faultfn) (c : cfg) (f : fam) (py : pyctx) (n : nat) (s : kstate) : pfres :=
  match c_method c with
  | MPf os => pf_restore (c_repaired c) faults os f (fc_port (fcfg c f)) py n s
  | _ => let '(ok, n', s', ev) := run faults (restore_prog c f) n s in (ok, py, n', s', ev)
  end.

(* UDP is refused with a plain Exception by every method but tproxy
   (nat.py:21-22,89-90; nft.py:17-18,91-92; pf.py:456-457,481-482) *)
Definition udp_refused (c : cfg) : bool :=
  c_udp c && match c_method c with MTproxy => false | _ => true end.

(* ------------------------------------------------------------------ *)
(* firewall.main (firewall.py:201-428)                                   *)

Inductive outcome :=
| ExitReturn          (* plain return (channel closed) *)
| ExitFatal           (* Fatal propagates out of main *)
| ExitCrash.          (* any other exception propagates *)

Record result := mkRes {
  r_outcome : outcome;
  r_final : kstate;
  r_events : list event;
  r_ncmds : nat;       (* external commands issued *)
  r_fin_at : nat;      (* command index at which the finally block started *)
  r_py : pyctx
}.

(* the wait loop (firewall.py:368-381): HOST lines are consumed until EOF;
   any other line is a Fatal.  Returns (hosts seen, fatal?) *)
Fixpoint wait_loop (lines : list bool) : nat * bool :=
  match lines with
  | [] => (O, false)
  | true :: ls => let '(h, ft) := wait_loop ls in (S h, ft)
  | false :: _ => (O, true)
  end.

Definition py_init (c : cfg) : pyctx := mkPy 0%Z (negb (c_repaired c)) [].

(* `cut` = number of dialogue lines the helper receives before the channel
   closes (the dialogue has c_nlines c header lines, then c_tail c). *)
Definition session (c : cfg) (cut : nat) (faults : faultfn) (s0 : kstate) : result :=
  let py0 := py_init c in
  if Nat.ltb cut (c_nlines c) then
    (* firewall.py:239-312: `return` on an immediate EOF, Fatal otherwise — before `try:` *)
    mkRes (match cut with O => ExitReturn | _ => ExitFatal end) s0 [] 0 0 py0
  else
    let tail := firstn (cut - c_nlines c) (c_tail c) in
    (* try: *)
    let '(ok6, py1, n1, s1, ev1) :=
      if fc_on (c_v6 c) then
        if udp_refused c then (false, py0, O, s0, [EMark (MSetup V6)])
        else let '(ok, py, n, s, ev) := do_setup faults c V6 py0 O s0 in (ok, py, n, s, EMark (MSetup V6) :: ev)
      else (true, py0, O, s0, []) in
    let '(ok4, py2, n2, s2, ev2) :=
      if ok6 && fc_on (c_v4 c) then
        if udp_refused c then (false, py1, n1, s1, [EMark (MSetup V4)])
        else let '(ok, py, n, s, ev) := do_setup faults c V4 py1 n1 s1 in (ok, py, n, s, EMark (MSetup V4) :: ev)
      else (ok6, py1, n1, s1, []) in
    let '(hosts, loop_fatal) := if ok4 then wait_loop tail else (O, false) in
    let ev3 := if ok4 then [EMark MStarted] else [] in
    (* finally: each restore is guarded by its own try/except Exception *)
    let '(_, py3, n3, s3, ev4) :=
      if fc_on (c_v6 c) then
        if udp_refused c then (false, py2, n2, s2, [EMark (MRestore V6)])
        else let '(ok, py, n, s, ev) := do_restore faults c V6 py2 n2 s2 in (ok, py, n, s, EMark (MRestore V6) :: ev)
      else (true, py2, n2, s2, []) in
    let '(_, py4, n4, s4, ev5) :=
      if fc_on (c_v4 c) then
        if udp_refused c then (false, py3, n3, s3, [EMark (MRestore V4)])
        else let '(ok, py, n, s, ev) := do_restore faults c V4 py3 n3 s3 in (ok, py, n, s, EMark (MRestore V4) :: ev)
      else (true, py3, n3, s3, []) in
    let ev6 := match hosts with O => [] | _ => [EMark MHosts] end in
    mkRes (if ok4 then (if loop_fatal then ExitFatal else ExitReturn)
           else if udp_refused c then ExitCrash else ExitFatal)
          s4 (ev1 ++ ev2 ++ ev3 ++ ev4 ++ ev5 ++ ev6) n4 n2 py4.

Definition no_faults : faultfn := fun _ => false.
Definition fault_at (k : nat) : faultfn := fun n => Nat.eqb n k.

(* an empty kernel: built-in chains only *)
Definition builtin_nat : table :=
  [(bs "PREROUTING", []); (bs "INPUT", []); (bs "OUTPUT", []); (bs "POSTROUTING", [])].
Definition builtin_mangle : table :=
  [(bs "PREROUTING", []); (bs "INPUT", []); (bs "FORWARD", []); (bs "OUTPUT", []); (bs "POSTROUTING", [])].
Definition pf_empty : pfstate := mkPf true false [] 1 false [] [] [].
Definition k_empty : kstate :=
  mkK builtin_nat builtin_mangle builtin_nat builtin_mangle [] pf_empty.
