(* Model/FwRules.v — C03: what packet-filter rules the helper generates.
   Executable definitions only (proofs: Proofs/FwRules_lemmas.v).

   Faithful to /repo:
     sshuttle/firewall.py:152-159   subnet_weight
     sshuttle/firewall.py:307-328   per-family split of subnets / nslist, v6 first
     sshuttle/methods/nat.py:15-81  setup_firewall
     sshuttle/methods/nft.py:15-88  setup_firewall
     sshuttle/methods/tproxy.py:116-229 setup_firewall
     sshuttle/methods/pf.py:213-243 (FreeBsd.add_rules, inherited by Darwin),
                            281-311 (OpenBsd.add_rules), 448-475 (Method.setup_firewall)
     sshuttle/linux.py:28-49        argv prefixes of ipt() / nft()

   The helper never interprets the address text of an entry; it prints it
   verbatim.  An entry therefore carries both the text (printed) and the number
   the kernel tool will parse it to (used by the packet walk).  That the tool
   parses the text to that number is part of the modelled kernel boundary. *)
From Coq Require Import List NArith ZArith Ascii Bool String.
From SV Require Import Lib.Bytes.
Import ListNotations.
Local Open Scope N_scope.

(* ------------------------------------------------------------------ data *)
Inductive family := V4 | V6.
Definition fam_eqb (a b : family) : bool :=
  match a, b with V4, V4 | V6, V6 => true | _, _ => false end.
Definition bits (f : family) : N := match f with V4 => 32 | V6 => 128 end.

(* (family, width, exclude, ip, fport, lport) — firewall.py:239-245 *)
Record entry := mkEntry {
  e_fam : family; e_width : N; e_excl : bool; e_txt : bytes; e_net : N;
  e_fport : N; e_lport : N }.

Record nsent := mkNs { ns_fam : family; ns_txt : bytes; ns_addr : N }.

Record plan := mkPlan {
  pl_entries : list entry;
  pl_ns : list nsent;
  pl_port6 : N; pl_port4 : N; pl_dns6 : N; pl_dns4 : N;
  pl_udp : bool;
  pl_user : option N; pl_group : option N;
  pl_tmark_txt : bytes;       (* printed verbatim (default '0x01') *)
  pl_tmark : N }.             (* the number iptables parses it to *)

Definition port_of (pl : plan) (f : family) : N :=
  match f with V4 => pl_port4 pl | V6 => pl_port6 pl end.
Definition dns_of (pl : plan) (f : family) : N :=
  match f with V4 => pl_dns4 pl | V6 => pl_dns6 pl end.
(* firewall.py:307-310 *)
Definition entries_of (pl : plan) (f : family) : list entry :=
  filter (fun e => fam_eqb (e_fam e) f) (pl_entries pl).
Definition ns_of (pl : plan) (f : family) : list nsent :=
  filter (fun n => fam_eqb (ns_fam n) f) (pl_ns pl).
(* firewall.py:315, 322: `if subnets_vX or nslist_vX:` *)
Definition fam_active (pl : plan) (f : family) : bool :=
  match entries_of pl f, ns_of pl f with [], [] => false | _, _ => true end.

(* ------------------------------------------------- subnet_weight and sorted *)
(* firewall.py:158  (-s[-1] + (s[-2] or -65535), s[1], s[2]) *)
Definition key_port (e : entry) : Z :=
  Z.add (Z.opp (Z.of_N (e_lport e))) (if N.eqb (e_fport e) 0 then (-65535)%Z else Z.of_N (e_fport e)).

(* Python tuple comparison key a <= key b (int, int, bool; False < True) *)
Definition key_leb (a b : entry) : bool :=
  (key_port a <? key_port b)%Z ||
  ((key_port a =? key_port b)%Z &&
   ((e_width a <? e_width b) ||
    ((e_width a =? e_width b) && implb (e_excl a) (e_excl b)))).

(* sorted(l, key=subnet_weight, reverse=True): descending, STABLE (elements
   with equal keys keep their original relative order — CPython reverses,
   sorts stably, reverses).  Insertion from the right: x goes in front of the
   first element whose key is <= key x. *)
Fixpoint insert_desc (x : entry) (s : list entry) : list entry :=
  match s with
  | [] => [x]
  | y :: s' => if key_leb y x then x :: y :: s' else y :: insert_desc x s'
  end.
Fixpoint sort_desc (l : list entry) : list entry :=
  match l with [] => [] | x :: l' => insert_desc x (sort_desc l') end.

(* sorted(l, key=subnet_weight): ascending, stable *)
Fixpoint insert_asc (x : entry) (s : list entry) : list entry :=
  match s with
  | [] => [x]
  | y :: s' => if key_leb x y then x :: y :: s' else y :: insert_asc x s'
  end.
Fixpoint sort_asc (l : list entry) : list entry :=
  match l with [] => [] | x :: l' => insert_asc x (sort_asc l') end.

(* ------------------------------------------------------------- text tools *)
(* byte-string literal, computed at definition time so that Coq's `string`
   type does not reach the extracted code *)
Notation tx x := (ltac:(let v := eval vm_compute in (bytes_of_string x%string) in exact v)) (only parsing).

Fixpoint dec_fuel (fuel : nat) (n : N) (acc : bytes) : bytes :=
  match fuel with
  | O => acc
  | S k => let d := ascii_of_N (48 + n mod 10) in
           if n <? 10 then d :: acc else dec_fuel k (n / 10) (d :: acc)
  end.
(* str(n) / '%d' % n for n >= 0 *)
Definition dec (n : N) : bytes := dec_fuel (S (N.size_nat n)) n [].

Fixpoint join (sep : bytes) (l : list bytes) : bytes :=
  match l with [] => [] | [x] => x | x :: r => x ++ sep ++ join sep r end.

(* ------------------------------------------------ iptables / ip6tables AST *)
Inductive proto := Tcp | Udp.
Inductive table := TNat | TMangle.
Inductive chain := OUTPUT | PREROUTING | CMain | CMark | CTproxy | CDivert.
Inductive jtarget := JReturn | JRedirect | JMark | JTproxy | JAccept | JChain (c : chain).

(* one item = one option of the argv, in the order the code writes them *)
Inductive ipt_item :=
| IJ (t : jtarget)                       (* -j NAME *)
| IDestHost (txt : bytes) (addr : N)     (* --dest ip *)
| IDest (txt : bytes) (net w : N)        (* --dest ip/w *)
| IProto (pr : proto)                    (* -p tcp *)
| IMProto (pr : proto)                   (* -m tcp *)
| IDport (f l : N)                       (* --dport f:l *)
| IDport1 (n : N)                        (* --dport n *)
| IToPorts (n : N)                       (* --to-ports n *)
| IOnPort (n : N)                        (* --on-port n *)
| ISetMark (txt : bytes) (m : N)         (* --set-mark txt *)
| ITproxyMark (txt : bytes) (m : N)      (* --tproxy-mark txt *)
| IMAddrtype | IDstLocal                 (* -m addrtype / --dst-type LOCAL *)
| IMSocket                               (* -m socket *)
| IMMark | IMarkEq (txt : bytes) (m : N) (* -m mark / --mark txt *)
| IMOwner | IUid (u : N) | IGid (g : N). (* -m owner / --uid-owner / --gid-owner *)

Inductive ipt_cmd :=
| CNew (t : table) (c : chain)                     (* -N c *)
| CFlush (t : table) (c : chain)                   (* -F c *)
| CIns1 (t : table) (c : chain) (r : list ipt_item)  (* -I c 1 r *)
| CApp (t : table) (c : chain) (r : list ipt_item).  (* -A c r *)

Definition proto_name (pr : proto) : bytes := match pr with Tcp => tx "tcp" | Udp => tx "udp" end.
Definition table_name (t : table) : bytes := match t with TNat => tx "nat" | TMangle => tx "mangle" end.
Definition chain_name (port : N) (c : chain) : bytes :=
  match c with
  | OUTPUT => tx "OUTPUT" | PREROUTING => tx "PREROUTING"
  | CMain => tx "sshuttle-" ++ dec port
  | CMark => tx "sshuttle-m-" ++ dec port
  | CTproxy => tx "sshuttle-t-" ++ dec port
  | CDivert => tx "sshuttle-d-" ++ dec port
  end.
Definition jname (port : N) (t : jtarget) : bytes :=
  match t with
  | JReturn => tx "RETURN" | JRedirect => tx "REDIRECT" | JMark => tx "MARK"
  | JTproxy => tx "TPROXY" | JAccept => tx "ACCEPT" | JChain c => chain_name port c
  end.

Definition print_item (port : N) (it : ipt_item) : list bytes :=
  match it with
  | IJ t => [tx "-j"; jname port t]
  | IDestHost txt _ => [tx "--dest"; txt]
  | IDest txt _ w => [tx "--dest"; txt ++ tx "/" ++ dec w]
  | IProto pr => [tx "-p"; proto_name pr]
  | IMProto pr => [tx "-m"; proto_name pr]
  | IDport f l => [tx "--dport"; dec f ++ tx ":" ++ dec l]
  | IDport1 n => [tx "--dport"; dec n]
  | IToPorts n => [tx "--to-ports"; dec n]
  | IOnPort n => [tx "--on-port"; dec n]
  | ISetMark txt _ => [tx "--set-mark"; txt]
  | ITproxyMark txt _ => [tx "--tproxy-mark"; txt]
  | IMAddrtype => [tx "-m"; tx "addrtype"]
  | IDstLocal => [tx "--dst-type"; tx "LOCAL"]
  | IMSocket => [tx "-m"; tx "socket"]
  | IMMark => [tx "-m"; tx "mark"]
  | IMarkEq txt _ => [tx "--mark"; txt]
  | IMOwner => [tx "-m"; tx "owner"]
  | IUid u => [tx "--uid-owner"; dec u]
  | IGid g => [tx "--gid-owner"; dec g]
  end.

(* linux.py:30-34: ['iptables'|'ip6tables', '-w', '-t', table] + args *)
Definition print_ipt_cmd (f : family) (port : N) (c : ipt_cmd) : list bytes :=
  let pre t := [match f with V4 => tx "iptables" | V6 => tx "ip6tables" end; tx "-w"; tx "-t"; table_name t] in
  match c with
  | CNew t c => pre t ++ [tx "-N"; chain_name port c]
  | CFlush t c => pre t ++ [tx "-F"; chain_name port c]
  | CIns1 t c r => pre t ++ [tx "-I"; chain_name port c; tx "1"] ++ flat_map (print_item port) r
  | CApp t c r => pre t ++ [tx "-A"; chain_name port c] ++ flat_map (print_item port) r
  end.

(* --------------------------------------------------------------- nat method *)
(* nat.py:63-66 / tproxy.py:128-130: ('-p','tcp') + ('--dport','%d:%d') if fport *)
Definition ports_items (pr : proto) (e : entry) : list ipt_item :=
  IProto pr :: (if e_fport e =? 0 then [] else [IDport (e_fport e) (e_lport e)]).

Definition nat_dns_rule (dnsport : N) (n : nsent) : list ipt_item :=
  [IJ JRedirect; IDestHost (ns_txt n) (ns_addr n); IProto Udp; IDport1 53; IToPorts dnsport].
Definition nat_sub_rule (port : N) (e : entry) : list ipt_item :=
  if e_excl e
  then IJ JReturn :: IDest (e_txt e) (e_net e) (e_width e) :: ports_items Tcp e
  else IJ JRedirect :: IDest (e_txt e) (e_net e) (e_width e) :: ports_items Tcp e ++ [IToPorts port].
Definition local_return : list ipt_item := [IJ JReturn; IMAddrtype; IDstLocal].

Definition has_owner (pl : plan) : bool :=
  match pl_user pl, pl_group pl with None, None => false | _, _ => true end.
Definition owner_items (pl : plan) : list ipt_item :=
  IMOwner :: (match pl_user pl with Some u => [IUid u] | None => [] end)
          ++ (match pl_group pl with Some g => [IGid g] | None => [] end).

(* the commands of nat.Method.setup_firewall after its restore_firewall prefix *)
Definition nat_setup (pl : plan) (f : family) : list ipt_cmd :=
  let port := port_of pl f in
  let jump := if has_owner pl then [IMMark; IMarkEq (dec port) port; IJ (JChain CMain)]
              else [IJ (JChain CMain)] in
  [CNew TNat CMain; CFlush TNat CMain]
  ++ (if has_owner pl
      then [CIns1 TMangle OUTPUT (owner_items pl ++ [IJ JMark; ISetMark (dec port) port])]
      else [])
  ++ [CIns1 TNat OUTPUT jump; CIns1 TNat PREROUTING jump]
  ++ map (fun n => CApp TNat CMain (nat_dns_rule (dns_of pl f) n)) (ns_of pl f)
  ++ map (fun e => CApp TNat CMain (nat_sub_rule port e)) (sort_desc (entries_of pl f))
  ++ [CApp TNat CMain local_return].
Definition nat_cmds (pl : plan) (f : family) : list ipt_cmd :=
  if fam_active pl f then nat_setup pl f else [].

(* ------------------------------------------------------------ tproxy method *)
Definition tmark_set (pl : plan) := ISetMark (pl_tmark_txt pl) (pl_tmark pl).
Definition tmark_tp (pl : plan) := ITproxyMark (pl_tmark_txt pl) (pl_tmark pl).

(* tproxy.py:148-156 — '%s/32' for both families (F18) *)
Definition tp_dns_cmds (pl : plan) (f : family) (n : nsent) : list ipt_cmd :=
  [CApp TMangle CMark [IJ JMark; tmark_set pl; IDest (ns_txt n) (ns_addr n) 32;
                       IMProto Udp; IProto Udp; IDport1 53];
   CApp TMangle CTproxy [IJ JTproxy; tmark_tp pl; IDest (ns_txt n) (ns_addr n) 32;
                         IMProto Udp; IProto Udp; IDport1 53; IOnPort (dns_of pl f)]].

Definition tp_mark_rule (pl : plan) (pr : proto) (e : entry) : list ipt_item :=
  if e_excl e
  then IJ JReturn :: IDest (e_txt e) (e_net e) (e_width e) :: IMProto pr :: ports_items pr e
  else IJ JMark :: tmark_set pl :: IDest (e_txt e) (e_net e) (e_width e) :: IMProto pr :: ports_items pr e.
Definition tp_tproxy_rule (pl : plan) (port : N) (pr : proto) (e : entry) : list ipt_item :=
  if e_excl e
  then IJ JReturn :: IDest (e_txt e) (e_net e) (e_width e) :: IMProto pr :: ports_items pr e
  else IJ JTproxy :: tmark_tp pl :: IDest (e_txt e) (e_net e) (e_width e) :: IMProto pr
       :: ports_items pr e ++ [IOnPort port].

(* tproxy.py:182-229 *)
Definition tp_sub_cmds (pl : plan) (f : family) (e : entry) : list ipt_cmd :=
  let port := port_of pl f in
  [CApp TMangle CMark (tp_mark_rule pl Tcp e); CApp TMangle CTproxy (tp_tproxy_rule pl port Tcp e)]
  ++ (if pl_udp pl
      then [CApp TMangle CMark (tp_mark_rule pl Udp e); CApp TMangle CTproxy (tp_tproxy_rule pl port Udp e)]
      else []).

Definition tproxy_setup (pl : plan) (f : family) : list ipt_cmd :=
  [CNew TMangle CMark; CFlush TMangle CMark; CNew TMangle CDivert; CFlush TMangle CDivert;
   CNew TMangle CTproxy; CFlush TMangle CTproxy;
   CIns1 TMangle OUTPUT [IJ (JChain CMark)]; CIns1 TMangle PREROUTING [IJ (JChain CTproxy)]]
  ++ flat_map (tp_dns_cmds pl f) (ns_of pl f)
  ++ [CApp TMangle CTproxy local_return; CApp TMangle CMark local_return;
      CApp TMangle CDivert [IJ JMark; tmark_set pl]; CApp TMangle CDivert [IJ JAccept];
      CApp TMangle CTproxy [IMSocket; IJ (JChain CDivert); IMProto Tcp; IProto Tcp]]
  ++ (if pl_udp pl then [CApp TMangle CTproxy [IMSocket; IJ (JChain CDivert); IMProto Udp; IProto Udp]] else [])
  ++ flat_map (tp_sub_cmds pl f) (sort_desc (entries_of pl f)).
Definition tproxy_cmds (pl : plan) (f : family) : list ipt_cmd :=
  if fam_active pl f then tproxy_setup pl f else [].

(* --------------------------------------------------------------- nft method *)
Inductive nft_hook := HPrerouting | HOutput.
Inductive nft_item :=
| NFamNe (f : family)                 (* 'meta','nfproto','!=','ipv4' *)
| NRet                                (* 'return' *)
| NRedirect (port : N)                (* 'redirect to :PORT' *)
| NDnsDaddr (f : family) (txt : bytes) (addr : N)   (* 'ip','daddr X' *)
| NUdp53                              (* 'udp dport 53' *)
| NFibLocalRet                        (* 'fib daddr type local return' *)
| NTcpRange (f : family) (a b : N)    (* 'meta','nfproto','ipv4','tcp','dport','{ a-b }' *)
| NTcpPort (f : family) (a : N)       (* 'meta','nfproto','ipv4','tcp','dport','a' *)
| NTcpAny (f : family)                (* 'meta','nfproto','ipv4','meta','l4proto','tcp' *)
| NDaddr (f : family) (txt : bytes) (net w : N).    (* 'ip','daddr X/w' *)

Inductive nft_cmd :=
| NAddTable | NAddHook (h : nft_hook) | NAddChain | NFlushChain
| NAddJump (h : nft_hook)
| NAddRule (r : list nft_item).

Definition ipv_l (f : family) : bytes := match f with V4 => tx "ipv4" | V6 => tx "ipv6" end.
Definition ipv (f : family) : bytes := match f with V4 => tx "ip" | V6 => tx "ip6" end.
Definition nft_table_name (f : family) (port : N) : bytes :=
  match f with V4 => tx "sshuttle-ipv4-" | V6 => tx "sshuttle-ipv6-" end ++ dec port.

Definition print_nft_item (it : nft_item) : list bytes :=
  match it with
  | NFamNe f => [tx "meta"; tx "nfproto"; tx "!="; ipv_l f]
  | NRet => [tx "return"]
  | NRedirect p => [tx "redirect to :" ++ dec p]
  | NDnsDaddr f txt _ => [ipv f; tx "daddr " ++ txt]
  | NUdp53 => [tx "udp dport 53"]
  | NFibLocalRet => [tx "fib daddr type local return"]
  | NTcpRange f a b => [tx "meta"; tx "nfproto"; ipv_l f; tx "tcp"; tx "dport"; tx "{ " ++ dec a ++ tx "-" ++ dec b ++ tx " }"]
  | NTcpPort f a => [tx "meta"; tx "nfproto"; ipv_l f; tx "tcp"; tx "dport"; dec a]
  | NTcpAny f => [tx "meta"; tx "nfproto"; ipv_l f; tx "meta"; tx "l4proto"; tx "tcp"]
  | NDaddr f txt _ w => [ipv f; tx "daddr " ++ txt ++ tx "/" ++ dec w]
  end.

(* linux.py:43: ['nft', action, 'inet', table] + args *)
Definition print_nft_cmd (f : family) (port : N) (c : nft_cmd) : list bytes :=
  let t := nft_table_name f port in
  let pre a := [tx "nft"; a; tx "inet"; t] in
  match c with
  | NAddTable => pre (tx "add table") ++ [[]]
  | NAddHook HPrerouting => pre (tx "add chain") ++ [tx "prerouting"; tx "{ type nat hook prerouting priority -100; policy accept; }"]
  | NAddHook HOutput => pre (tx "add chain") ++ [tx "output"; tx "{ type nat hook output priority -100; policy accept; }"]
  | NAddChain => pre (tx "add chain") ++ [t]
  | NFlushChain => pre (tx "flush chain") ++ [t]
  | NAddJump HOutput => pre (tx "add rule") ++ [tx "output jump " ++ t]
  | NAddJump HPrerouting => pre (tx "add rule") ++ [tx "prerouting jump " ++ t]
  | NAddRule r => pre (tx "add rule") ++ [t] ++ flat_map print_nft_item r
  end.

(* nft.py:72-81 *)
Definition nft_ports (f : family) (e : entry) : nft_item :=
  if e_fport e =? 0 then NTcpAny f
  else if e_fport e =? e_lport e then NTcpPort f (e_fport e)
  else NTcpRange f (e_fport e) (e_lport e).
Definition nft_sub_rule (f : family) (port : N) (e : entry) : list nft_item :=
  [nft_ports f e; NDaddr f (e_txt e) (e_net e) (e_width e);
   if e_excl e then NRet else NRedirect port].
Definition nft_dns_rule (f : family) (dnsport : N) (n : nsent) : list nft_item :=
  [NDnsDaddr f (ns_txt n) (ns_addr n); NUdp53; NRedirect dnsport].

Definition nft_setup (pl : plan) (f : family) : list nft_cmd :=
  [NAddTable; NAddHook HPrerouting; NAddHook HOutput; NAddChain; NFlushChain;
   NAddJump HOutput; NAddJump HPrerouting;
   NAddRule [NFamNe f; NRet]]
  ++ map (fun n => NAddRule (nft_dns_rule f (dns_of pl f) n)) (ns_of pl f)
  ++ [NAddRule [NFibLocalRet]]
  ++ map (fun e => NAddRule (nft_sub_rule f (port_of pl f) e)) (sort_desc (entries_of pl f)).
Definition nft_cmds (pl : plan) (f : family) : list nft_cmd :=
  if fam_active pl f then nft_setup pl f else [].

(* ---------------------------------------------------------------- pf method *)
Inductive pf_os := FreeBsd | OpenBsd.   (* Darwin inherits FreeBsd.add_rules *)

Inductive pf_line :=
| PTable (nss : list nsent)
(* FreeBSD / Darwin *)
| PRdrTcp (f : family) (e : entry) (port : N)
| PRdrDns (f : family) (dnsport : N)
| PRouteTcp (f : family) (e : entry)
| PPassTcp (f : family) (e : entry)          (* same text on both platforms *)
| PRouteDns (f : family)
(* OpenBSD *)
| ODivertTcp (f : family) (e : entry) (port : N)
| ORdrDns (f : family) (dnsport : N)
| ORouteTcp (f : family) (e : entry)
| ORouteDns (f : family).

Definition inet_v (f : family) : bytes := match f with V4 => tx "inet" | V6 => tx "inet6" end.
Definition lo_addr (f : family) : bytes := match f with V4 => tx "127.0.0.1" | V6 => tx "::1" end.
(* pf.py:465-468  b"%s/%d%s" % (snet, swidth, b" port %d:%d" % (fport, lport) if fport else b"") *)
Definition pf_subnet (e : entry) : bytes :=
  e_txt e ++ tx "/" ++ dec (e_width e)
  ++ (if e_fport e =? 0 then [] else tx " port " ++ dec (e_fport e) ++ tx ":" ++ dec (e_lport e)).

Definition print_pf_line (l : pf_line) : bytes :=
  match l with
  | PTable nss => tx "table <dns_servers> {" ++ join (tx ",") (map ns_txt nss) ++ tx "}"
  | PRdrTcp f e port =>
      tx "rdr pass on lo0 " ++ inet_v f ++ tx " proto tcp from ! " ++ lo_addr f ++ tx " to "
      ++ pf_subnet e ++ tx " -> " ++ lo_addr f ++ tx " port " ++ dec port
  | PRdrDns f d =>
      tx "rdr pass on lo0 " ++ inet_v f ++ tx " proto udp to <dns_servers> port 53 -> "
      ++ lo_addr f ++ tx " port " ++ dec d
  | PRouteTcp f e =>
      tx "pass out route-to lo0 " ++ inet_v f ++ tx " proto tcp to " ++ pf_subnet e ++ tx " keep state"
  | PPassTcp f e => tx "pass out " ++ inet_v f ++ tx " proto tcp to " ++ pf_subnet e
  | PRouteDns f =>
      tx "pass out route-to lo0 " ++ inet_v f ++ tx " proto udp to <dns_servers> port 53 keep state"
  | ODivertTcp f e port =>
      tx "pass in on lo0 " ++ inet_v f ++ tx " proto tcp to " ++ pf_subnet e ++ tx " divert-to "
      ++ lo_addr f ++ tx " port " ++ dec port
  | ORdrDns f d =>
      tx "pass in on lo0 " ++ inet_v f ++ tx " proto udp to <dns_servers> port 53 rdr-to "
      ++ lo_addr f ++ tx " port " ++ dec d
  | ORouteTcp f e =>
      tx "pass out " ++ inet_v f ++ tx " proto tcp to " ++ pf_subnet e ++ tx " route-to lo0 keep state"
  | ORouteDns f =>
      tx "pass out " ++ inet_v f ++ tx " proto udp to <dns_servers> port 53 route-to lo0 keep state"
  end.

(* b'\n'.join(tables + translating_rules + filtering_rules) + b'\n' *)
Definition print_pf (ls : list pf_line) : bytes :=
  join [ascii_of_N 10] (map print_pf_line ls) ++ [ascii_of_N 10].

Definition pf_lines (os : pf_os) (pl : plan) (f : family) : list pf_line :=
  let es := sort_asc (entries_of pl f) in           (* pf.py:463 sorted(subnets, key=subnet_weight) *)
  let incl := filter (fun e => negb (e_excl e)) es in
  let nss := ns_of pl f in
  let port := port_of pl f in
  let dns := dns_of pl f in
  let has_ns := match nss with [] => false | _ => true end in
  match os with
  | FreeBsd =>
      (if has_ns then [PTable nss] else [])
      ++ map (fun e => PRdrTcp f e port) incl
      ++ (if has_ns then [PRdrDns f dns] else [])
      ++ map (fun e => if e_excl e then PPassTcp f e else PRouteTcp f e) es
      ++ (if has_ns then [PRouteDns f] else [])
  | OpenBsd =>
      (if has_ns then [PTable nss] else [])
      ++ map (fun e => ODivertTcp f e port) incl
      ++ (if has_ns then [ORdrDns f dns] else [])
      ++ map (fun e => if e_excl e then PPassTcp f e else ORouteTcp f e) es
      ++ (if has_ns then [ORouteDns f] else [])
  end.

(* pf.py:458-470: `includes` is only bound `if subnets:` — with an empty subnet
   list (name servers only) setup_firewall dies with UnboundLocalError before
   any rule is loaded.  None = that crash. *)
Definition pf_rules (os : pf_os) (pl : plan) (f : family) : option (list pf_line) :=
  if fam_active pl f then
    match entries_of pl f with
    | [] => None
    | _ => Some (pf_lines os pl f)
    end
  else Some [].
