(* Model/ShQuote.v — the remote command line built by sshuttle/ssh.py:115-189:
   the bootstrap one-liner, shlex.quote, the four ways the one-liner is wrapped
   for the remote shell (posix default, posix with --python, cmd, powershell),
   and a reader for the fragment of the POSIX shell command language those
   command lines live in (blanks, single quotes, double quotes, backslash).
   Executable definitions only; proofs are in Proofs/ShQuote_lemmas.v. *)
From Coq Require Import List NArith Ascii Bool.
From Coq Require String.
From SV Require Import Lib.Bytes Model.Assemble.
Import ListNotations.
Local Open Scope N_scope.

Import String.StringSyntax.
Delimit Scope string_scope with string.
(* byte-string literal, evaluated at definition time (no Coq string type reaches the extracted code) *)
Notation B s := (ltac:(let x := eval vm_compute in (bytes_of_string s%string) in exact x)) (only parsing).

Definition SQ : ascii := ascii_of_N 39.      (* single quote *)
Definition DQ : ascii := ascii_of_N 34.      (* double quote *)
Definition BS : ascii := ascii_of_N 92.      (* backslash *)
Definition BT : ascii := ascii_of_N 96.      (* backtick *)
Definition DOLLAR : ascii := ascii_of_N 36.
Definition SP : ascii := ascii_of_N 32.

Definition in_rng (lo hi : N) (c : ascii) : bool := (lo <=? N_of_ascii c) && (N_of_ascii c <=? hi).
Definition one_of (l : bytes) (c : ascii) : bool := existsb (Ascii.eqb c) l.

(* ------------------------------------------------------------------ *)
(* shlex.quote (CPython Lib/shlex.py): the empty string gives two single
   quotes; a string without unsafe characters (anything outside
   [A-Za-z0-9_@%+=:,./-], re.ASCII) is returned as it is; otherwise the
   string goes between single quotes and every single quote inside becomes
   SQ DQ SQ DQ SQ (close, a double-quoted single quote, open again). *)
Definition is_safe_char (c : ascii) : bool :=
  in_rng 48 57 c || in_rng 65 90 c || in_rng 97 122 c || one_of (B "_@%+=:,./-") c.

Definition quote_char (c : ascii) : bytes :=
  if Ascii.eqb c SQ then [SQ; DQ; SQ; DQ; SQ] else [c].

Definition sh_quote (s : bytes) : bytes :=
  match s with
  | [] => [SQ; SQ]
  | _ => if forallb is_safe_char s then s else SQ :: flat_map quote_char s ++ [SQ]
  end.

(* ------------------------------------------------------------------ *)
(* ssh.py:115-122  the bootstrap program, whitespace runs collapsed    *)
Definition pyscript (verbosity len : N) : bytes :=
  B "import sys, os; verbosity=" ++ dec verbosity ++
  B "; stdin = os.fdopen(0, 'rb'); exec(compile(stdin.read(" ++ dec len ++
  B "), 'assembler.py', 'exec')); sys.exit(98);".

(* ssh.py:144-189  posix shell, no --python *)
Definition sh_inner (script : bytes) : bytes :=
  B "P=python3; $P -V 2>/dev/null || P=python; exec ""$P"" -c " ++ sh_quote script ++ B "; exit 97".
Definition pycmd_sh (script : bytes) : bytes := B "/bin/sh -c " ++ sh_quote (sh_inner script).

(* ssh.py:138,145  DQ python DQ -c DQ pyscript DQ  (cmd: python or the word python) *)
Definition pycmd_py (python script : bytes) : bytes :=
  DQ :: python ++ DQ :: B " -c " ++ DQ :: script ++ [DQ].

Definition or_python (python : bytes) : bytes := match python with [] => B "python" | _ => python end.

(* ssh.py:139-142  powershell: every single quote, blank, semicolon, parenthesis
   and comma gets a backtick in front *)
Definition is_ps_special (c : ascii) : bool := one_of (B "' ;(),") c.
Definition ps_escape (s : bytes) : bytes := flat_map (fun c => if is_ps_special c then [BT; c] else [c]) s.
Definition pycmd_ps (python script : bytes) : bytes := or_python python ++ B " -c " ++ ps_escape script.

Inductive shell_kind := KSh | KPy | KCmd | KPs.

(* python = [] stands for: no --python given *)
Definition pycmd (k : shell_kind) (python : bytes) (verbosity len : N) : bytes :=
  let s := pyscript verbosity len in
  match k with
  | KSh => pycmd_sh s
  | KPy => pycmd_py python s
  | KCmd => pycmd_py (or_python python) s
  | KPs => pycmd_ps python s
  end.

(* ------------------------------------------------------------------ *)
(* POSIX shell, XCU 2.2 (quoting) + 2.3 (token recognition), restricted to
   command lines without operators and expansions: the words of one simple
   command.  None = the line is outside this fragment (an unquoted operator,
   a dollar sign or backtick outside single quotes, glob characters, an
   unterminated quote). *)
Inductive qst := QN | QNe | QS | QD | QDe.

Definition is_blank (c : ascii) : bool := one_of [SP; ascii_of_N 9; ascii_of_N 10] c.
Definition is_meta (c : ascii) : bool := one_of (B "|&;<>()$`*?[#~") c.
Definition dq_escapable (c : ascii) : bool := one_of [DOLLAR; BT; DQ; BS] c.

Definition cur_word (cur : option bytes) : bytes := match cur with Some w => w | None => [] end.
Definition flush_word (cur : option bytes) (acc : list bytes) : list bytes :=
  match cur with Some w => w :: acc | None => acc end.

Fixpoint sh_scan (st : qst) (cur : option bytes) (acc : list bytes) (s : bytes) : option (list bytes) :=
  match s with
  | [] => match st with QN => Some (rev (flush_word cur acc)) | _ => None end
  | c :: t =>
    match st with
    | QN =>
      if is_blank c then sh_scan QN None (flush_word cur acc) t
      else if Ascii.eqb c SQ then sh_scan QS (Some (cur_word cur)) acc t
      else if Ascii.eqb c DQ then sh_scan QD (Some (cur_word cur)) acc t
      else if Ascii.eqb c BS then sh_scan QNe (Some (cur_word cur)) acc t
      else if is_meta c then None
      else sh_scan QN (Some (cur_word cur ++ [c])) acc t
    | QNe =>
      if Ascii.eqb c (ascii_of_N 10) then sh_scan QN cur acc t           (* line continuation *)
      else sh_scan QN (Some (cur_word cur ++ [c])) acc t
    | QS =>
      if Ascii.eqb c SQ then sh_scan QN cur acc t
      else sh_scan QS (Some (cur_word cur ++ [c])) acc t
    | QD =>
      if Ascii.eqb c DQ then sh_scan QN cur acc t
      else if Ascii.eqb c BS then sh_scan QDe cur acc t
      else if Ascii.eqb c DOLLAR || Ascii.eqb c BT then None
      else sh_scan QD (Some (cur_word cur ++ [c])) acc t
    | QDe =>
      if dq_escapable c then sh_scan QD (Some (cur_word cur ++ [c])) acc t
      else if Ascii.eqb c (ascii_of_N 10) then sh_scan QD cur acc t
      else sh_scan QD (Some (cur_word cur ++ [BS; c])) acc t
    end
  end.

Definition sh_words (s : bytes) : option (list bytes) := sh_scan QN None [] s.

(* characters that stand for themselves between double quotes *)
Definition dq_plain_char (c : ascii) : bool := negb (one_of [DQ; BS; DOLLAR; BT] c).
Definition dq_plain (s : bytes) : bool := forallb dq_plain_char s.

(* PowerShell, bare words only: a backtick makes the next character literal,
   an unescaped blank separates, an unescaped special character is interpreted *)
Fixpoint ps_scan (esc : bool) (cur : option bytes) (acc : list bytes) (s : bytes) : option (list bytes) :=
  match s with
  | [] => if esc then None else Some (rev (flush_word cur acc))
  | c :: t =>
    if esc then ps_scan false (Some (cur_word cur ++ [c])) acc t
    else if Ascii.eqb c BT then ps_scan true (Some (cur_word cur)) acc t
    else if Ascii.eqb c SP then ps_scan false None (flush_word cur acc) t
    else if is_ps_special c || one_of (B """{}|&<>@#$") c then None
    else ps_scan false (Some (cur_word cur ++ [c])) acc t
  end.
Definition ps_words (s : bytes) : option (list bytes) := ps_scan false None [] s.
Definition ps_plain_char (c : ascii) : bool :=
  negb (Ascii.eqb c BT || one_of (B """{}|&<>@#$") c).
(* a character that can stand in a bare PowerShell cur_word without a backtick *)
Definition ps_bare_char (c : ascii) : bool := ps_plain_char c && negb (is_ps_special c).
