(* Model/SshArgv.v — what sshuttle/ssh.py:87-92,129-136,191-202 does with the
   four parts parse_hostport returns: the argument vector handed to Popen when a
   remote host is given (-r) and the SSHPASS variable.  The remote command
   (pycmd, Model/ShQuote.v) and shlex.split(ssh_cmd) are inputs here.
   Definitions only; proofs are in Proofs/SshArgv_lemmas.v. *)
From Coq Require Import List NArith Ascii Bool.
From SV Require Import Lib.Bytes Model.Args.
From SV Require Model.Assemble.
Import ListNotations.
Local Open Scope char_scope.
Local Open Scope N_scope.

Definition w_sshpass : bytes := ["s"; "s"; "h"; "p"; "a"; "s"; "s"].
Definition w_e : bytes := ["-"; "e"].
Definition w_p : bytes := ["-"; "p"].
Definition w_dd : bytes := ["-"; "-"].
Definition w_None : bytes := ["N"; "o"; "n"; "e"].

(* "{}".format(x) of an optional text: None prints as the word None *)
Definition fmt_opt (o : option bytes) : bytes := match o with Some b => b | None => w_None end.

(* ssh.py:89-92   if username: rhost = "{}@{}".format(username, host) else: rhost = host *)
Definition ssh_rhost (user host : option bytes) : option bytes :=
  match user with
  | Some (c :: u) => Some ((c :: u) ++ "@" :: fmt_opt host)
  | _ => host
  end.

(* str(port) *)
Definition port_text (n : N) : bytes := Assemble.dec n.

(* ssh.py:124-202.  None = `not rhost`: the server is started locally.
   Result: (argv before which() replaces argv[0] by its absolute path,
            value stored in os.environ['SSHPASS'] if any) *)
Definition ssh_argv (sshl : list bytes) (hp : hostport) (delim : bool) (pycmd : bytes)
  : option (list bytes * option bytes) :=
  let '(user, pass, port, host) := hp in
  match ssh_rhost user host with
  | Some (c :: r) =>
    Some ((match pass with Some _ => [w_sshpass; w_e] | None => [] end)
          ++ sshl
          ++ (match port with Some n => [w_p; port_text n] | None => [] end)
          ++ [c :: r]
          ++ (if delim then [w_dd] else [])
          ++ [pycmd],
          pass)
  | _ => None
  end.

(* ssh.connect up to the Popen call, from the text given with -r *)
Definition connect_argv (sshl : list bytes) (rhostport : bytes) (delim : bool) (pycmd : bytes)
  : res (option (list bytes * option bytes)) :=
  match parse_hostport rhostport with
  | Raise e => Raise e
  | Ok hp => Ok (ssh_argv sshl hp delim pycmd)
  end.
