(* Model/FwLog.v — the logging the privileged helper does while it sets up and
   tears down the firewall, as an operation with an ENVIRONMENT OUTCOME:
   sshuttle/helpers.py log (lines 25-45), debug1/debug2 (48-55), the log
   points of sshuttle/linux.py (nonfatal 6-10, ipt 37, nft 48) and of
   sshuttle/firewall.py main (201-430).  Executable definitions only; proofs
   live in Proofs/FwLog_lemmas.v.

   Why: the tear-down of C04 runs when the client has been killed, typically
   because the terminal went away; the helper's stderr is then a hung-up tty
   and every write to it fails (EIO).  Every command the helper issues is
   preceded by a debug1() when -v is given, and every failing nonfatal()
   command is followed by a log() at any verbosity.  The clean-up therefore
   relies on log() being TOTAL for what a dead stream can raise.

   A stream operation (sys.stdout.flush, sys.stderr.write, sys.stderr.flush)
   either succeeds or raises an exception of some class; the classes are the
   built-in Python hierarchy below `Exception` (single inheritance). *)
From Coq Require Import List NArith Bool.
From SV Require Import Lib.Bytes Model.FwLife.
Import ListNotations.

Inductive ecls :=
| CException
| COSError | CBlockingIOError | CChildProcessError | CConnectionError
| CBrokenPipeError | CConnectionAbortedError | CConnectionRefusedError | CConnectionResetError
| CFileExistsError | CFileNotFoundError | CInterruptedError | CIsADirectoryError
| CNotADirectoryError | CPermissionError | CProcessLookupError | CTimeoutError
| CValueError | CUnicodeError | CUnicodeEncodeError | CUnicodeDecodeError | CUnicodeTranslateError
| CRuntimeError | CRecursionError | CNotImplementedError
| CTypeError | CAttributeError | CLookupError | CKeyError | CIndexError
| CArithmeticError | CZeroDivisionError | CMemoryError | CAssertionError | CEOFError | CBufferError.
(* sshuttle's own helpers.Fatal is not among them: no stream raises it (an escaping exception is
   therefore never caught by nonfatal(), linux.py:9 `except Fatal`) *)

(* the direct base class (cls.__bases__[0]); None for Exception itself *)
Definition parent (c : ecls) : option ecls :=
  match c with
  | CException => None
  | CBlockingIOError | CChildProcessError | CConnectionError | CFileExistsError | CFileNotFoundError
  | CInterruptedError | CIsADirectoryError | CNotADirectoryError | CPermissionError
  | CProcessLookupError | CTimeoutError => Some COSError
  | CBrokenPipeError | CConnectionAbortedError | CConnectionRefusedError | CConnectionResetError =>
      Some CConnectionError
  | CUnicodeError => Some CValueError
  | CUnicodeEncodeError | CUnicodeDecodeError | CUnicodeTranslateError => Some CUnicodeError
  | CRecursionError | CNotImplementedError => Some CRuntimeError
  | CKeyError | CIndexError => Some CLookupError
  | CZeroDivisionError => Some CArithmeticError
  | _ => Some CException
  end.

Definition ecls_id (c : ecls) : nat :=
  match c with
  | CException => 0
  | COSError => 1 | CBlockingIOError => 2 | CChildProcessError => 3 | CConnectionError => 4
  | CBrokenPipeError => 5 | CConnectionAbortedError => 6 | CConnectionRefusedError => 7
  | CConnectionResetError => 8 | CFileExistsError => 9 | CFileNotFoundError => 10
  | CInterruptedError => 11 | CIsADirectoryError => 12 | CNotADirectoryError => 13
  | CPermissionError => 14 | CProcessLookupError => 15 | CTimeoutError => 16
  | CValueError => 17 | CUnicodeError => 18 | CUnicodeEncodeError => 19 | CUnicodeDecodeError => 20
  | CUnicodeTranslateError => 21
  | CRuntimeError => 22 | CRecursionError => 23 | CNotImplementedError => 24
  | CTypeError => 25 | CAttributeError => 26 | CLookupError => 27 | CKeyError => 28 | CIndexError => 29
  | CArithmeticError => 30 | CZeroDivisionError => 31 | CMemoryError => 32 | CAssertionError => 33
  | CEOFError => 34 | CBufferError => 35
  end.

Definition ecls_eqb (a b : ecls) : bool := Nat.eqb (ecls_id a) (ecls_id b).

(* issubclass(a, b): walk up from a (the hierarchy above is 4 levels deep) *)
Fixpoint subclass_fuel (fuel : nat) (a b : ecls) : bool :=
  ecls_eqb a b ||
  match fuel with
  | O => false
  | S f => match parent a with Some p => subclass_fuel f p b | None => false end
  end.
Definition subclass (a b : ecls) : bool := subclass_fuel 4 a b.

(* helpers.py:29 and :42 — `except (IOError, ValueError): pass`.
   IOError is OSError in Python 3. *)
Definition log_swallows (e : ecls) : bool := subclass e COSError || subclass e CValueError.

(* NOT the code: the narrower clause `except (BrokenPipeError, ValueError)`,
   kept to show that the hypothesis of the theorems is needed
   (Props/C04.v c04_log_narrow_refuted). *)
Definition log_swallows_narrow (e : ecls) : bool := subclass e CBrokenPipeError || subclass e CValueError.

(* ------------------------------------------------------------------ *)
(* One call of helpers.log                                              *)

Inductive lout := LOk | LRaise (e : ecls).

(* the first exception raised by the operations i, i+1, ..., i+count-1 *)
Fixpoint first_raise (env : nat -> lout) (i count : nat) : option ecls :=
  match count with
  | O => None
  | S c => match env i with LRaise e => Some e | LOk => first_raise env (S i) c end
  end.

(* helpers.py:25-45.  `env` gives the outcome of the stream operations of THIS
   call: 0 = sys.stdout.flush(), 1..nlines = sys.stderr.write(prefix+line),
   nlines+1 = sys.stderr.flush().  Two try blocks; `sw` is the set of classes
   their except clauses name.  None = log returned; Some e = e escaped. *)
Definition log_call (sw : ecls -> bool) (env : nat -> lout) (nlines : nat) : option ecls :=
  let second :=
    match first_raise env 1 (S nlines) with
    | Some e => if sw e then None else Some e
    | None => None
    end in
  match env 0 with
  | LRaise e => if sw e then second else Some e
  | LOk => second
  end.

(* ------------------------------------------------------------------ *)
(* The helper's logging environment                                     *)

Record logcfg := mkLog {
  lg_verbose : nat;                (* helpers.verbose: number of -v flags (0, 1, 2) *)
  lg_sw : ecls -> bool;            (* classes log()'s except clauses name *)
  lg_env : nat -> nat -> lout;     (* outcome of operation i of the j-th log call of the session *)
  lg_nl : nat -> nat               (* number of lines of the j-th message *)
}.

(* debugN(msg) for lvl = N, log(msg) for lvl = 0 (helpers.py:48-55): only an
   active call touches the streams.  Result: escaped exception, next call index *)
Definition dbg (L : logcfg) (lvl j : nat) : option ecls * nat :=
  if Nat.leb lvl (lg_verbose L)
  then (log_call (lg_sw L) (lg_env L j) (lg_nl L j), S j)
  else (None, j).

(* a sequence of debug calls; stops at the first escaping exception *)
Fixpoint dbgs (L : logcfg) (lvls : list nat) (j : nat) : option ecls * nat :=
  match lvls with
  | [] => (None, j)
  | l :: ls => let '(r, j1) := dbg L l j in
               match r with Some e => (Some e, j1) | None => dbgs L ls j1 end
  end.

(* ------------------------------------------------------------------ *)
(* The step interpreter of FwLife with its log points                    *)

Inductive st :=
| SOk                 (* completed *)
| SFatal              (* helpers.Fatal raised (a command returned non-zero) *)
| SCrash (e : ecls).  (* any other exception: NOT caught by nonfatal() (linux.py:9 `except Fatal`) *)

Definition st_ok (x : st) : bool := match x with SOk => true | _ => false end.

(* status, next command index, next log-call index, state, events *)
Definition runresL := (st * nat * nat * kstate * list event)%type.

(* linux.py ipt (30-40) / nft (43-51): debug1(' '.join(argv)) BEFORE the command;
   linux.py nonfatal (6-10): log('error: %s' % e) after a failed command, at any verbosity *)
Definition run_sstepL (L : logcfg) (faults : faultfn) (x : sstep) (n j : nat) (s : kstate) : runresL :=
  let c := match x with Do c => c | Try c => c end in
  let '(r, j1) := dbg L 1 j in
  match r with
  | Some e => (SCrash e, n, j1, s, [])
  | None =>
      let '(ok, _, _, s') := issue faults c n s in
      match x with
      | Do _ => (if ok then SOk else SFatal, S n, j1, s', [ECmd c ok s'])
      | Try _ =>
          if ok then (SOk, S n, j1, s', [ECmd c ok s'])
          else let '(r2, j2) := dbg L 0 j1 in
               (match r2 with Some e => SCrash e | None => SOk end, S n, j2, s', [ECmd c ok s'])
      end
  end.

Fixpoint run_ssL (L : logcfg) (faults : faultfn) (xs : list sstep) (n j : nat) (s : kstate) : runresL :=
  match xs with
  | [] => (SOk, n, j, s, [])
  | x :: xs' =>
      let '(r, n1, j1, s1, ev1) := run_sstepL L faults x n j s in
      match r with
      | SOk => let '(r2, n2, j2, s2, ev2) := run_ssL L faults xs' n1 j1 s1 in (r2, n2, j2, s2, ev1 ++ ev2)
      | _ => (r, n1, j1, s1, ev1)
      end
  end.

(* ipt_chain_exists (linux.py:13-27) does not log *)
Definition run_stepL (L : logcfg) (faults : faultfn) (x : step) (n j : nat) (s : kstate) : runresL :=
  match x with
  | Simple y => run_sstepL L faults y n j s
  | IfChain f t name body =>
      let c := Ipt f t IList in
      let '(ok, out, _, s') := issue faults c n s in
      if ok then
        if chain_in_listing name out
        then let '(r2, n2, j2, s2, ev2) := run_ssL L faults body (S n) j s' in
             (r2, n2, j2, s2, ECmd c true s' :: ev2)
        else (SOk, S n, j, s', [ECmd c true s'])
      else (SFatal, S n, j, s', [ECmd c false s'])
  end.

Fixpoint runL (L : logcfg) (faults : faultfn) (xs : list step) (n j : nat) (s : kstate) : runresL :=
  match xs with
  | [] => (SOk, n, j, s, [])
  | x :: xs' =>
      let '(r, n1, j1, s1, ev1) := run_stepL L faults x n j s in
      match r with
      | SOk => let '(r2, n2, j2, s2, ev2) := runL L faults xs' n1 j1 s1 in (r2, n2, j2, s2, ev1 ++ ev2)
      | _ => (r, n1, j1, s1, ev1)
      end
  end.

(* ------------------------------------------------------------------ *)
(* firewall.main with its log points (methods nat, nft, tproxy; pf.py    *)
(* logs inside pfctl() and is covered by the harness only)               *)

(* one family's set-up inside `try:` (firewall.py:336-348): debug2('setting up IPvN.'),
   then method.setup_firewall *)
Definition setupL (L : logcfg) (faults : faultfn) (c : cfg) (f : fam) (n j : nat) (s : kstate) : runresL :=
  let '(r, j1) := dbg L 2 j in
  match r with
  | Some e => (SCrash e, n, j1, s, [])
  | None =>
      if udp_refused c then (SCrash CException, n, j1, s, [EMark (MSetup f)])
      else let '(x, n', j', s', ev) := runL L faults (setup_prog c f) n j1 s in
           (x, n', j', s', EMark (MSetup f) :: ev)
  end.

(* the handler of each guard of the finally block (firewall.py:394-399 etc.):
     except Exception:
         try:    debug1("Error trying to undo ..."); debug1(traceback.format_exc())
         except Exception: debug2('An error occurred, ignoring it.')
   Some e = e propagates out of the finally block (the LAST debug2 is unguarded) *)
Definition handlerL (L : logcfg) (j : nat) : option ecls * nat :=
  let '(r, j1) := dbgs L [1; 1] j in
  match r with
  | Some _ => dbg L 2 j1
  | None => (None, j1)
  end.

(* one family's guarded restore (firewall.py:390-410).  Result: exception that leaves
   the finally block (if any), next command index, next log index, state, events *)
Definition restoreL (L : logcfg) (faults : faultfn) (c : cfg) (f : fam) (n j : nat) (s : kstate)
  : option ecls * nat * nat * kstate * list event :=
  let '(r, j1) := dbg L 2 j in                       (* debug2('undoing IPvN changes.') *)
  match r with
  | Some _ => let '(h, j2) := handlerL L j1 in (h, n, j2, s, [])
  | None =>
      if udp_refused c then
        let '(h, j2) := handlerL L j1 in (h, n, j2, s, [EMark (MRestore f)])
      else
        let '(x, n', j', s', ev) := runL L faults (restore_prog c f) n j1 s in
        match x with
        | SOk => (None, n', j', s', EMark (MRestore f) :: ev)
        | _ => let '(h, j2) := handlerL L j' in (h, n', j2, s', EMark (MRestore f) :: ev)
        end
  end.

(* the wait loop with its debug2('setting up /etc/hosts.') per HOST line
   (firewall.py:370-383; hostmap is updated BEFORE the debug call).
   Result: hosts recorded, how the loop ended, next log index *)
Fixpoint wait_loopL (L : logcfg) (lines : list bool) (j : nat) : nat * st * nat :=
  match lines with
  | [] => (O, SOk, j)                                 (* EOF: return *)
  | true :: ls =>
      let '(r, j1) := dbg L 2 j in
      match r with
      | Some e => (1, SCrash e, j1)
      | None => let '(h, x, j2) := wait_loopL L ls j1 in (S h, x, j2)
      end
  | false :: _ => (O, SFatal, j)                      (* firewall.py:380-381 *)
  end.

Record resultL := mkResL {
  rl_res : result;      (* as FwLife.session *)
  rl_nlog : nat         (* log calls made (calls that touched the streams) *)
}.

(* `pre` = levels of the debug calls firewall.py:205-326 makes for the received
   dialogue before `try:` (debug1 'Starting firewall', debug1 'ready method',
   debug2 'Got subnets', 'Got partial nslist' per name server, 'Got nslist',
   'Got ports', 'Got udp') *)
Definition sessionL (L : logcfg) (pre : list nat) (c : cfg) (cut : nat) (faults : faultfn) (s0 : kstate)
  : resultL :=
  let py0 := py_init c in
  let '(r0, j0) := dbgs L pre O in
  match r0 with
  | Some _ => mkResL (mkRes ExitCrash s0 [] 0 0 py0) j0
  | None =>
  if Nat.ltb cut (c_nlines c) then
    mkResL (mkRes (match cut with O => ExitReturn | _ => ExitFatal end) s0 [] 0 0 py0) j0
  else
    let tail := firstn (cut - c_nlines c) (c_tail c) in
    (* try: debug1('setting up.') *)
    let '(ra, ja) := dbg L 1 j0 in
    let '(x6, n1, j1, s1, ev1) :=
      match ra with
      | Some e => (SCrash e, O, ja, s0, [])
      | None => if fc_on (c_v6 c) then setupL L faults c V6 O ja s0 else (SOk, O, ja, s0, [])
      end in
    let '(x4, n2, j2, s2, ev2) :=
      if st_ok x6 && fc_on (c_v4 c) then setupL L faults c V4 n1 j1 s1 else (x6, n1, j1, s1, []) in
    let '(hosts, xl, j3) := if st_ok x4 then wait_loopL L tail j2 else (O, x4, j2) in
    let ev3 := if st_ok x4 then [EMark MStarted] else [] in
    let body_outcome :=
      match xl with SOk => ExitReturn | SFatal => ExitFatal | SCrash _ => ExitCrash end in
    (* finally: try: debug1('undoing changes.') except Exception: debug2(...) *)
    let '(rf, jf) :=
      let '(r, j4) := dbg L 1 j3 in
      match r with Some _ => dbg L 2 j4 | None => (None, j4) end in
    match rf with
    | Some _ => mkResL (mkRes ExitCrash s2 (ev1 ++ ev2 ++ ev3) n2 n2 py0) jf
    | None =>
    let '(h6, n3, j5, s3, ev4) :=
      if fc_on (c_v6 c) then restoreL L faults c V6 n2 jf s2 else (None, n2, jf, s2, []) in
    match h6 with
    | Some _ => mkResL (mkRes ExitCrash s3 (ev1 ++ ev2 ++ ev3 ++ ev4) n3 n2 py0) j5
    | None =>
    let '(h4, n4, j6, s4, ev5) :=
      if fc_on (c_v4 c) then restoreL L faults c V4 n3 j5 s3 else (None, n3, j5, s3, []) in
    match h4 with
    | Some _ => mkResL (mkRes ExitCrash s4 (ev1 ++ ev2 ++ ev3 ++ ev4 ++ ev5) n4 n2 py0) j6
    | None =>
    (* restore_etc_hosts (firewall.py:70-74, 412-420) *)
    let '(hh, j7, ev6) :=
      match hosts with
      | O => (None, j6, [])
      | _ => let '(r, j') := dbg L 2 j6 in
             match r with
             | Some _ => let '(h, j'') := handlerL L j' in (h, j'', [])
             | None => (None, j', [EMark MHosts])
             end
      end in
    mkResL (mkRes (match hh with Some _ => ExitCrash | None => body_outcome end)
                  s4 (ev1 ++ ev2 ++ ev3 ++ ev4 ++ ev5 ++ ev6) n4 n2 py0) j7
    end end end
  end.

(* every stream operation of every log call either succeeds or raises a class the
   except clauses name *)
Definition lout_sw (sw : ecls -> bool) (o : lout) : bool :=
  match o with LOk => true | LRaise e => sw e end.

(* environments the harness injects: operation i0 of call j0 raises e, once or from then on;
   `both` = sys.stdout.flush() fails as well (otherwise only sys.stderr is affected) *)
Definition env_once (j0 i0 : nat) (e : ecls) : nat -> nat -> lout :=
  fun j i => if Nat.eqb j j0 && Nat.eqb i i0 then LRaise e else LOk.
Definition env_from (j0 i0 : nat) (e : ecls) (both : bool) : nat -> nat -> lout :=
  fun j i =>
    if (Nat.ltb j0 j || (Nat.eqb j j0 && Nat.leb i0 i)) && (both || negb (Nat.eqb i 0))
    then LRaise e else LOk.
Definition env_ok : nat -> nat -> lout := fun _ _ => LOk.
