(* Model/FwStale.v — C03: the packet filter already holds this session's own
   objects when set-up starts.  Executable definitions only (proofs:
   Proofs/FwStale_lemmas.v).

   A session that is killed (SIGKILL, OOM) never runs its tear-down; what it
   created stays in the kernel under names built from the port number.  A later
   session on the same port finds them.  The methods deal with that differently:
     nat.py:34 / tproxy.py:143   restore_firewall() at the start of setup_firewall
                                 (deletes hooks and chains; life cycle = C04), then
                                 `-N` + `-F` of every own chain
     nft.py:31-39                no restore: `add table` / `add chain` are idempotent,
                                 `flush chain <own chain>` empties the rule chain, the
                                 two `add rule <hook> jump` are appended to whatever
                                 the hook chains hold
     pf.py:148-151               `pfctl -a <anchor> -f` replaces the anchor's rules
   Model/FwWalk.v already threads the content a chain had before the commands
   (`acc` of rules_of / nft_chain_of); this file adds the nft table evaluated on
   a state that is not empty. *)
From Coq Require Import List NArith Bool.
From SV Require Import Lib.Bytes Model.FwRules Model.FwWalk.
Import ListNotations.
Local Open Scope N_scope.

(* what a table of this session's name may hold already: the rules of the
   regular chain, and the number of `jump <chain>` rules in the output and the
   prerouting hook chain (jumps are the only rules a session ever adds there) *)
Record nft_left := mkLeft { lf_body : list (list nft_item); lf_out : nat; lf_pre : nat }.
Definition nft_nothing : nft_left := mkLeft [] O O.

Definition nft_table_outcome_on (s : nft_left) (cmds : list nft_cmd) (p : pkt) : outcome :=
  let h := match p_origin p with Local => HOutput | Forwarded => HPrerouting end in
  let j0 := match h with HOutput => lf_out s | HPrerouting => lf_pre s end in
  let body := map sem_nft (nft_chain_of cmds (lf_body s)) in
  let env (c : chain) := match c with CMain => body | _ => [] end in
  walk DEPTH env p (repeat (mkSrule [] (TJump CMain)) (j0 + nft_jumps cmds h)) 0.

Definition nft_verdict_on (s6 s4 : nft_left) (cmds6 cmds4 : list nft_cmd) (p : pkt) : verdict :=
  match nft_table_outcome_on s6 cmds6 p with
  | ORedirect port => Divert port
  | OFuel => Stuck
  | _ => nat_result (nft_table_outcome_on s4 cmds4 p)
  end.

(* the set-up of nft.py with `flush chain <own chain>` left out (what a change
   that empties something else instead amounts to): used to show that the
   theorem rests on that one command *)
Definition nft_setup_noflush (pl : plan) (f : family) : list nft_cmd :=
  filter (fun c => match c with NFlushChain => false | _ => true end) (nft_setup pl f).
