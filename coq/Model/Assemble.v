(* Model/Assemble.v — executable model of how sshuttle ships its own code to
   the remote end (C18):
     sshuttle/ssh.py        get_module_source / empackage / connect (18-31, 87-122, 252-255)
     sshuttle/assembler.py  the whole file (the loop at 14-38)
     sshuttle/client.py     _main: from `ssh.connect(` to the first `ssnet.runonce(handlers, mux)`
                            (start-up order only; line numbers below are those of /repo when written
                            and move with every fix commit — the statements quoted identify the code)
     sshuttle/server.py     main: up to `sys.stdout.write('\0\0SSHUTTLE0001'); sys.stdout.flush()`
   Definitions only; proofs live in Proofs/Assemble_lemmas.v.

   zlib is abstract: the functions below take the compressor / decompressor
   as arguments (Section variables).  Model/Assemble.v never looks inside. *)
From Coq Require Import List NArith ZArith Ascii Bool.
From SV Require Import Lib.Bytes Model.Wire Gen.Consts.
Import ListNotations.
Local Open Scope N_scope.

(* ------------------------------------------------------------------ *)
(* Python primitives used by the packaging code                        *)

Definition nl : ascii := ascii_of_N 10.
Definition ch_quote : ascii := ascii_of_N 39.      (* ' *)
Definition ch_bslash : ascii := ascii_of_N 92.     (* \ *)
Definition ch_minus : ascii := ascii_of_N 45.
Definition ch_eq : ascii := ascii_of_N 61.
Definition ch_dot : ascii := ascii_of_N 46.
Definition ch_uscore : ascii := ascii_of_N 95.

(* bytes.strip() with no argument removes b' \t\n\r\x0b\x0c' *)
Definition is_ws (c : ascii) : bool :=
  let n := N_of_ascii c in (n =? 32) || ((9 <=? n) && (n <=? 13)).

Fixpoint lstrip (b : bytes) : bytes :=
  match b with
  | c :: tl => if is_ws c then lstrip tl else b
  | [] => []
  end.
Fixpoint rstrip (b : bytes) : bytes :=
  match b with
  | [] => []
  | c :: tl =>
    match rstrip tl with
    | [] => if is_ws c then [] else [c]
    | r => c :: r
    end
  end.
Definition strip (b : bytes) : bytes := rstrip (lstrip b).

(* b'%d' % n and repr(int): decimal digits, most significant first, no
   leading zero, "0" for zero, '-' for negatives (Coq's own N.to_uint). *)
Fixpoint uint_bytes (u : Decimal.uint) : bytes :=
  match u with
  | Decimal.Nil => []
  | Decimal.D0 u => ascii_of_N 48 :: uint_bytes u
  | Decimal.D1 u => ascii_of_N 49 :: uint_bytes u
  | Decimal.D2 u => ascii_of_N 50 :: uint_bytes u
  | Decimal.D3 u => ascii_of_N 51 :: uint_bytes u
  | Decimal.D4 u => ascii_of_N 52 :: uint_bytes u
  | Decimal.D5 u => ascii_of_N 53 :: uint_bytes u
  | Decimal.D6 u => ascii_of_N 54 :: uint_bytes u
  | Decimal.D7 u => ascii_of_N 55 :: uint_bytes u
  | Decimal.D8 u => ascii_of_N 56 :: uint_bytes u
  | Decimal.D9 u => ascii_of_N 57 :: uint_bytes u
  end.

Definition digit_of (c : ascii) : option (Decimal.uint -> Decimal.uint) :=
  match N_of_ascii c with
  | 48 => Some Decimal.D0 | 49 => Some Decimal.D1 | 50 => Some Decimal.D2
  | 51 => Some Decimal.D3 | 52 => Some Decimal.D4 | 53 => Some Decimal.D5
  | 54 => Some Decimal.D6 | 55 => Some Decimal.D7 | 56 => Some Decimal.D8
  | 57 => Some Decimal.D9 | _ => None
  end.

Definition is_digit (c : ascii) : bool :=
  match digit_of c with Some _ => true | None => false end.

Fixpoint bytes_uint (b : bytes) : option Decimal.uint :=
  match b with
  | [] => Some Decimal.Nil
  | c :: tl =>
    match digit_of c, bytes_uint tl with
    | Some d, Some u => Some (d u)
    | _, _ => None
    end
  end.

Definition dec (n : N) : bytes := uint_bytes (N.to_uint n).

(* int(<bytes>) as far as it is modelled: surrounding ASCII whitespace is
   ignored, then one or more decimal digits.  (CPython also accepts a sign and
   single underscores between digits; such length lines are never produced by
   empackage and are reported as ValueError by this model — see "not covered"
   in harness/props/c18.py.) *)
Definition undec (b : bytes) : option N :=
  match b with
  | [] => None
  | _ => match bytes_uint b with Some u => Some (N.of_uint u) | None => None end
  end.

Definition parse_int_line (l : bytes) : option N := undec (strip l).

Definition zdec (z : Z) : bytes :=
  match Z.to_int z with
  | Decimal.Pos u => uint_bytes u
  | Decimal.Neg u => ch_minus :: uint_bytes u
  end.

Definition zundec (b : bytes) : option Z :=
  match b with
  | [] => None
  | c :: tl =>
    if Ascii.eqb c ch_minus then
      match tl with
      | [] => None
      | _ => match bytes_uint tl with
             | Some u => Some (Z.of_int (Decimal.Neg u)) | None => None end
      end
    else match bytes_uint b with
         | Some u => Some (Z.of_int (Decimal.Pos u)) | None => None end
  end.

(* first line of a byte string: (line including its '\n', rest) *)
Fixpoint split_line (b : bytes) : option (bytes * bytes) :=
  match b with
  | [] => None
  | c :: tl =>
    if Ascii.eqb c nl then Some ([c], tl)
    else match split_line tl with
         | Some (l, r) => Some (c :: l, r)
         | None => None
         end
  end.

(* readline() on a complete stream: up to and including the first '\n', or
   everything that is left when EOF comes first *)
Definition line_split (s : bytes) : bytes * bytes :=
  match split_line s with
  | Some (l, r) => (l, r)
  | None => (s, [])
  end.

(* ------------------------------------------------------------------ *)
(* The remote stdin: `stdin = os.fdopen(0, 'rb')` is an io.BufferedReader.
   Its raw reads return the deliveries of the transport one after the other
   (`r_chunks`: any cutting of the byte stream into pieces); whatever a raw
   read returned beyond what was asked for stays in `r_buf`.
   read(n): exactly n bytes unless EOF comes first.
   readline(): through the first '\n' unless EOF comes first.            *)

Record reader := mkReader { r_buf : bytes; r_chunks : list bytes }.

Definition stream_of (r : reader) : bytes := r_buf r ++ concat (r_chunks r).

(* issue raw reads until at least `need` more bytes have arrived or EOF *)
Fixpoint pull (need : N) (chunks : list bytes) : bytes * list bytes :=
  match chunks with
  | [] => ([], [])
  | c :: cs =>
    if need =? 0 then ([], chunks)
    else let '(d, r) := pull (need - lenN c) cs in (c ++ d, r)
  end.

Definition rd_read (n : N) (r : reader) : bytes * reader :=
  let have := lenN (r_buf r) in
  if n <=? have then
    (takeN n (r_buf r), mkReader (dropN n (r_buf r)) (r_chunks r))
  else
    let '(d, cs) := pull (n - have) (r_chunks r) in
    let b := r_buf r ++ d in
    (takeN n b, mkReader (dropN n b) cs).

(* issue raw reads until one of them contains a '\n' or EOF *)
Fixpoint pull_line (chunks : list bytes) : bytes * list bytes :=
  match chunks with
  | [] => ([], [])
  | c :: cs =>
    match split_line c with
    | Some _ => (c, cs)
    | None => let '(d, r) := pull_line cs in (c ++ d, r)
    end
  end.

Definition rd_readline (r : reader) : bytes * reader :=
  match split_line (r_buf r) with
  | Some (l, rest) => (l, mkReader rest (r_chunks r))
  | None =>
    let '(d, cs) := pull_line (r_chunks r) in
    let '(l, rest) := line_split (r_buf r ++ d) in
    (l, mkReader rest cs)
  end.

(* ------------------------------------------------------------------ *)
(* assembler.py                                                        *)

Inductive crash :=
| CrUnicodeDecode      (* name.decode("ASCII") *)
| CrValueError         (* int(stdin.readline()) *)
| CrKeyError.          (* sys.modules[parent] *)

Inductive asm_result (L : Type) :=
| AsmDone (mods : list (bytes * bytes)) (left : L)     (* `break`: modules registered, in order *)
| AsmCrash (c : crash) (mods : list (bytes * bytes))   (* uncaught exception; modules registered before it *)
| AsmFuel.
Arguments AsmDone {L}.
Arguments AsmCrash {L}.
Arguments AsmFuel {L}.

Definition cons_mod {L} (m : bytes * bytes) (r : asm_result L) : asm_result L :=
  match r with
  | AsmDone ms l => AsmDone (m :: ms) l
  | AsmCrash c ms => AsmCrash c (m :: ms)
  | AsmFuel => AsmFuel
  end.

Definition map_left {L L'} (f : L -> L') (r : asm_result L) : asm_result L' :=
  match r with
  | AsmDone ms l => AsmDone ms (f l)
  | AsmCrash c ms => AsmCrash c ms
  | AsmFuel => AsmFuel
  end.

Definition is_ascii7 (c : ascii) : bool := N_of_ascii c <? 128.

(* name.rsplit(".", 1): the part before the LAST dot, if there is a dot *)
Fixpoint rsplit_dot (b : bytes) : option bytes :=
  match b with
  | [] => None
  | c :: tl =>
    match rsplit_dot tl with
    | Some p => Some (c :: p)
    | None => if Ascii.eqb c ch_dot then Some [] else None
    end
  end.

(* setattr(sys.modules[parent], ...) needs the parent in sys.modules *)
Definition parent_known (name : bytes) (known : list bytes) : bool :=
  match rsplit_dot name with
  | None => true
  | Some p => existsb (bytes_eqb p) known
  end.

Section Zlib.
  (* zlib.compressobj(1) / zlib.decompressobj(): opaque stream states *)
  Variable zstate dstate : Type.
  Variable compress : zstate -> bytes -> zstate * bytes.       (* z.compress(data) *)
  Variable flush_sync : zstate -> zstate * bytes.              (* z.flush(zlib.Z_SYNC_FLUSH) *)
  Variable decompress : dstate -> bytes -> dstate * bytes.     (* z.decompress(data) *)

  (* ---- ssh.py:24-30 ---- *)
  (* `if not data: data = get_module_source(name)` — None and b'' both fall back *)
  Definition effective_data (get_src : bytes -> bytes) (name data : bytes) : bytes :=
    match data with [] => get_src name | _ => data end.

  Definition empackage (get_src : bytes -> bytes) (z : zstate) (name data : bytes)
    : zstate * bytes :=
    let zc1 := compress z (effective_data get_src name data) in
    let zc2 := flush_sync (fst zc1) in
    let content := snd zc1 ++ snd zc2 in
    (fst zc2, name ++ nl :: dec (lenN content) ++ nl :: content).

  (* the `empackage(z, ...) + empackage(z, ...) + ...` chain: one shared z *)
  Fixpoint package_all (get_src : bytes -> bytes) (z : zstate) (mods : list (bytes * bytes))
    : bytes :=
    match mods with
    | [] => []
    | m :: tl =>
      let zp := empackage get_src z (fst m) (snd m) in
      snd zp ++ package_all get_src (fst zp) tl
    end.

  (* ---- assembler.py:14-38, reading from the BufferedReader ---- *)
  Fixpoint asm_loop (fuel : nat) (known : list bytes) (d : dstate) (r : reader)
    : asm_result reader :=
    match fuel with
    | O => AsmFuel
    | S fuel' =>
      let lr1 := rd_readline r in
      let name := strip (fst lr1) in
      match name with
      | [] => AsmDone [] (snd lr1)
      | _ :: _ =>
        if negb (forallb is_ascii7 name) then AsmCrash CrUnicodeDecode []
        else
          let lr2 := rd_readline (snd lr1) in
          match parse_int_line (fst lr2) with
          | None => AsmCrash CrValueError []
          | Some nbytes =>
            let cr3 := rd_read nbytes (snd lr2) in
            let dc := decompress d (fst cr3) in
            if parent_known name known then
              cons_mod (name, snd dc) (asm_loop fuel' (name :: known) (fst dc) (snd cr3))
            else AsmCrash CrKeyError []
          end
      end
    end.

  (* the same loop as a function of the whole byte stream (specification) *)
  Fixpoint asm_spec (fuel : nat) (known : list bytes) (d : dstate) (s : bytes)
    : asm_result bytes :=
    match fuel with
    | O => AsmFuel
    | S fuel' =>
      let lr1 := line_split s in
      let name := strip (fst lr1) in
      match name with
      | [] => AsmDone [] (snd lr1)
      | _ :: _ =>
        if negb (forallb is_ascii7 name) then AsmCrash CrUnicodeDecode []
        else
          let lr2 := line_split (snd lr1) in
          match parse_int_line (fst lr2) with
          | None => AsmCrash CrValueError []
          | Some nbytes =>
            let raw := takeN nbytes (snd lr2) in
            let dc := decompress d raw in
            if parent_known name known then
              cons_mod (name, snd dc) (asm_spec fuel' (name :: known) (fst dc) (dropN nbytes (snd lr2)))
            else AsmCrash CrKeyError []
          end
      end
    end.

  (* ---- ssh.py:115-121: the bootstrap one-liner
       stdin = os.fdopen(0, 'rb'); exec(compile(stdin.read(N), 'assembler.py', 'exec'))
     followed by the assembler it has just read, on the SAME stdin object.
     `pre` = names already in sys.modules, `d0` = fresh zlib.decompressobj(). *)
  Definition remote_run (pre : list bytes) (d0 : dstate) (n : N) (chunks : list bytes)
    : bytes * asm_result reader :=
    let cr := rd_read n (mkReader [] chunks) in
    (fst cr, asm_loop (S (length (stream_of (snd cr)))) pre d0 (snd cr)).

  Definition remote_spec (pre : list bytes) (d0 : dstate) (n : N) (s : bytes)
    : bytes * asm_result bytes :=
    (takeN n s, asm_spec (S (length (dropN n s))) pre d0 (dropN n s)).
End Zlib.

(* ------------------------------------------------------------------ *)
(* The options module: ssh.py:96-97
     optdata = ''.join("%s=%r\n" % (k, v) for (k, v) in list(options.items()))  *)

Inductive pyval :=
| PvBool (b : bool)
| PvInt (z : Z)
| PvNone
| PvStr (s : bytes).

(* repr(str) is modelled EXACTLY for strings of printable ASCII (0x20..0x7e)
   without ' and without backslash: repr(s) = "'" + s + "'".  That covers what
   to_nameserver can be ("%s@%s" % (numeric address, port), client.py:851).
   Other strings are outside the modelled fragment (`val_ok` false). *)
Definition plain_char (c : ascii) : bool :=
  let n := N_of_ascii c in
  (32 <=? n) && (n <=? 126) && negb (n =? 39) && negb (n =? 92).

Definition lit_True : bytes := ["T"; "r"; "u"; "e"]%char.
Definition lit_False : bytes := ["F"; "a"; "l"; "s"; "e"]%char.
Definition lit_None : bytes := ["N"; "o"; "n"; "e"]%char.

Definition repr (v : pyval) : bytes :=
  match v with
  | PvBool true => lit_True
  | PvBool false => lit_False
  | PvInt z => zdec z
  | PvNone => lit_None
  | PvStr s => ch_quote :: s ++ [ch_quote]
  end.

Definition val_ok (v : pyval) : bool :=
  match v with PvStr s => forallb plain_char s | _ => true end.

Definition ident_char (c : ascii) : bool :=
  let n := N_of_ascii c in
  ((65 <=? n) && (n <=? 90)) || ((97 <=? n) && (n <=? 122)) || (n =? 95) || is_digit c.

Definition ident_ok (k : bytes) : bool :=
  match k with
  | [] => false
  | c :: _ => negb (is_digit c) && forallb ident_char k
  end.

Definition opt_ok (kv : bytes * pyval) : bool := ident_ok (fst kv) && val_ok (snd kv).

Definition render_option (kv : bytes * pyval) : bytes :=
  fst kv ++ ch_eq :: repr (snd kv) ++ [nl].

Definition render_options (opts : list (bytes * pyval)) : bytes :=
  concat (map render_option opts).

(* Executing the module text: the fragment of Python needed for such modules —
   one `name=literal` assignment per line. *)
Fixpoint lines_of (cur : bytes) (b : bytes) : list bytes :=
  match b with
  | [] => match cur with [] => [] | _ => [rev cur] end
  | c :: tl => if Ascii.eqb c nl then rev cur :: lines_of [] tl else lines_of (c :: cur) tl
  end.

Fixpoint parse_str_body (b : bytes) : option bytes :=
  match b with
  | [] => None
  | c :: tl =>
    if Ascii.eqb c ch_quote then match tl with [] => Some [] | _ => None end
    else if plain_char c then
      match parse_str_body tl with Some s => Some (c :: s) | None => None end
    else None
  end.

Definition parse_literal (b : bytes) : option pyval :=
  if bytes_eqb b lit_True then Some (PvBool true)
  else if bytes_eqb b lit_False then Some (PvBool false)
  else if bytes_eqb b lit_None then Some PvNone
  else match b with
       | [] => None
       | c :: tl =>
         if Ascii.eqb c ch_quote then
           match parse_str_body tl with Some s => Some (PvStr s) | None => None end
         else match zundec b with Some z => Some (PvInt z) | None => None end
       end.

Fixpoint split_eq (b : bytes) : option (bytes * bytes) :=
  match b with
  | [] => None
  | c :: tl =>
    if Ascii.eqb c ch_eq then Some ([], tl)
    else match split_eq tl with Some (k, v) => Some (c :: k, v) | None => None end
  end.

Definition parse_assign (l : bytes) : option (bytes * pyval) :=
  match split_eq l with
  | Some (k, v) =>
    if ident_ok k then
      match parse_literal v with Some pv => Some (k, pv) | None => None end
    else None
  | None => None
  end.

Fixpoint eval_lines (ls : list bytes) : option (list (bytes * pyval)) :=
  match ls with
  | [] => Some []
  | l :: tl =>
    match parse_assign l, eval_lines tl with
    | Some kv, Some r => Some (kv :: r)
    | _, _ => None
    end
  end.

Definition eval_options (txt : bytes) : option (list (bytes * pyval)) :=
  eval_lines (lines_of [] txt).

(* ------------------------------------------------------------------ *)
(* ssh.connect: what is written to the server's stdin (ssh.py:94-104, 253-254).
   The module names are literals inside connect(); the correspondence compares
   the whole upload byte for byte, so a change there is noticed. *)

Definition n_assembler : bytes := ["s"; "s"; "h"; "u"; "t"; "t"; "l"; "e"; "."; "a"; "s"; "s"; "e"; "m"; "b"; "l"; "e"; "r"]%char.
Definition n_sshuttle : bytes := ["s"; "s"; "h"; "u"; "t"; "t"; "l"; "e"]%char.
Definition n_options : bytes := ["s"; "s"; "h"; "u"; "t"; "t"; "l"; "e"; "."; "c"; "m"; "d"; "l"; "i"; "n"; "e"; "_"; "o"; "p"; "t"; "i"; "o"; "n"; "s"]%char.
Definition n_helpers : bytes := ["s"; "s"; "h"; "u"; "t"; "t"; "l"; "e"; "."; "h"; "e"; "l"; "p"; "e"; "r"; "s"]%char.
Definition n_ssnet : bytes := ["s"; "s"; "h"; "u"; "t"; "t"; "l"; "e"; "."; "s"; "s"; "n"; "e"; "t"]%char.
Definition n_hostwatch : bytes := ["s"; "s"; "h"; "u"; "t"; "t"; "l"; "e"; "."; "h"; "o"; "s"; "t"; "w"; "a"; "t"; "c"; "h"]%char.
Definition n_server : bytes := ["s"; "s"; "h"; "u"; "t"; "t"; "l"; "e"; "."; "s"; "e"; "r"; "v"; "e"; "r"]%char.

(* (name, data argument) — [] stands for data=None *)
Definition connect_modules (optdata : bytes) : list (bytes * bytes) :=
  [ (n_sshuttle, []); (n_options, optdata); (n_helpers, []); (n_ssnet, []);
    (n_hostwatch, []); (n_server, []) ].

Section Connect.
  Variable zstate : Type.
  Variable compress : zstate -> bytes -> zstate * bytes.
  Variable flush_sync : zstate -> zstate * bytes.

  (* (content, content2): the two wfile.write() calls *)
  Definition connect_upload (get_src : bytes -> bytes) (z0 : zstate)
             (opts : list (bytes * pyval)) : bytes * bytes :=
    (get_src n_assembler,
     package_all zstate compress flush_sync get_src z0 (connect_modules (render_options opts))
       ++ [nl]).

  (* the number in the one-liner's stdin.read(%d) *)
  Definition boot_read_len (get_src : bytes -> bytes) : N := lenN (get_src n_assembler).
End Connect.

(* what the remote `import sshuttle.cmdline_options as options` then sees *)
Fixpoint lookup_mod (name : bytes) (mods : list (bytes * bytes)) : option bytes :=
  match mods with
  | [] => None
  | m :: tl => if bytes_eqb (fst m) name then
                 (* a later registration under the same name replaces the earlier one *)
                 match lookup_mod name tl with Some x => Some x | None => Some (snd m) end
               else lookup_mod name tl
  end.

Definition remote_options (mods : list (bytes * bytes)) : option (list (bytes * pyval)) :=
  match lookup_mod n_options mods with
  | Some txt => eval_options txt
  | None => None
  end.

(* ------------------------------------------------------------------ *)
(* Start-up order on the client: client.py _main.
     630  ssh.connect(...)            -> wfile.write(content); wfile.write(content2)
     646  mux = Mux(rfile, wfile)     -> Mux.__init__ queues PING 'chicken' (outbuf only)
     649-664  read up to two NULs and the 12-byte sync string
     673  serverproc.poll()           -> Fatal if the server already died
     752  initstring != expected      -> Fatal
     755  log('Connected to server.')
     818  mux.send(0, CMD_HOST_REQ, ...) if seed_hosts is not None (queued only)
     837-839  main loop: first ssnet.runonce -> Mux.callback -> flush(): one write of outbuf[0]
   The full client life cycle belongs to C12; this is only the ordering of
   writes on the server pipe relative to the verified sync string. *)

Inductive cev :=
| CWrite (b : bytes)        (* bytes handed to wfile.write *)
| CQueue (b : bytes)        (* frame appended to mux.outbuf, nothing written *)
| CSyncOk                   (* initstring == expected *)
| CFatal (why : N)          (* 1 = server died, 2 = bad init string *)
| CCrash.                   (* assertion in Mux.send (payload > 65535) *)

Record cenv := mkCenv {
  ce_server : list bytes;     (* deliveries of the server's output *)
  ce_poll : option N;         (* serverproc.poll() after the handshake reads *)
  ce_seed : option bytes;     (* '\n'.join(seed_hosts) if seed_hosts is not None *)
  ce_accept : option N        (* first flush: None = pipe not writable, Some k = write() takes <= k bytes *)
}.

Definition chicken : bytes := ["c"; "h"; "i"; "c"; "k"; "e"; "n"]%char.
Definition ping_frame : bytes := header 0 CMD_PING (lenN chicken) ++ chicken.

Definition first_flush (acc : option N) : list cev :=
  match acc with
  | None => []
  | Some k => [CWrite (takeN (N.min k (lenN ping_frame)) ping_frame)]
  end.

Definition client_startup (content content2 : bytes) (e : cenv) : list cev :=
  CWrite content :: CWrite content2 :: CQueue ping_frame ::
  match ce_poll e with
  | Some _ => [CFatal 1]
  | None =>
    if fst (hs_run client_sync (ce_server e)) then
      CSyncOk ::
      match ce_seed e with
      | None => first_flush (ce_accept e)
      | Some s =>
        match encode (mkFrame 0 CMD_HOST_REQ s) with
        | EncOk b => CQueue b :: first_flush (ce_accept e)
        | _ => [CCrash]
        end
      end
    else [CFatal 2]
  end.

(* bytes written on the pipe before the sync string was verified *)
Fixpoint writes_before_sync (t : list cev) : list bytes :=
  match t with
  | [] => []
  | CSyncOk :: _ => []
  | CWrite b :: tl => b :: writes_before_sync tl
  | _ :: tl => writes_before_sync tl
  end.

Fixpoint writes_after_sync (t : list cev) : list bytes :=
  match t with
  | [] => []
  | CSyncOk :: tl => flat_map (fun e => match e with CWrite b => [b] | _ => [] end) tl
  | _ :: tl => writes_after_sync tl
  end.

(* ------------------------------------------------------------------ *)
(* server.py main (its first statements): what happens before anything else is written to
   stdout.  `lbs` is options.latency_buffer_size as received. *)

Inductive sev :=
| SSetLatency (n : Z)       (* ssnet.LATENCY_BUFFER_SIZE = latency_buffer_size (if truthy) *)
| SStdout (b : bytes)       (* sys.stdout.write / later mux writes on fd 1 *)
| SFlush.

Definition server_main_start (lbs : Z) : list sev :=
  (if Z.eqb lbs 0 then [] else [SSetLatency lbs]) ++ [SStdout server_sync; SFlush].

Definition stdout_of (t : list sev) : bytes :=
  flat_map (fun e => match e with SStdout b => b | _ => [] end) t.

(* ------------------------------------------------------------------ *)
(* A stand-in codec, used only to RUN the model (extraction) and to show that
   the sync-flush law is satisfiable by a codec with genuinely shared stream
   state: the k-th flushed chunk is tagged with k, and the decompressor only
   accepts the chunk it expects next.  The harness installs the same stand-in
   for `zlib` on the Python side when upload BYTES are compared; when real
   zlib is used only decompressed contents are compared. *)

Definition stub_tag (n : N) : ascii := ascii_of_N (n mod 251).
Definition stub_end : ascii := ascii_of_N 255.

Definition stub_compress (z : N) (x : bytes) : N * bytes := (z, stub_tag z :: x).
Definition stub_flush (z : N) : N * bytes := (z + 1, [stub_end]).

Definition ends_with_end (b : bytes) : bool :=
  match b with
  | [] => false
  | _ :: _ => Ascii.eqb (last b zero) stub_end
  end.

Definition stub_decompress (d : N) (c : bytes) : N * bytes :=
  match c with
  | t :: rest =>
    if Ascii.eqb t (stub_tag d) && ends_with_end rest then (d + 1, removelast rest)
    else (d, [])
  | [] => (d, [])
  end.

(* get_module_source as a finite table (unknown names give b'') *)
Fixpoint table_src (tbl : list (bytes * bytes)) (name : bytes) : bytes :=
  match tbl with
  | [] => []
  | m :: tl => if bytes_eqb (fst m) name then snd m else table_src tl name
  end.

Definition stub_package (tbl mods : list (bytes * bytes)) : bytes :=
  package_all N stub_compress stub_flush (table_src tbl) 0 mods.

Definition stub_upload (tbl : list (bytes * bytes)) (opts : list (bytes * pyval)) : bytes * bytes :=
  connect_upload N stub_compress stub_flush (table_src tbl) 0 opts.

Definition stub_remote_run (pre : list bytes) (n : N) (chunks : list bytes)
  : bytes * asm_result reader :=
  remote_run N stub_decompress pre 0 n chunks.

Definition stub_remote_spec (pre : list bytes) (n : N) (s : bytes)
  : bytes * asm_result bytes :=
  remote_spec N stub_decompress pre 0 n s.
