(* Model/WireStart.v — how the server puts its start-of-stream synchronisation
   string on descriptor 1 (sshuttle/server.py:301-303):
       sys.stdout.write('\0\0SSHUTTLE0001'); sys.stdout.flush()
   sys.stdout is a TextIOWrapper over an io.BufferedWriter over the raw file of
   descriptor 1.  BufferedWriter.flush hands its buffer to the raw file and
   repeats with the unwritten tail until nothing is left (CPython
   _bufferedwriter_flush_unlocked).  At that moment the descriptor is still
   blocking (Mux.flush makes it non-blocking later), so every raw write(2) takes
   at least one byte; how many is the environment's choice, given by a script.
   Only then does the multiplexer (Model/Wire.v: tx_run) write to the same
   descriptor.  Definitions only; proofs live in Proofs/WireStart_lemmas.v. *)
From Coq Require Import List NArith Ascii Bool.
From SV Require Import Lib.Bytes Model.Wire.
Import ListNotations.
Local Open Scope N_scope.

(* one raw write on a blocking descriptor, offered `data` (non-empty): takes
   between 1 and len(data) bytes; the script entry is clamped into that range *)
Definition raw_take (k : N) (data : bytes) : N := N.max 1 (N.min k (lenN data)).

(* BufferedWriter.flush: (bytes that reached the descriptor, bytes left when the
   script — the fuel — ran out) *)
Fixpoint flush_all (script : list N) (data : bytes) : bytes * bytes :=
  match script with
  | [] => ([], data)
  | k :: ks =>
    match data with
    | [] => ([], [])
    | _ :: _ =>
      let n := raw_take k data in
      let r := flush_all ks (dropN n data) in
      (takeN n data ++ fst r, snd r)
    end
  end.

(* a single raw write whose result is ignored — NOT what server.main does; kept
   to state what would be lost (c07_sync_single_write_refuted) *)
Definition write_once (k : N) (data : bytes) : bytes := takeN (raw_take k data) data.

(* what is on descriptor 1 after the string went out under `script` and the
   multiplexer ran `ops` (sends and partial flushes) *)
Definition server_start (sync : bytes) (script : list N) (ops : list tx_op) : bytes :=
  fst (flush_all script sync) ++ snd (fst (tx_run ops)).
