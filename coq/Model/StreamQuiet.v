(* Model/StreamQuiet.v — when is the stream core *quiescent*?  Executable (bool)
   definitions only; the theorems are in Proofs/Stream_quiet.v.

   The real loop (ssnet.runonce) blocks in select() when no fd of any wait set is
   ready.  The model has no environment state, so "ready" is judged in an *eager*
   environment — one that never makes the tunnel wait:
     - a connected socket that is waited for writability is writable,
     - the mux pipe is always writable,
     - a socket that is waited for readability has nothing more to deliver,
     - the mux pipe is readable iff the incoming link holds a frame (the link is
       required to be empty separately).
   The one external thing that may still be outstanding is a pending connect():
   a socket whose connect_to is still set is not yet writable (`fd_ready`).  The
   stricter notion in which every pending connect has completed as well is
   `quiescent_eagerb`.                                                         *)
From Coq Require Import List NArith Ascii Bool.
From SV Require Import Lib.Bytes Model.Wire Model.Chan Model.Stream.
Import ListNotations.
Local Open Scope N_scope.

(* is fd (an element of the wait set Proxy.pre_select returned for p) ready in the
   eager environment?  p is the proxy as pre_select left it. *)
Definition fd_ready (p : proxy) (fd : waitfd) : bool :=
  match fd with
  | WSockW => negb (s_conn (p_s p))
  | WMuxW => true
  | WSockR => false
  | WMuxR => false
  end.

Definition out_empty (x : mux) : bool := match x_out x with [] => true | _ :: _ => false end.
Definition link_empty (l : list sframe) : bool := match l with [] => true | _ :: _ => false end.

(* Proxy.pre_select queues nothing (no STOP_SENDING) and no fd it waits for is ready *)
Definition proxy_quiet (sd : side) (fid : N) (p : proxy) (x : mux) : bool :=
  let '(p', x', ws) := proxy_pre_select sd fid p x in
  out_empty x' && forallb (fun fd => negb (fd_ready p' fd)) ws.

(* flow numbers handed out so far at an end point *)
Definition fids (e : endpt) : list N := map N.of_nat (seq 0 (N.to_nat (e_next e))).

(* handlers the loop would run pre_select on: not yet dropped, ok = True *)
Definition active (p : proxy) : bool := live p && p_ok p.

Definition end_quietb (sd : side) (e : endpt) : bool :=
  out_empty (e_mux e) &&
  forallb (fun fid => match e_prox e fid with
                      | Some p => if active p then proxy_quiet sd fid p (e_mux e) else true
                      | None => true
                      end) (fids e).

Definition quiescentb (w : world) : bool :=
  link_empty (w_cs w) && link_empty (w_sc w) &&
  end_quietb Client (w_cl w) && end_quietb Server (w_sv w).

(* no active handler is still connecting *)
Definition no_connectingb (e : endpt) : bool :=
  forallb (fun fid => match e_prox e fid with
                      | Some p => if active p then negb (s_conn (p_s p)) else true
                      | None => true
                      end) (fids e).

Definition quiescent_eagerb (w : world) : bool :=
  quiescentb w && no_connectingb (w_cl w) && no_connectingb (w_sv w).

(* latency control: the round-trip probe and its answer *)
Definition is_rtping (f : sframe) : bool :=
  match sf_cmd f with CPing => bytes_eqb (sf_data f) rttest | _ => false end.
Definition is_rtpong (f : sframe) : bool :=
  match sf_cmd f with CPong => bytes_eqb (sf_data f) rttest | _ => false end.
