(* Model/ClientLife.v — executable model of the client's life cycle:
   sshuttle/client.py `_main` (lines 591-812) and the try/finally tail of
   `client.main` (lines 1164-1180), as a total function from an ENVIRONMENT
   SCRIPT to an EVENT TRACE.  Also the parts of FirewallClient.start/check/done
   (client.py:406-467), sdnotify.send/_notify (sdnotify.py:17-46),
   daemonize/daemon_cleanup (client.py:75-118) and Mux.got_packet's CMD_ROUTES /
   CMD_HOST_LIST dispatch (ssnet.py:418-432) that decide which events happen.
   Definitions only; proofs live in Proofs/ClientLife_lemmas.v.
   (file:line citations are those of /repo at commit b7dfe27.)

   Python exceptions are values of type [exn]; every modelled step that can
   raise returns the exception instead of a result. *)
From Coq Require Import List NArith ZArith Ascii Bool.
From SV Require Import Lib.Bytes Model.Wire Gen.Consts.
Import ListNotations.
Local Open Scope N_scope.

(* ------------------------------------------------------------------ *)
(* Exceptions                                                          *)

(* which `raise Fatal(...)` statement produced a Fatal *)
Inductive fatal_reason :=
| FConnect      (* client.py:619  "failed to establish ssh session (1)" *)
| FReset        (* client.py:644  "failed to establish ssh session (2)" *)
| FServerDied   (* client.py:726  "server died with error code %d" *)
| FBadSync      (* client.py:729  "expected server init string" *)
| FPidfile      (* client.py:85   "failed to create/write pidfile" *)
| FSshExited    (* client.py:799/805 "ssh connection to server (pid %d) exited" *)
| FHelperDied   (* client.py:409  FirewallClient.check: "%r returned %d" *)
| FNotStarted   (* client.py:455  "%r expected STARTED, got %r" *)
| FCleanup      (* client.py:467  "cleanup: %r returned %d" *)
| FInjected.    (* a Fatal raised by the environment (e.g. Mux.fill "other end") *)

(* exception classes other than Fatal and OSError; nothing in the modelled
   code catches them, so they only differ by name *)
Inductive cls :=
| CKeyboardInterrupt | CSystemExit | CAssertionError | CException
| CMemoryError | CValueError.

Inductive exn :=
| EFatal (r : fatal_reason)
| EOSError (errno : N)          (* socket.error = IOError = OSError and subclasses *)
| EOther (c : cls)
| EStop.                        (* the harness's private sentinel: the script ran out *)

(* not in Gen/Consts.v (yet): errno.ENOENT on this platform *)
Definition ENOENT : N := 2.

(* ------------------------------------------------------------------ *)
(* Events                                                              *)

Inductive event :=
| MainEnter            (* client.main reached `try: return _main(...)` (client.py:1165) *)
| Upload               (* ssh.connect called: the server code is sent (client.py:606) *)
| SyncOk               (* initstring == expected; 'Connected to server.' (client.py:731) *)
| Daemonize            (* daemonize() forked (client.py:88) *)
| Routes               (* a CMD_ROUTES message is dispatched by the mux *)
| HostList             (* a CMD_HOST_LIST message is dispatched by the mux *)
| FwStart              (* FirewallClient.start begins writing ROUTES... to the helper (client.py:412) *)
| FwStarted            (* the helper answered STARTED and is alive: start() returned (client.py:452-455) *)
| FwHost               (* FirewallClient.sethostip wrote a HOST line (client.py:460) *)
| NotifyReady          (* sd_notify READY=1 attempted (client.py:769) *)
| MainEnd (e : exn)    (* _main left by exception e *)
| FwClose              (* FirewallClient.done closes the helper channel (client.py:464) *)
| NotifyStop           (* sd_notify STOPPING=1 attempted (client.py:1176) *)
| DaemonCleanup        (* daemon_cleanup() unlinks the pidfile (client.py:113) *)
| Exit (e : exn).      (* client.main left by exception e *)

(* "wrong or missing handshake" is visible as _main ending with this Fatal *)
Definition SyncBad : event := MainEnd (EFatal FBadSync).

(* ------------------------------------------------------------------ *)
(* The environment script                                              *)

(* what the helper side does during FirewallClient.start (client.py:411-455) *)
Inductive start_script :=
| StWriteExn (e : exn)                    (* pfile.write/flush raises (helper gone: EPIPE, ^C ...) *)
| StReadExn (e : exn)                     (* pfile.readline raises (^C while waiting for STARTED ...) *)
| StReply (started : bool) (rv : option Z).  (* readline returned b'STARTED\n' or something else
                                                (b'' at EOF); p.poll() returns rv *)

(* malformed entries inside a CMD_HOST_LIST payload.  Since /repo commit ec1ce3a
   ("validate host-list entries in the client instead of asserting", findings
   F13/F19 of property C19) onhostlist skips them; before, an entry without a
   comma raised ValueError and a bad name tripped sethostip's assert, which ended
   the loop (and, as every exception, closed the helper channel). *)
Inductive hl_bad :=
| HlNone
| HlNoComma      (* an entry without b',' *)
| HlBadName.     (* a name with characters outside [-\w.] *)

(* what one (scripted) ssnet.runonce does, in order *)
Inductive act :=
| ARoutes (bad : bool)               (* CMD_ROUTES; bad = an unparsable line (matters with --auto-nets) *)
| AHostList (n : nat) (bad : hl_bad) (* CMD_HOST_LIST with n good entries, then maybe a bad one (skipped) *)
| ARaise (e : exn).                  (* an exception of any class raised inside runonce *)

Record iter := mkIter {
  it_dead : option Z;      (* check_ssh_alive: serverproc.poll() result (None = running);
                              in daemon mode Some _ = os.kill(pid, 0) raises OSError *)
  it_acts : list act
}.

Inductive wait_script :=
| WaitRv (rv : Z)          (* fw.p.wait() returns rv *)
| WaitExn (e : exn).       (* fw.p.wait() raises (^C) *)

Record script := mkScript {
  s_daemon : bool;
  s_auto_nets : bool;
  s_connect : option exn;        (* ssh.connect raises *)
  s_chunks : list bytes;         (* deliveries of the server's first bytes *)
  s_hs_end : option exn;         (* what a read past the last delivery does: None = b'' (EOF) *)
  s_poll0 : option Z;            (* serverproc.poll() after the handshake (client.py:649) *)
  s_daemonize : option exn;      (* os.open of the pidfile raises *)
  s_iters : list iter;
  s_start : start_script;
  s_ready : option exn;          (* raised inside the READY sendto *)
  s_close : option exn;          (* raised by pfile.close() *)
  s_wait : wait_script;
  s_stop : option exn;           (* raised inside the STOPPING sendto *)
  s_cleanup : option exn         (* raised by os.unlink(pidfile) *)
}.

(* ------------------------------------------------------------------ *)
(* Small pieces                                                        *)

Definition expected : bytes := client_sync.   (* client.py:625 *)

(* client.py:616-621 *)
Definition connect_exn (e : exn) : exn :=
  match e with
  | EOSError n => if n =? EPIPE then EFatal FConnect else e
  | _ => e
  end.

(* client.py:641-646 *)
Definition hs_exn (e : exn) : exn :=
  match e with
  | EOSError n => if n =? ECONNRESET then EFatal FReset else e
  | _ => e
  end.

(* client.py:79-85: `except PermissionError` (EACCES and EPERM map to it) *)
Definition daemonize_exn (e : exn) : exn :=
  match e with
  | EOSError n => if (n =? EACCES) || (n =? EPERM) then EFatal FPidfile else e
  | _ => e
  end.

(* sdnotify._notify: `except (OSError, IOError)` swallows; anything else propagates *)
Definition notify_exn (o : option exn) : option exn :=
  match o with
  | Some (EOSError _) => None
  | x => x
  end.

(* daemon_cleanup: ENOENT is swallowed *)
Definition cleanup_exn (o : option exn) : option exn :=
  match o with
  | Some (EOSError n) => if n =? ENOENT then None else o
  | x => x
  end.

(* Python truthiness of a returncode: `if rv:` *)
Definition truthy (rv : option Z) : bool :=
  match rv with
  | Some z => negb (Z.eqb z 0)
  | None => false
  end.

(* ------------------------------------------------------------------ *)
(* Handshake (client.py:625-646), on Wire's raw-read model.             *)

(* the bytes collected by the `while len(initstring) < len(expected)` loop *)
Definition hs_init (chunks : list bytes) : bytes :=
  let fuel := S (total_len chunks) in
  let c2 := skip_to_nul fuel (skip_to_nul fuel chunks) in
  fst (read_exact (S (length expected)) (lenN expected) c2).

Inductive hs_outcome :=
| HsDone (ok : bool)     (* the reads completed; ok = (initstring == expected) *)
| HsExn (e : exn).

(* A read returns b'' only at the end of the deliveries, and from then on every
   read does; so some read hit the end iff fewer than 12 bytes were collected.
   With s_hs_end = Some e that first read past the end raises e instead.
   (Deliveries are non-empty: a blocking read never returns b'' before EOF.) *)
Definition handshake (s : script) : hs_outcome :=
  let ok := fst (hs_run expected (s_chunks s)) in
  if lenN (hs_init (s_chunks s)) <? lenN expected then
    match s_hs_end s with
    | Some e => HsExn (hs_exn e)
    | None => HsDone ok
    end
  else HsDone ok.

(* ------------------------------------------------------------------ *)
(* serverready(): fw.start() then sdnotify (client.py:767-769)          *)

(* FirewallClient.start (client.py:411-455): write..., flush, readline, check, compare *)
Definition run_start (s : script) : list event * option exn :=
  match s_start s with
  | StWriteExn e => ([FwStart], Some e)
  | StReadExn e => ([FwStart], Some e)
  | StReply started rv =>
      if truthy rv then ([FwStart], Some (EFatal FHelperDied))
      else if started then ([FwStart; FwStarted], None)
      else ([FwStart], Some (EFatal FNotStarted))
  end.

Definition server_ready (s : script) : list event * option exn :=
  let '(ev, r) := run_start s in
  match r with
  | Some e => (ev, Some e)
  | None => (ev ++ [NotifyReady], notify_exn (s_ready s))
  end.

(* onhostlist (client.py, as repaired): invalid entries are logged and skipped *)
Definition hl_exn (b : hl_bad) : option exn := None.

(* One dispatched message / injected exception.  `armed` = mux.got_routes is
   still the onroutes callback (client.py:765); onroutes disarms it before
   calling serverready (client.py:762), and Mux.got_packet raises
   Exception('got CMD_ROUTES without got_routes?') when it is None (ssnet.py:418-422).
   With --auto-nets the payload is parsed first (client.py:739-753): an
   unparsable line raises ValueError before anything else happens. *)
Definition run_act (s : script) (armed : bool) (a : act)
  : list event * bool * option exn :=
  match a with
  | ARoutes bad =>
      if armed then
        if s_auto_nets s && bad then ([Routes], armed, Some (EOther CValueError))
        else let '(ev, r) := server_ready s in (Routes :: ev, false, r)
      else ([Routes], armed, Some (EOther CException))
  | AHostList n bad => (HostList :: repeat FwHost n, armed, hl_exn bad)
  | ARaise e => ([], armed, Some e)
  end.

Fixpoint run_acts (s : script) (armed : bool) (acts : list act)
  : list event * bool * option exn :=
  match acts with
  | [] => ([], armed, None)
  | a :: tl =>
      let '(ev, armed', r) := run_act s armed a in
      match r with
      | Some e => (ev, armed', Some e)
      | None => let '(ev', armed'', r') := run_acts s armed' tl in (ev ++ ev', armed'', r')
      end
  end.

(* The `while 1:` loop (client.py:808-812): check_ssh_alive, runonce.  None =
   the script ran out of iterations with the loop still running. *)
Fixpoint run_loop (s : script) (armed : bool) (iters : list iter)
  : list event * option exn :=
  match iters with
  | [] => ([], None)
  | it :: tl =>
      match it_dead it with
      | Some _ => ([], Some (EFatal FSshExited))
      | None =>
          let '(ev, armed', r) := run_acts s armed (it_acts it) in
          match r with
          | Some e => (ev, Some e)
          | None => let '(ev', r') := run_loop s armed' tl in (ev ++ ev', r')
          end
      end
  end.

(* after the script's last iteration the harness's runonce raises its sentinel
   (check_ssh_alive of that extra iteration sees a running ssh) *)
Definition loop_end (r : option exn) : exn :=
  match r with Some e => e | None => EStop end.

(* _main (client.py:591-812): never returns normally *)
Definition main_body (s : script) : list event * exn :=
  match s_connect s with
  | Some e => ([Upload], connect_exn e)
  | None =>
    match handshake s with
    | HsExn e => ([Upload], e)
    | HsDone ok =>
      match s_poll0 s with
      | Some _ => ([Upload], EFatal FServerDied)          (* checked BEFORE the sync string *)
      | None =>
        if negb ok then ([Upload], EFatal FBadSync)
        else
          if s_daemon s then
            match s_daemonize s with
            | Some e => ([Upload; SyncOk], daemonize_exn e)
            | None =>
                let '(ev, r) := run_loop s true (s_iters s) in
                (Upload :: SyncOk :: Daemonize :: ev, loop_end r)
            end
          else
            let '(ev, r) := run_loop s true (s_iters s) in
            (Upload :: SyncOk :: ev, loop_end r)
      end
    end
  end.

(* inner `finally: if daemon: daemon_cleanup()` (client.py:1178-1180);
   `cur` is the exception in flight when the block is entered *)
Definition inner_finally (s : script) (cur : exn) : list event :=
  if s_daemon s then
    match cleanup_exn (s_cleanup s) with
    | Some e => [DaemonCleanup; Exit e]
    | None => [DaemonCleanup; Exit cur]
    end
  else [Exit cur].

(* fw.p.wait() in fw.done(); in daemon mode main sets fw.p.returncode = 0
   first (client.py:1172-1174) and Popen.wait returns it at once *)
Definition done_wait (s : script) : wait_script :=
  if s_daemon s then WaitRv 0%Z else s_wait s.

(* outer finally body (client.py:1171-1176): fw.done(); sdnotify.send(stop) *)
Definition finally_part (s : script) (e : exn) : list event :=
  FwClose ::
  match s_close s with
  | Some e1 => inner_finally s e1
  | None =>
    match done_wait s with
    | WaitExn e2 => inner_finally s e2
    | WaitRv rv =>
        if negb (Z.eqb rv 0) then inner_finally s (EFatal FCleanup)
        else NotifyStop ::
             match notify_exn (s_stop s) with
             | Some e3 => inner_finally s e3
             | None => inner_finally s e
             end
    end
  end.

(* client.main from the `try` on (client.py:1165-1180) *)
Definition run (s : script) : list event :=
  let '(ev, e) := main_body s in
  MainEnter :: ev ++ MainEnd e :: finally_part s e.

(* ------------------------------------------------------------------ *)
(* Event recognisers (used by the statements)                          *)

Definition is_SyncOk (e : event) : bool := match e with SyncOk => true | _ => false end.
Definition is_Routes (e : event) : bool := match e with Routes => true | _ => false end.
Definition is_FwStart (e : event) : bool := match e with FwStart => true | _ => false end.
Definition is_FwStarted (e : event) : bool := match e with FwStarted => true | _ => false end.
Definition is_FwHost (e : event) : bool := match e with FwHost => true | _ => false end.
Definition is_NotifyReady (e : event) : bool := match e with NotifyReady => true | _ => false end.
Definition is_FwClose (e : event) : bool := match e with FwClose => true | _ => false end.
Definition is_NotifyStop (e : event) : bool := match e with NotifyStop => true | _ => false end.
Definition is_MainEnd (e : event) : bool := match e with MainEnd _ => true | _ => false end.
Definition is_Exit (e : event) : bool := match e with Exit _ => true | _ => false end.
(* anything the client says to the helper over the control channel *)
Definition is_helper_io (e : event) : bool :=
  match e with FwStart | FwStarted | FwHost | FwClose => true | _ => false end.

Definition count (p : event -> bool) (tr : list event) : nat := length (filter p tr).

(* every q-event of the trace has a p-event somewhere before it *)
Fixpoint prec (p q : event -> bool) (seen : bool) (tr : list event) : bool :=
  match tr with
  | [] => true
  | e :: tl => (negb (q e) || seen) && prec p q (seen || p e) tl
  end.

(* the done() call succeeded: the only way STOPPING=1 is sent *)
Definition done_ok (s : script) : bool :=
  match s_close s with
  | Some _ => false
  | None => match done_wait s with
            | WaitRv rv => Z.eqb rv 0
            | WaitExn _ => false
            end
  end.

(* the handshake phase went through: ssh.connect returned, the reads completed
   with the right string, and ssh was still running *)
Definition sync_ok (s : script) : bool :=
  match s_connect s with
  | Some _ => false
  | None => match handshake s with
            | HsDone true => match s_poll0 s with None => true | Some _ => false end
            | _ => false
            end
  end.
