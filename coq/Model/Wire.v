(* Model/Wire.v — executable model of the tunnel framing in sshuttle/ssnet.py
   (Mux.send / Mux.flush / Mux.fill+handle) and of the client's start-up
   handshake in sshuttle/client.py (_main, "expected = b'SSHUTTLE0001'").
   Definitions only; proofs live in Proofs/Wire_lemmas.v. *)
From Coq Require Import List NArith Ascii Bool.
From SV Require Import Lib.Bytes.
Import ListNotations.
Local Open Scope N_scope.

(* ------------------------------------------------------------------ *)
(* Frames                                                              *)

Record frame := mkFrame { f_ch : N; f_cmd : N; f_data : bytes }.

Definition HDR_LEN : N := 8.

Definition chS : ascii := "S"%char.

Definition header (ch cmd len : N) : bytes :=
  chS :: chS :: put_u16 ch ++ put_u16 cmd ++ put_u16 len.

(* Mux.send: assert len(data) <= 65535; struct.pack('!ccHHH', ...) raises
   struct.error when channel or cmd do not fit 16 bits. *)
Inductive enc_result :=
| EncOk (b : bytes)
| EncAssertLen
| EncStructError.

Definition encode (f : frame) : enc_result :=
  if 65535 <? lenN (f_data f) then EncAssertLen
  else if (65535 <? f_ch f) || (65535 <? f_cmd f) then EncStructError
  else EncOk (header (f_ch f) (f_cmd f) (lenN (f_data f)) ++ f_data f).

Definition frame_ok (f : frame) : bool :=
  (lenN (f_data f) <=? 65535) && (f_ch f <=? 65535) && (f_cmd f <=? 65535).

(* ------------------------------------------------------------------ *)
(* Receiver: Mux.handle's reassembly loop                              *)

Inductive rx_status := RxOk | RxAssert | RxFuel.

(* header fields of the first 8 bytes, with the result of the two asserts *)
Definition parse_hdr (b : bytes) : option (bool * N * N * N) :=
  match b with
  | s1 :: s2 :: c1 :: c2 :: m1 :: m2 :: l1 :: l2 :: _ =>
      Some (Ascii.eqb s1 chS && Ascii.eqb s2 chS,
            get_u16 c1 c2, get_u16 m1 m2, get_u16 l1 l2)
  | _ => None
  end.

(* The loop of Mux.handle after fill():
     while 1:
       if len(inbuf) >= (want or HDR_LEN): unpack, assert, want = datalen+HDR_LEN
       if want and len(inbuf) >= want: cut frame, want = 0, got_packet(...)
       else: break                                                         *)
Fixpoint rx_loop (fuel : nat) (inbuf : bytes) (want : N)
  : list frame * (bytes * N) * rx_status :=
  match fuel with
  | O => ([], (inbuf, want), RxFuel)
  | S fuel' =>
    let need := if want =? 0 then HDR_LEN else want in
    if need <=? lenN inbuf then
      match parse_hdr inbuf with
      | None => ([], (inbuf, want), RxOk)   (* unreachable: need >= 8 *)
      | Some (ok, ch, cmd, dl) =>
        if negb ok then ([], (inbuf, want), RxAssert)
        else
          let want' := dl + HDR_LEN in
          if want' <=? lenN inbuf then
            let data := dropN HDR_LEN (takeN want' inbuf) in
            let '(fs, st, s) := rx_loop fuel' (dropN want' inbuf) 0 in
            (mkFrame ch cmd data :: fs, st, s)
          else ([], (inbuf, want'), RxOk)
      end
    else ([], (inbuf, want), RxOk)
  end.

(* One Mux.handle() call after fill() appended `chunk` to inbuf. *)
Definition rx_feed (st : bytes * N) (chunk : bytes)
  : list frame * (bytes * N) * rx_status :=
  let inbuf := fst st ++ chunk in
  rx_loop (S (length inbuf)) inbuf (snd st).

(* Feeding a list of chunks; an assertion failure kills the process, so the
   remaining chunks are never looked at. *)
Fixpoint rx_feed_all (st : bytes * N) (chunks : list bytes)
  : list frame * (bytes * N) * rx_status :=
  match chunks with
  | [] => ([], st, RxOk)
  | c :: cs =>
    let '(fs, st', s) := rx_feed st c in
    match s with
    | RxOk => let '(fs', st'', s') := rx_feed_all st' cs in (fs ++ fs', st'', s')
    | _ => (fs, st', s)
    end
  end.

(* Stream-level specification: the frames a byte string denotes. *)
Fixpoint decode_fuel (fuel : nat) (s : bytes) : list frame * bytes * rx_status :=
  match fuel with
  | O => ([], s, RxFuel)
  | S fuel' =>
    match parse_hdr s with
    | None => ([], s, RxOk)
    | Some (ok, ch, cmd, dl) =>
      if negb ok then ([], s, RxAssert)
      else
        let want := dl + HDR_LEN in
        if want <=? lenN s then
          let data := dropN HDR_LEN (takeN want s) in
          let '(fs, r, st) := decode_fuel fuel' (dropN want s) in
          (mkFrame ch cmd data :: fs, r, st)
        else ([], s, RxOk)
    end
  end.

Definition decode (s : bytes) : list frame * bytes * rx_status :=
  decode_fuel (S (length s)) s.

(* the value of the cached `want` for a given residual buffer *)
Definition want_of (r : bytes) : N :=
  match parse_hdr r with
  | Some (true, _, _, dl) => dl + HDR_LEN
  | _ => 0
  end.

(* ------------------------------------------------------------------ *)
(* Sender: Mux.send appends, Mux.flush writes outbuf[0] once           *)

Inductive tx_op :=
| TxSend (f : frame)
| TxFlush (accepted : option N).   (* None = EAGAIN; Some k = OS takes <= k bytes *)

(* flush():
     if outbuf and outbuf[0]: wrote = write(outbuf[0]); if wrote: outbuf[0] = outbuf[0][wrote:]
     while outbuf and not outbuf[0]: outbuf[0:1] = []                      *)
Fixpoint drop_empty (out : list bytes) : list bytes :=
  match out with
  | [] :: tl => drop_empty tl
  | _ => out
  end.

Definition tx_flush (k : option N) (out : list bytes) : list bytes * bytes :=
  match out with
  | (a :: b0) :: tl =>
    let b := a :: b0 in
    match k with
    | None => (drop_empty out, [])
    | Some k => let w := N.min k (lenN b) in
                (drop_empty (dropN w b :: tl), takeN w b)
    end
  | _ => (drop_empty out, [])
  end.

(* state: (outbuf, bytes written to the pipe so far, frames accepted so far) *)
Definition tx_step (st : list bytes * bytes * list frame) (op : tx_op)
  : list bytes * bytes * list frame :=
  let '(out, wire, sent) := st in
  match op with
  | TxSend f =>
    match encode f with
    | EncOk b => (out ++ [b], wire, sent ++ [f])
    | _ => st                              (* the call raised; nothing queued *)
    end
  | TxFlush k => let '(out', w) := tx_flush k out in (out', wire ++ w, sent)
  end.

Definition tx_run (ops : list tx_op) : list bytes * bytes * list frame :=
  fold_left tx_step ops ([], [], []).

Fixpoint encode_all (fs : list frame) : bytes :=
  match fs with
  | [] => []
  | f :: tl => match encode f with EncOk b => b ++ encode_all tl | _ => encode_all tl end
  end.

(* ------------------------------------------------------------------ *)
(* Handshake (client.py _main).  The server's bytes arrive as a list of
   non-empty deliveries; a blocking read(n) on the unbuffered socket file
   returns between 1 and n bytes of the current delivery, b'' at EOF.      *)

Definition NUL : ascii := zero.

(* blocking raw read(n): returns (data, remaining deliveries) *)
Definition raw_read (n : N) (chunks : list bytes) : bytes * list bytes :=
  match chunks with
  | [] => ([], [])
  | c :: cs =>
    if lenN c <=? n then (c, cs) else (takeN n c, dropN n c :: cs)
  end.

(* while v and v != b'\0': v = rfile.read(1)  — fuel counts bytes *)
Fixpoint skip_to_nul (fuel : nat) (chunks : list bytes) : list bytes :=
  match fuel with
  | O => chunks
  | S fuel' =>
    match raw_read 1 chunks with
    | ([], rest) => rest                         (* EOF *)
    | (v :: _, rest) => if Ascii.eqb v NUL then rest else skip_to_nul fuel' rest
    end
  end.

(* read exactly n bytes unless EOF comes first (the repaired client loop) *)
Fixpoint read_exact (fuel : nat) (n : N) (chunks : list bytes) : bytes * list bytes :=
  match fuel with
  | O => ([], chunks)
  | S fuel' =>
    if n =? 0 then ([], chunks) else
    match raw_read n chunks with
    | ([], rest) => ([], rest)
    | (d, rest) =>
      let '(d', rest') := read_exact fuel' (n - lenN d) rest in (d ++ d', rest')
    end
  end.

(* a single read(n) — the behaviour of the client before the repair *)
Definition read_once (n : N) (chunks : list bytes) : bytes * list bytes :=
  raw_read n chunks.

Definition total_len (chunks : list bytes) : nat := length (concat chunks).

Definition hs_run (expected : bytes) (chunks : list bytes) : bool * list bytes :=
  let fuel := S (total_len chunks) in
  let c1 := skip_to_nul fuel chunks in
  let c2 := skip_to_nul fuel c1 in
  let '(init, rest) := read_exact (S (length expected)) (lenN expected) c2 in
  (bytes_eqb init expected, rest).

Definition hs_run_single_read (expected : bytes) (chunks : list bytes) : bool * list bytes :=
  let fuel := S (total_len chunks) in
  let c1 := skip_to_nul fuel chunks in
  let c2 := skip_to_nul fuel c1 in
  let '(init, rest) := read_once (lenN expected) c2 in
  (bytes_eqb init expected, rest).

(* stream-level specification of the handshake *)
Fixpoint after_nul (s : bytes) : bytes :=
  match s with
  | [] => []
  | c :: tl => if Ascii.eqb c NUL then tl else after_nul tl
  end.

Definition hs_spec (expected : bytes) (s : bytes) : bool * bytes :=
  let s2 := after_nul (after_nul s) in
  (bytes_eqb (takeN (lenN expected) s2) expected, dropN (lenN expected) s2).
