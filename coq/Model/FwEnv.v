(* Model/FwEnv.v — firewall.main (sshuttle/firewall.py:201-430) with the
   ENVIRONMENT of everything in it that is not a packet-filter command:

     * how the control channel ends: readline returns b'' (EOF) or raises
       (firewall.py:226-237: `except IOError` makes the read answer None —
       a socketpair whose peer died with unread data answers ECONNRESET);
     * flush_systemd_dns_cache() in the try block (357-358, unguarded) and in
       the finally block (422-430, guarded by `except Exception`);
     * the write / flush of STARTED (360-365: `except IOError: return`);
     * rewrite_etc_hosts for a HOST line (374-378, unguarded) and at restore
       (412-420, guarded by `except Exception`).

   `session_e` is `FwLife.session` with these outcomes as parameters.
   Executable definitions only; proofs live in Proofs/FwEnv_lemmas.v:
   none of these outcomes changes a packet-filter command or the final
   packet-filter state, so every exit theorem about `session` carries over. *)
From Coq Require Import List NArith ZArith Bool.
From SV Require Import Lib.Bytes Model.FwLife Model.FwLog.
Import ListNotations.

(* what the helper's stdin answers once the lines before the cut are consumed *)
Inductive chan_end :=
| CEof                       (* readline() = b'' *)
| CErr (e : ecls).           (* readline() raises an exception of class e *)

(* firewall.py:234 `except IOError` (IOError is OSError) *)
Definition read_swallows (e : ecls) : bool := subclass e COSError.
(* firewall.py:363 `except IOError` *)
Definition started_swallows (e : ecls) : bool := subclass e COSError.

Record wenv := mkWenv {
  w_end : chan_end;
  w_flush_setup : option ecls;     (* flush_systemd_dns_cache raises after set-up, before STARTED *)
  w_started : option ecls;         (* stdout.write(b'STARTED\n') / stdout.flush() raises *)
  w_hosts_fail : option nat;       (* rewrite_etc_hosts raises for the k-th HOST line (0-based) *)
  w_hosts_restore_fail : bool;     (* rewrite_etc_hosts({}) at restore raises *)
  w_flush_teardown : bool          (* flush_systemd_dns_cache raises in the finally block *)
}.

Definition wenv_none : wenv := mkWenv CEof None None None false false.

(* does the end of the channel escape from _read_next_string_line? *)
Definition end_escapes (w : wenv) : bool :=
  match w_end w with CEof => false | CErr e => negb (read_swallows e) end.

(* the wait loop (firewall.py:370-381) -> (entries put into hostmap, how the loop is left).
   hostmap[name] = ip is assigned BEFORE rewrite_etc_hosts runs (376-378): a failing rewrite
   leaves a non-empty map, so the restore rewrites the file. *)
Fixpoint wait_loop_e (fail : option nat) (esc : bool) (i : nat) (lines : list bool) : nat * outcome :=
  match lines with
  | [] => (O, if esc then ExitCrash else ExitReturn)
  | true :: ls =>
      if match fail with Some k => Nat.eqb k i | None => false end then (1, ExitCrash)
      else let '(h, oc) := wait_loop_e fail esc (S i) ls in (S h, oc)
  | false :: _ => (O, ExitFatal)
  end.

Definition session_e (c : cfg) (cut : nat) (faults : faultfn) (w : wenv) (s0 : kstate) : result :=
  let py0 := py_init c in
  if Nat.ltb cut (c_nlines c) then
    (* firewall.py:239-314, before `try:`; 242-244: an immediate end is a plain return *)
    mkRes (if end_escapes w then ExitCrash else match cut with O => ExitReturn | _ => ExitFatal end)
          s0 [] 0 0 py0
  else
    let tail := firstn (cut - c_nlines c) (c_tail c) in
    let '(ok6, py1, n1, s1, ev1) :=
      if fc_on (c_v6 c) then
        if udp_refused c then (false, py0, O, s0, [EMark (MSetup V6)])
        else let '(ok, py, n, s, ev) := do_setup faults c V6 py0 O s0 in (ok, py, n, s, EMark (MSetup V6) :: ev)
      else (true, py0, O, s0, []) in
    let '(ok4, py2, n2, s2, ev2) :=
      if ok6 && fc_on (c_v4 c) then
        if udp_refused c then (false, py1, n1, s1, [EMark (MSetup V4)])
        else let '(ok, py, n, s, ev) := do_setup faults c V4 py1 n1 s1 in (ok, py, n, s, EMark (MSetup V4) :: ev)
      else (ok6, py1, n1, s1, []) in
    (* 357-381 *)
    let '(hosts, oc, ev3) :=
      if ok4 then
        match w_flush_setup w with
        | Some _ => (O, ExitCrash, [])
        | None =>
            match w_started w with
            | Some e => (O, if started_swallows e then ExitReturn else ExitCrash, [EMark MStarted])
            | None => let '(h, o) := wait_loop_e (w_hosts_fail w) (end_escapes w) O tail in (h, o, [EMark MStarted])
            end
        end
      else (O, if udp_refused c then ExitCrash else ExitFatal, []) in
    (* finally: every part is guarded by its own try/except Exception *)
    let '(_, py3, n3, s3, ev4) :=
      if fc_on (c_v6 c) then
        if udp_refused c then (false, py2, n2, s2, [EMark (MRestore V6)])
        else let '(ok, py, n, s, ev) := do_restore faults c V6 py2 n2 s2 in (ok, py, n, s, EMark (MRestore V6) :: ev)
      else (true, py2, n2, s2, []) in
    let '(_, py4, n4, s4, ev5) :=
      if fc_on (c_v4 c) then
        if udp_refused c then (false, py3, n3, s3, [EMark (MRestore V4)])
        else let '(ok, py, n, s, ev) := do_restore faults c V4 py3 n3 s3 in (ok, py, n, s, EMark (MRestore V4) :: ev)
      else (true, py3, n3, s3, []) in
    (* 412-430: w_hosts_restore_fail and w_flush_teardown are swallowed by their guards *)
    let ev6 := match hosts with O => [] | _ => [EMark MHosts] end in
    mkRes oc s4 (ev1 ++ ev2 ++ ev3 ++ ev4 ++ ev5 ++ ev6) n4 n2 py4.

(* the packet-filter commands among the events *)
Definition is_cmd (e : event) : bool := match e with ECmd _ _ _ => true | EMark _ => false end.
Definition cmds_of (ev : list event) : list event := filter is_cmd ev.

(* ------------------------------------------------------------------ *)
(* AS FOUND (finding F120): a signal handler that raises.               *)
(* firewall_exit (firewall.py:77-96) relays SIGINT/SIGTERM with         *)
(* os.kill(sshuttle_pid, SIGINT); when that process no longer exists     *)
(* os.kill raises ProcessLookupError, and an exception of a Python       *)
(* signal handler is raised in the main flow at whatever statement is    *)
(* executing.  `ab n` = the exception arrives while the helper waits for *)
(* the n-th external command of the session: the command runs, its       *)
(* result is never looked at, whatever the enclosing function still had  *)
(* to do is skipped — nonfatal() (linux.py:6-10) catches only Fatal.     *)
(* The REPAIRED handler never raises: the session is `session` itself.   *)
(* iptables / nft methods only (pf's restore is not modelled here).      *)

Definition run_sstep_a (ab : nat -> bool) (faults : faultfn) (x : sstep) (n : nat) (s : kstate) : runres :=
  let '(ok, n', s', ev) := run_sstep faults x n s in (ok && negb (ab n), n', s', ev).

Fixpoint run_ss_a (ab : nat -> bool) (faults : faultfn) (xs : list sstep) (n : nat) (s : kstate) : runres :=
  match xs with
  | [] => (true, n, s, [])
  | x :: xs' =>
      let '(ok, n1, s1, ev1) := run_sstep_a ab faults x n s in
      if ok then let '(ok2, n2, s2, ev2) := run_ss_a ab faults xs' n1 s1 in (ok2, n2, s2, ev1 ++ ev2)
      else (false, n1, s1, ev1)
  end.

Definition run_step_a (ab : nat -> bool) (faults : faultfn) (x : step) (n : nat) (s : kstate) : runres :=
  match x with
  | Simple y => run_sstep_a ab faults y n s
  | IfChain f t name body =>
      let c := Ipt f t IList in
      let '(ok, out, _, s') := issue faults c n s in
      if ok && negb (ab n) then
        if chain_in_listing name out
        then let '(ok2, n2, s2, ev2) := run_ss_a ab faults body (S n) s' in (ok2, n2, s2, ECmd c true s' :: ev2)
        else (true, S n, s', [ECmd c true s'])
      else (false, S n, s', [ECmd c ok s'])
  end.

Fixpoint run_a (ab : nat -> bool) (faults : faultfn) (xs : list step) (n : nat) (s : kstate) : runres :=
  match xs with
  | [] => (true, n, s, [])
  | x :: xs' =>
      let '(ok, n1, s1, ev1) := run_step_a ab faults x n s in
      if ok then let '(ok2, n2, s2, ev2) := run_a ab faults xs' n1 s1 in (ok2, n2, s2, ev1 ++ ev2)
      else (false, n1, s1, ev1)
  end.

Definition do_restore_a (ab : nat -> bool) (faults : faultfn) (c : cfg) (f : fam) (py : pyctx) (n : nat) (s : kstate) : pfres :=
  match c_method c with
  | MPf _ => do_restore faults c f py n s
  | _ => let '(ok, n', s', ev) := run_a ab faults (restore_prog c f) n s in (ok, py, n', s', ev)
  end.

(* firewall.main with a raising signal handler during the finally block (set-up and wait loop as in `session`;
   each family's restore sits in its own try/except Exception, so the exception ends one family's restore) *)
Definition session_sig_asfound (c : cfg) (cut : nat) (faults : faultfn) (ab : nat -> bool) (s0 : kstate) : result :=
  let py0 := py_init c in
  if Nat.ltb cut (c_nlines c) then
    mkRes (match cut with O => ExitReturn | _ => ExitFatal end) s0 [] 0 0 py0
  else
    let tail := firstn (cut - c_nlines c) (c_tail c) in
    let '(ok6, py1, n1, s1, ev1) :=
      if fc_on (c_v6 c) then
        if udp_refused c then (false, py0, O, s0, [EMark (MSetup V6)])
        else let '(ok, py, n, s, ev) := do_setup faults c V6 py0 O s0 in (ok, py, n, s, EMark (MSetup V6) :: ev)
      else (true, py0, O, s0, []) in
    let '(ok4, py2, n2, s2, ev2) :=
      if ok6 && fc_on (c_v4 c) then
        if udp_refused c then (false, py1, n1, s1, [EMark (MSetup V4)])
        else let '(ok, py, n, s, ev) := do_setup faults c V4 py1 n1 s1 in (ok, py, n, s, EMark (MSetup V4) :: ev)
      else (ok6, py1, n1, s1, []) in
    let '(hosts, loop_fatal) := if ok4 then wait_loop tail else (O, false) in
    let ev3 := if ok4 then [EMark MStarted] else [] in
    let '(_, py3, n3, s3, ev4) :=
      if fc_on (c_v6 c) then
        if udp_refused c then (false, py2, n2, s2, [EMark (MRestore V6)])
        else let '(ok, py, n, s, ev) := do_restore_a ab faults c V6 py2 n2 s2 in (ok, py, n, s, EMark (MRestore V6) :: ev)
      else (true, py2, n2, s2, []) in
    let '(_, py4, n4, s4, ev5) :=
      if fc_on (c_v4 c) then
        if udp_refused c then (false, py3, n3, s3, [EMark (MRestore V4)])
        else let '(ok, py, n, s, ev) := do_restore_a ab faults c V4 py3 n3 s3 in (ok, py, n, s, EMark (MRestore V4) :: ev)
      else (true, py3, n3, s3, []) in
    let ev6 := match hosts with O => [] | _ => [EMark MHosts] end in
    mkRes (if ok4 then (if loop_fatal then ExitFatal else ExitReturn)
           else if udp_refused c then ExitCrash else ExitFatal)
          s4 (ev1 ++ ev2 ++ ev3 ++ ev4 ++ ev5 ++ ev6) n4 n2 py4.
