(* Model/FwInit.v — sshuttle/client.py FirewallClient.__init__ (lines 208-390):
   the candidate command lines that may start the privileged helper (sudo / doas /
   direct), tried in order, and the READY dialogue that decides which of the
   started processes becomes "the helper".  A candidate's behaviour is a value:
   whether Popen succeeds, the lines it puts on the control channel (then end of
   file), and what poll() says right after the first line was read.
   Definitions only; proofs are in Proofs/FwInit_lemmas.v. *)
From Coq Require Import List NArith ZArith Ascii Bool.
From SV Require Import Lib.Bytes.
Import ListNotations.
Local Open Scope char_scope.

Record cand := mkCand {
  c_spawn : bool;            (* Popen(argv) succeeds (False: OSError, program absent / not executable) *)
  c_lines : list bytes;      (* what readline() returns, in order; afterwards b'' (end of file) *)
  c_rv : option Z            (* self.p.poll() after the first readline: None = still running *)
}.

Definition w_READY : bytes := ["R"; "E"; "A"; "D"; "Y"].

(* line[0:5] == b'READY' *)
Definition is_ready (l : bytes) : bool := bytes_eqb (firstn 5 l) w_READY.

(* client.py:368-374   for i in range(100): if line[0:5] == b'READY': break; line = readline() *)
Fixpoint scan_ready (fuel : nat) (line : bytes) (rest : list bytes) : bytes :=
  match fuel with
  | O => line
  | S f =>
    if is_ready line then line
    else match rest with
         | [] => scan_ready f [] []
         | l :: r => scan_ready f l r
         end
  end.

(* line[6:-1] : the method name the helper announces *)
Definition method_of (line : bytes) : bytes := removelast (skipn 6 line).

(* one pass of the loop body (client.py:281-387): Some method = this candidate becomes the helper *)
Definition cand_result (c : cand) : option bytes :=
  if negb (c_spawn c) then None                                   (* except OSError: continue *)
  else
    let early := match c_rv c with Some rv => negb (Z.eqb rv 0) | None => false end in
    if early then None                                            (* "Process exited too early": continue *)
    else
      let line := match c_lines c with [] => scan_ready 100 [] [] | l :: r => scan_ready 100 l r end in
      if is_ready line then Some (method_of line) else None.      (* "Expected READY": continue *)

(* the for loop over argv_tries; None = Fatal("All attempts to run firewall client ... failed") *)
Fixpoint fw_init_from (i : nat) (cs : list cand) : option (nat * bytes) :=
  match cs with
  | [] => None
  | c :: t => match cand_result c with
              | Some m => Some (i, m)
              | None => fw_init_from (S i) t
              end
  end.
Definition fw_init (cs : list cand) : option (nat * bytes) := fw_init_from 0 cs.

(* ---- which command lines are tried, in which order (client.py:224-273) ---- *)
Inductive prefix_kind := PSudo | PDoas | PDirect.

Definition try_order (admin doas_found sudo_found openbsd : bool) : list prefix_kind :=
  if admin then [PDirect]
  else if (doas_found && negb sudo_found) || openbsd then [PDoas; PSudo; PDirect]
  else [PSudo; PDoas; PDirect].
