(* Model/Startup.v — C15: sshuttle start-up, from the parsed options to the
   hand-over of the interception plan (fw.setup) and the call of _main.
   Executable definitions only; proofs are in Proofs/Startup_lemmas.v.

   Mirrors /repo/sshuttle/client.py `main` (lines 815-1169), the listen-option
   post-processing of /repo/sshuttle/cmdline.py (lines 84-98), MultiListener.bind
   (client.py 167-194), BaseMethod.assert_features (methods/__init__.py 86-92)
   and the feature sets of the nat/nft/tproxy/pf/ipfw methods.

   One generic function `startup_gen fx` is parameterised by which repairs
   (pending_fixes/F1 F2 F14 F15 F21 F131) are applied:
     startup_full          := startup_gen all_fixed     (the REPAIRED code)
     startup_asfound_full  := startup_gen no_fixes      (the code as found)
   over a kernel that answers every bind() with success, EADDRINUSE (`env`) or
   another errno (`renv`: EADDRNOTAVAIL for an address that is not local, EACCES
   for a privileged port, EINVAL ...); `startup` / `startup_asfound` are the same
   over kernels that never refuse (`no_refusal`).
   Python exceptions are values: Fatal (helpers.Fatal, an explanatory message),
   OsError errno (a raw OSError of the socket layer), Crash cls (anything else). *)
From Coq Require Import List NArith Ascii Bool String.
From SV Require Import Lib.Bytes.
Import ListNotations.
Local Open Scope N_scope.

(* ---------- data ---------- *)
Inductive fam := V4 | V6.                       (* socket.AF_INET | socket.AF_INET6 *)
Definition fam_eqb (a b : fam) : bool :=
  match a, b with V4, V4 => true | V6, V6 => true | _, _ => false end.
Inductive proto := TCP | UDP.                   (* SOCK_STREAM | SOCK_DGRAM *)

(* methods/__init__.py:46-56 Features() *)
Record features := {
  f_loopback : bool;   (* loopback_proxy_port *)
  f_ipv4 : bool; f_ipv6 : bool; f_udp : bool; f_dns : bool; f_user : bool; f_group : bool }.

(* get_supported_features of the five documented non-auto methods
   (methods/nat.py:121, nft.py:105, tproxy.py:54, pf.py:419, ipfw.py:117) *)
Definition feat_base  := {| f_loopback := true; f_ipv4 := true; f_ipv6 := false; f_udp := false;
                            f_dns := true; f_user := false; f_group := false |}.
Definition feat_nat    := {| f_loopback := true; f_ipv4 := true; f_ipv6 := true; f_udp := false;
                            f_dns := true; f_user := true; f_group := true |}.
Definition feat_nft    := {| f_loopback := true; f_ipv4 := true; f_ipv6 := true; f_udp := false;
                            f_dns := true; f_user := false; f_group := false |}.
Definition feat_tproxy := {| f_loopback := true; f_ipv4 := true; f_ipv6 := true; f_udp := true;
                            f_dns := true; f_user := false; f_group := false |}.
Definition feat_pf     := feat_nft.
Definition feat_ipfw   := feat_base.
(* names are bytes (`Eval compute` keeps Coq's `string` type out of the extracted code) *)
Definition bn (s : string) : bytes := bytes_of_string s.
Definition method_features : list (bytes * features) := Eval compute in
  [(bn "nat", feat_nat); (bn "nft", feat_nft); (bn "tproxy", feat_tproxy); (bn "pf", feat_pf);
   (bn "ipfw", feat_ipfw)].

(* docs/manpage.rst:52  `.. option:: --method <auto|nat|nft|tproxy|pf|ipfw>`
   Not (yet) produced by harness/gen_consts.py; harness/props/c15.py compares
   this list with the manual's text on every run. *)
Definition documented_methods : list bytes := Eval compute in
  map bn ["auto"; "nat"; "nft"; "tproxy"; "pf"; "ipfw"]%string.
(* options.method_choices itself is regenerated from /repo: Model/StartupMethods.v *)
Definition accepted_by (choices : list bytes) (m : bytes) : bool := existsb (bytes_eqb m) choices.

(* (family, ip, width, fport, lport) — options.parse_subnetport *)
Record subnet := { sn_fam : fam; sn_ip : bytes; sn_width : N; sn_fport : N; sn_lport : N }.
Definition ns := (fam * bytes)%type.            (* helpers.family_ip_tuple *)
Definition addr := (bytes * N)%type.            (* (ip, port) *)

(* listenip_v6 / listenip_v4 as passed to client.main:
   None | "auto" | (ip, port) — cmdline.py:84-98 *)
Inductive lspec := LNone | LAuto | LAddr (ip : bytes) (port : N).
(* --user / --group: absent | name known to getpwnam/getgrnam (-> id) | KeyError *)
Inductive idspec := IdNone | IdExists (id : N) | IdMissing.

Record cfg := {
  c_feat : features;          (* fw.method.get_supported_features() *)
  c_remote : bool;            (* bool(remotename) *)
  c_listen6 : lspec; c_listen4 : lspec;
  c_dns : bool;               (* --dns *)
  c_resolv : list ns;         (* resolvconf_nameservers(True) *)
  c_ns_hosts : list ns;       (* --ns-hosts *)
  c_to_ns : option addr;      (* --to-ns, (family,) dropped: to_nameserver[1:] *)
  c_includes : list subnet; c_excludes : list subnet;
  c_auto_nets : bool;
  c_user : idspec; c_group : idspec }.

(* environment: bind((ip, port)) on a socket of this protocol and family fails
   with EADDRINUSE. *)
Definition env := proto -> fam -> bytes -> N -> bool.
(* ... or is refused with another errno (Some errno): EADDRNOTAVAIL for an address
   that is not one of the machine's, EACCES for a port the process may not use,
   EINVAL ...  A refusal is decided before the port is looked at, so it takes
   precedence over `env`. *)
Definition renv := proto -> fam -> bytes -> N -> option N.
Definition no_refusal : renv := fun _ _ _ _ => None.
(* bind() does not succeed *)
Definition bind_fails (e : env) (rf : renv) : env :=
  fun pr f ip port => match rf pr f ip port with Some _ => true | None => e pr f ip port end.

(* which pending repairs are applied *)
Record fixes := { fx_F1 : bool; fx_F2 : bool; fx_F14 : bool; fx_F15 : bool; fx_F21 : bool; fx_F131 : bool }.
Definition all_fixed := {| fx_F1 := true; fx_F2 := true; fx_F14 := true; fx_F15 := true; fx_F21 := true; fx_F131 := true |}.
Definition no_fixes := {| fx_F1 := false; fx_F2 := false; fx_F14 := false; fx_F15 := false; fx_F21 := false; fx_F131 := false |}.

Inductive featkey := KUdp | KDns | KIpv6 | KIpv4 | KUser | KGroup.
Inductive fatal :=
  | FNoRemote                 (* client.py:823 *)
  | FIpv6Unsupported          (* :911 *)
  | FUserMissing              (* :921 *)
  | FGroupMissing             (* :930 *)
  | FDnsAllV6                 (* :953 *)
  | FFeature (k : featkey)    (* methods/__init__.py:90 *)
  | FPortsBusy                (* F21 repair, replaces `raise last_e` at :1078 *)
  | FDnsPortsBusy             (* F21 repair, replaces `raise last_e` at :1124 *)
  | FV6SubnetsNoListen        (* :1136 *)
  | FV6NsNoListen             (* :1142 *)
  | FV4SubnetsNoListen        (* :1146 *)
  | FV4NsNoListen             (* :1150 *)
  | FV6Unavailable            (* MultiListener.bind :177-186, IPv6 bind -> EADDRNOTAVAIL ("... Run sshuttle with '--disable-ipv6'") *)
  | FBindRefused              (* F131 repair, replaces `raise e` at :1111 (TCP/UDP redirector search) *)
  | FDnsBindRefused.          (* F131 repair, replaces `raise e` at :1157 (DNS listener search) *)
Inductive pyexn := AssertionError | UnboundLocalError | TypeError.

(* what fw.setup (client.py:1160) and _main (:1166) receive, plus the addresses
   the listeners handed to _main are bound to *)
Record plan := {
  p_includes : list subnet; p_excludes : list subnet; p_nslist : list ns;
  p_rport6 : N; p_rport4 : N; p_dport6 : N; p_dport4 : N;
  p_udp : bool; p_user : option N; p_group : option N;
  p_to_ns : option addr; p_auto_nets : bool;
  p_tcp6 : option addr; p_tcp4 : option addr;       (* tcp_listener.v6 / .v4 *)
  p_udp6 : option addr; p_udp4 : option addr;       (* udp_listener (None when absent) *)
  p_dns6 : option addr; p_dns4 : option addr }.     (* dns_listener (None when absent) *)

Inductive result := Fatal (m : fatal) | OsError (errno : N) | Crash (c : pyexn) | Plan (p : plan).

Definition EADDRINUSE : N := 98.   (* errno.EADDRINUSE (Linux); Props/C15.v checks it against the regenerated Gen/Consts.v *)
Definition EADDRNOTAVAIL : N := 99. (* errno.EADDRNOTAVAIL (Linux); likewise *)

(* ---------- small helpers ---------- *)
Definition LOOP4 : bytes := Eval compute in bytes_of_string "127.0.0.1".
Definition LOOP6 : bytes := Eval compute in bytes_of_string "::1".
Definition ANY4 : bytes := Eval compute in bytes_of_string "0.0.0.0".
Definition ANY6 : bytes := Eval compute in bytes_of_string "::".

Definition is_fam (f : fam) (s : subnet) : bool := fam_eqb (sn_fam s) f.
Definition ns_is_fam (f : fam) (n : ns) : bool := fam_eqb (fst n) f.
Definition nonempty {A} (l : list A) : bool := match l with [] => false | _ => true end.
Definition isSome {A} (o : option A) : bool := match o with Some _ => true | None => false end.
Definition memN (x : N) (l : list N) : bool := existsb (N.eqb x) l.

(* cmdline.py:84-98 — from the --listen items (already through parse_ipport)
   and --disable-ipv6 to (listenip_v6, listenip_v4).  With --listen present the
   families not mentioned stay None and --disable-ipv6 is not consulted. *)
Definition listen_of_options (listen : option (list (fam * bytes * N))) (disable_ipv6 : bool)
  : lspec * lspec :=
  match listen with
  | Some items =>
      fold_left (fun acc it =>
                   match it with
                   | (V6, ip, port) => (LAddr ip port, snd acc)
                   | (V4, ip, port) => (fst acc, LAddr ip port)
                   end) items (LNone, LNone)
  | None => (if disable_ipv6 then LNone else LAuto, LAuto)
  end.

(* range(12300, 9000, -1): 12300, 12299, ..., 9001 *)
Fixpoint down (n : nat) (p : N) : list N :=
  match n with O => [] | S k => p :: down k (p - 1) end.
Definition search_ports : list N := down 3300 12300.

(* MultiListener.bind (client.py:167-194): v6 first, then v4; true = both bound *)
Definition bind_one (e : env) (pr : proto) (f : fam) (a : option addr) : bool :=
  match a with None => true | Some (ip, port) => negb (e pr f ip port) end.
Definition mbind (e : env) (pr : proto) (a6 a4 : option addr) : bool :=
  if bind_one e pr V6 a6 then bind_one e pr V4 a4 else false.

(* MultiListener.bind on a kernel that may refuse: the first bind of the sequence v6, v4
   that is refused with an errno other than EADDRINUSE — unless an earlier one of the
   sequence was busy (its EADDRINUSE is raised first and the second is never tried). *)
Definition refused_at (rf : renv) (pr : proto) (f : fam) (a : option addr) : option (fam * N) :=
  match a with
  | Some (ip, port) => match rf pr f ip port with Some n => Some (f, n) | None => None end
  | None => None
  end.
Definition mrefused (e : env) (rf : renv) (pr : proto) (a6 a4 : option addr) : option (fam * N) :=
  match refused_at rf pr V6 a6 with
  | Some x => Some x
  | None => if bind_one e pr V6 a6 then refused_at rf pr V4 a4 else None
  end.

(* what a refused bind ends in: MultiListener.bind turns EADDRNOTAVAIL on the IPv6 socket into a
   Fatal of its own (as found, too); everything else reaches the `else: raise e` of the loop,
   which the F131 repair turns into a Fatal naming the addresses and the OS error *)
Definition refused_result (fx : fixes) (dns : bool) (f : fam) (errno : N) : result :=
  if fam_eqb f V6 && (errno =? EADDRNOTAVAIL) then Fatal FV6Unavailable
  else if fx_F131 fx then Fatal (if dns then FDnsBindRefused else FBindRefused)
  else OsError errno.

(* client.py:1042-1060 — address and reported port of one family for loop port `port` *)
Definition pick (l : option addr) (port : N) : option addr * N :=
  match l with
  | Some (ip, p) => if p =? 0 then (Some (ip, port), port) else (Some (ip, p), p)
  | None => (None, 0)
  end.

Inductive tcp_res :=
  | TBound (rp6 rp4 : N) (lv6 lv4 : option addr) (used : list N) (last_e : bool)
  | TFail (r : result).

(* client.py:1033-1078.  `used` = None stands for the unbound local used_ports. *)
Fixpoint tcp_search (fx : fixes) (e : env) (rf : renv) (udp : bool) (l6 l4 : option addr)
         (ports : list N) (used : option (list N)) (last_e : bool) : tcp_res :=
  match ports with
  | [] =>                                         (* `if not bound:` :1076 *)
      TFail (if fx_F21 fx then Fatal FPortsBusy
             else if last_e then OsError EADDRINUSE else Crash AssertionError)
  | port :: rest =>
      let (lv6, rp6) := pick l6 port in
      let (lv4, rp4) := pick l4 port in
      match (match mrefused e rf TCP lv6 lv4 with
             | Some x => Some x
             | None => if udp && mbind e TCP lv6 lv4 then mrefused e rf UDP lv6 lv4 else None
             end) with
      | Some (f, errno) => TFail (refused_result fx false f errno)      (* :1105-1111 *)
      | None =>
      if mbind e TCP lv6 lv4 && (if udp then mbind e UDP lv6 lv4 else true) then
        match used with
        | None => TFail (Crash UnboundLocalError)   (* used_ports.append(port) :1067 *)
        | Some u => TBound rp6 rp4 lv6 lv4
                           (u ++ port :: (if fx_F2 fx then [rp6; rp4] else [])) last_e
        end
      else
        match used with
        | None => TFail (Crash UnboundLocalError)   (* used_ports.append(port) :1072 *)
        | Some u => tcp_search fx e rf udp l6 l4 rest (Some (u ++ [port])) true
        end
      end
  end.

Inductive dns_res :=
  | DBound (dp6 dp4 : N) (lv6 lv4 : option addr)
  | DFail (r : result).

Definition at_port (l : option addr) (port : N) : option addr * N :=
  match l with Some (ip, _) => (Some (ip, port), port) | None => (None, 0) end.

(* client.py:1088-1124.  `cur` = dns_listener has been assigned. *)
Fixpoint dns_search (fx : fixes) (e : env) (rf : renv) (l6 l4 : option addr)
         (ports : list N) (used : list N) (cur : bool) (last_e : bool) : dns_res :=
  match ports with
  | [] =>
      DFail (if fx_F21 fx then Fatal FDnsPortsBusy
             else if cur then                      (* dns_listener.print_listening :1121 *)
               (if last_e then OsError EADDRINUSE else Crash AssertionError)
             else Crash UnboundLocalError)
  | port :: rest =>
      if memN port used then dns_search fx e rf l6 l4 rest used cur last_e
      else
        let (lv6, dp6) := at_port l6 port in
        let (lv4, dp4) := at_port l4 port in
        match mrefused e rf UDP lv6 lv4 with
        | Some (f, errno) => DFail (refused_result fx true f errno)      (* :1151-1157 *)
        | None =>
        if mbind e UDP lv6 lv4 then DBound dp6 dp4 lv6 lv4
        else dns_search fx e rf l6 l4 rest (used ++ [port]) true true
        end
  end.

(* any(listenip[0] == sex[1] for sex in subnets_vX) *)
Definition ip_listed (ip : bytes) (l : list subnet) : bool :=
  existsb (fun s => bytes_eqb ip (sn_ip s)) l.
Definition host_exclude (f : fam) (ip : bytes) : subnet :=
  {| sn_fam := f; sn_ip := ip; sn_width := match f with V4 => 32 | V6 => 128 end;
     sn_fport := 0; sn_lport := 0 |}.

(* BaseMethod.assert_features: first unsupported key in list order *)
Definition assert_features (fx : fixes) (av : features)
           (r_udp r_dns r_ipv6 r_ipv4 r_user r_group : bool) : option featkey :=
  if r_udp && negb (f_udp av) then Some KUdp
  else if r_dns && negb (f_dns av) then Some KDns
  else if r_ipv6 && negb (f_ipv6 av) then Some KIpv6
  else if r_ipv4 && negb (f_ipv4 av) then Some KIpv4
  else if r_user && negb (f_user av) then Some KUser
  else if fx_F15 fx && r_group && negb (f_group av) then Some KGroup
  else None.

Definition idopt (i : idspec) : option N :=
  match i with IdExists n => Some n | _ => None end.

(* ---------- client.main up to the call of _main ---------- *)
Definition startup_gen (fx : fixes) (c : cfg) (e : env) (rf : renv) : result :=
  let av := c_feat c in
  if negb (c_remote c) then Fatal FNoRemote else                        (* :822 *)
  let nslist0 := c_ns_hosts c ++ (if c_dns c then c_resolv c else []) in (* :843 *)
  let to_ns := if nonempty nslist0 then c_to_ns c else None in           (* :849-857 *)
  let subnets_v4 := filter (is_fam V4) (c_includes c) in                 (* :863 *)
  let subnets_v6_0 := filter (is_fam V6) (c_includes c) in
  let nslist_v4 := filter (ns_is_fam V4) nslist0 in
  let nslist_v6_0 := filter (ns_is_fam V6) nslist0 in
  if negb (f_ipv4 av) then Crash AssertionError else                     (* :880 *)
  let l4 : option addr :=                                                (* :884 *)
    match c_listen4 c with
    | LAuto => Some (if f_loopback av then LOOP4 else ANY4, 0)
    | LAddr ip p => Some (ip, p)
    | LNone => None
    end in
  let l6 : option addr :=                                                (* :892-901 *)
    match c_listen6 c with
    | LNone => None
    | LAuto => if f_ipv6 av then Some (if f_loopback av then LOOP6 else ANY6, 0) else None
    | LAddr ip p => Some (ip, p)
    end in
  let r_ipv6 := isSome l6 in                                             (* :904 *)
  if r_ipv6 && negb (f_ipv6 av) then Fatal FIpv6Unsupported else         (* :910 *)
  match c_user c with IdMissing => Fatal FUserMissing | _ =>             (* :915-922 *)
  match c_group c with IdMissing => Fatal FGroupMissing | _ =>           (* :924-931 *)
  let user := idopt (c_user c) in
  let group := idopt (c_group c) in
  let drop6 := negb r_ipv6 && nonempty subnets_v6_0 in                   (* :933 *)
  let subnets_v6 := if drop6 then [] else subnets_v6_0 in
  let includes := if drop6 then subnets_v4 else c_includes c in
  let r_udp := f_udp av in                                               (* :939 *)
  let r_dns := nonempty nslist0 in
  let dropns6 := r_dns && negb r_ipv6 && nonempty nslist_v6_0 in         (* :943-950 *)
  let nslist_v6 := if dropns6 then [] else nslist_v6_0 in
  let nslist := if dropns6 then nslist_v4 else nslist0 in
  if r_dns && negb (nonempty nslist) then Fatal FDnsAllV6 else           (* :952 *)
  let excludes0 := if r_ipv6 then c_excludes c                           (* :958 *)
                   else filter (is_fam V4) (c_excludes c) in
  match assert_features fx av r_udp r_dns r_ipv6 true (isSome user) (isSome group) with  (* :968 *)
  | Some k => Fatal (FFeature k)
  | None =>
  (* :991-993 — required.ipv4 is always True *)
  match (match l4 with
         | Some (ip4, _) => Some (if ip_listed ip4 subnets_v4 then excludes0
                                  else excludes0 ++ [host_exclude V4 ip4])
         | None => if fx_F14 fx then Some excludes0 else None   (* None[0] -> TypeError *)
         end) with
  | None => Crash TypeError
  | Some excludes1 =>
  let excludes :=                                                        (* :995-997 *)
    match l6 with
    | Some (ip6, _) => if ip_listed ip6 subnets_v6 then excludes1
                       else excludes1 ++ [host_exclude V6 ip6]
    | None => excludes1
    end in
  let both_explicit :=                                                   (* :1018 *)
    match l6, l4 with
    | Some (_, p6), Some (_, p4) => negb (p6 =? 0) && negb (p4 =? 0)
    | _, _ => false
    end in
  let ports := if both_explicit then [0] else search_ports in
  let used0 := if both_explicit then (if fx_F1 fx then Some [] else None) else Some [] in
  match tcp_search fx e rf r_udp l6 l4 ports used0 false with
  | TFail r => r
  | TBound rp6 rp4 tv6 tv4 used last_e =>
  match (if r_dns then dns_search fx e rf l6 l4 search_ports used false last_e   (* :1085 *)
         else DBound 0 0 None None) with
  | DFail r => r
  | DBound dp6 dp4 dv6 dv4 =>
  (* last minute sanity checks :1133-1150 *)
  if nonempty subnets_v6 && negb r_ipv6 then Crash AssertionError else
  if nonempty subnets_v6 && (rp6 =? 0) then Fatal FV6SubnetsNoListen else
  if nonempty nslist_v6 && negb (r_dns && r_ipv6) then Crash AssertionError else
  if nonempty nslist_v6 && (dp6 =? 0) then Fatal FV6NsNoListen else
  if nonempty subnets_v4 && (rp4 =? 0) then Fatal FV4SubnetsNoListen else
  if nonempty nslist_v4 && (dp4 =? 0) then Fatal FV4NsNoListen else
  Plan {| p_includes := includes; p_excludes := excludes; p_nslist := nslist;
          p_rport6 := rp6; p_rport4 := rp4; p_dport6 := dp6; p_dport4 := dp4;
          p_udp := r_udp; p_user := user; p_group := group;
          p_to_ns := to_ns; p_auto_nets := c_auto_nets c;
          p_tcp6 := tv6; p_tcp4 := tv4;
          p_udp6 := if r_udp then tv6 else None; p_udp4 := if r_udp then tv4 else None;
          p_dns6 := dv6; p_dns4 := dv4 |}
  end end end end end end.

Definition startup_full : cfg -> env -> renv -> result := startup_gen all_fixed.
Definition startup_asfound_full : cfg -> env -> renv -> result := startup_gen no_fixes.
(* kernels that never refuse a bind (every failure is EADDRINUSE) *)
Definition startup (c : cfg) (e : env) : result := startup_full c e no_refusal.
Definition startup_asfound (c : cfg) (e : env) : result := startup_asfound_full c e no_refusal.

(* ---------- environments given as a finite list of busy port ranges ---------- *)
(* (protocol, family, lo, hi): every address, ports lo..hi busy *)
Definition busy_range := (proto * fam * N * N)%type.
Definition proto_eqb (a b : proto) : bool :=
  match a, b with TCP, TCP => true | UDP, UDP => true | _, _ => false end.
Definition env_of_ranges (rs : list busy_range) : env :=
  fun pr f _ port =>
    existsb (fun r => match r with (pr', f', lo, hi) =>
                        proto_eqb pr pr' && fam_eqb f f' && (lo <=? port) && (port <=? hi) end) rs.

(* refusals given as a finite list: (protocol, family, address or every address, lo, hi, errno);
   the first matching entry decides *)
Definition refusal := (proto * fam * option bytes * N * N * N)%type.
Definition renv_of_list (rs : list refusal) : renv :=
  fun pr f ip port =>
    match find (fun r => match r with (pr', f', oip, lo, hi, _) =>
                  proto_eqb pr pr' && fam_eqb f f' && (lo <=? port) && (port <=? hi) &&
                  match oip with Some a => bytes_eqb ip a | None => true end end) rs with
    | Some (_, _, _, _, _, n) => Some n
    | None => None
    end.

(* ---------- the specification side: what "consistent" means ---------- *)
Definition ipv6_active (c : cfg) : bool :=
  f_ipv6 (c_feat c) && match c_listen6 c with LNone => false | _ => true end.

Definition plan_has_v6 (p : plan) : bool :=
  existsb (is_fam V6) (p_includes p) || existsb (is_fam V6) (p_excludes p)
  || existsb (ns_is_fam V6) (p_nslist p)
  || negb (p_rport6 p =? 0) || negb (p_dport6 p =? 0) || isSome (p_tcp6 p) || isSome (p_udp6 p)
  || isSome (p_dns6 p).

(* family-indexed views of cfg and plan *)
Definition LOOP (f : fam) : bytes := match f with V4 => LOOP4 | V6 => LOOP6 end.
Definition c_listen (f : fam) (c : cfg) : lspec := match f with V4 => c_listen4 c | V6 => c_listen6 c end.
Definition p_tcp (f : fam) (p : plan) := match f with V4 => p_tcp4 p | V6 => p_tcp6 p end.
Definition p_udpl (f : fam) (p : plan) := match f with V4 => p_udp4 p | V6 => p_udp6 p end.
Definition p_dnsl (f : fam) (p : plan) := match f with V4 => p_dns4 p | V6 => p_dns6 p end.
Definition p_rport (f : fam) (p : plan) := match f with V4 => p_rport4 p | V6 => p_rport6 p end.
Definition p_dport (f : fam) (p : plan) := match f with V4 => p_dport4 p | V6 => p_dport6 p end.
Definition listeners (f : fam) (p : plan) : list (option addr) := [p_tcp f p; p_udpl f p; p_dnsl f p].

(* well-formed configuration: what options.parse_ipport / the shipped methods guarantee *)
Definition cfg_ok (c : cfg) : Prop :=
  f_ipv4 (c_feat c) = true /\
  forall f ip port, c_listen f c = LAddr ip port -> port <= 65535.

(* C15's "consistent plan" *)
Record consistent (c : cfg) (e : env) (p : plan) : Prop := {
  (* by default the proxy listens on loopback only *)
  cs_loopback : forall f ip port, f_loopback (c_feat c) = true -> c_listen f c = LAuto ->
      In (Some (ip, port)) (listeners f p) -> ip = LOOP f;
  (* each listen address is excluded unless that very address is an include *)
  cs_excluded : forall f ip port, In (Some (ip, port)) (listeners f p) ->
      In (host_exclude f ip) (p_excludes p) \/
      exists s, In s (p_includes p) /\ sn_fam s = f /\ sn_ip s = ip;
  (* IPv6 entries are present exactly when IPv6 is active *)
  cs_v6 : plan_has_v6 p = ipv6_active c;
  (* every family with subnets has bound TCP (and, with UDP on, UDP) listeners on the reported port *)
  cs_subnets : forall f s, In s (p_includes p) -> sn_fam s = f ->
      exists ip, p_rport f p <> 0 /\ p_tcp f p = Some (ip, p_rport f p) /\ e TCP f ip (p_rport f p) = false /\
                 (p_udp p = true -> p_udpl f p = Some (ip, p_rport f p) /\ e UDP f ip (p_rport f p) = false);
  (* every family with name servers has a bound DNS listener on the reported port *)
  cs_ns : forall f n, In n (p_nslist p) -> fst n = f ->
      exists ip, p_dport f p <> 0 /\ p_dnsl f p = Some (ip, p_dport f p) /\ e UDP f ip (p_dport f p) = false;
  (* the reported ports are exactly the ports of the listeners handed to _main (0 = no listener) *)
  cs_reported : forall f,
      match p_tcp f p with Some (_, port) => port = p_rport f p /\ port <> 0 | None => p_rport f p = 0 end /\
      match p_dnsl f p with Some (_, port) => port = p_dport f p /\ port <> 0 | None => p_dport f p = 0 end /\
      match p_udpl f p with Some a => p_udp p = true /\ p_tcp f p = Some a | None => True end;
  (* the DNS listener does not share a port with the TCP listener (of either family) *)
  cs_dns_port : forall f g, p_dport f p <> 0 -> p_dport f p <> p_rport g p;
  (* all ports in range *)
  cs_range : forall f, p_rport f p <= 65535 /\ p_dport f p <= 65535;
  (* nothing is asked of the helper that the method cannot do *)
  cs_features : (p_user p <> None -> f_user (c_feat c) = true) /\
                (p_group p <> None -> f_group (c_feat c) = true) /\
                (p_udp p = true -> f_udp (c_feat c) = true) /\
                (p_nslist p <> [] -> f_dns (c_feat c) = true)
}.

(* options.py:250 as found (before pending_fixes/F11) *)
Definition method_choices_asfound : list bytes := Eval compute in
  map bn ["auto"; "nat"; "tproxy"; "pf"; "ipfw"]%string.
