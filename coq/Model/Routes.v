(* Model/Routes.v — executable model of automatic route discovery:
     sshuttle/server.py:20-132   _ipmatch _ipstr _maskbits _shl _route_netstat
                                 _route_iproute _route_windows _list_routes list_routes
     sshuttle/server.py:314-324  the ROUTES packet
     sshuttle/ssnet.py:382-386   Mux.send (length assert)  -- reused from Model/Wire.v
     sshuttle/client.py:731-762  onroutes / serverready
   Definitions only; proofs live in Proofs/Routes_lemmas.v.

   Scope of the text model: every function that takes a `str` in Python is
   modelled on ASCII strings only (list of bytes < 128), because the only
   producer is `line.decode("ASCII")` in _list_routes (server.py:103), which
   raises UnicodeDecodeError on any byte >= 128 (modelled).  Consequently the
   Unicode-aware parts of `\d`, `str.split`, `int()` are not modelled.

   _list_routes is modelled AS REPAIRED by pending_fixes/F7.diff (lines that
   cannot be interpreted are skipped); the code as found is kept as
   `list_routes_lines_asfound` / `scan_line_asfound`. *)
From Coq Require Import List NArith ZArith Ascii Bool.
From SV Require Import Lib.Bytes Model.Wire Gen.Consts.
Import ListNotations.
Local Open Scope N_scope.

(* ------------------------------------------------------------------ *)
(* Python exceptions as values                                         *)

Inductive exn :=
| ValueError | OSError | IndexError | OverflowError | UnicodeDecodeError
| AssertionError | StructError.

Inductive res (A : Type) : Type :=
| Ok (a : A)
| Crash (e : exn).
Arguments Ok {A} a.
Arguments Crash {A} e.

Definition bind {A B} (r : res A) (f : A -> res B) : res B :=
  match r with Ok a => f a | Crash e => Crash e end.

(* ------------------------------------------------------------------ *)
(* Characters                                                          *)

Definition code (a : ascii) : N := N_of_ascii a.
Definition DOT : ascii := "."%char.
Definition SLASH : ascii := "/"%char.
Definition COMMA : ascii := ","%char.
Definition LF : ascii := "010"%char.
Definition USCORE : ascii := "_"%char.
Definition PLUS : ascii := "+"%char.
Definition MINUS : ascii := "-"%char.
Definition ZERO : ascii := "0"%char.

Definition is_digit (a : ascii) : bool := (48 <=? code a) && (code a <=? 57).
Definition is_octdigit (a : ascii) : bool := (48 <=? code a) && (code a <=? 55).
Definition digit_val (a : ascii) : N := code a - 48.
Definition digit_of (n : N) : ascii := ascii_of_N (48 + n).
(* bytes.strip() / int(bytes): b' \t\n\r\x0b\x0c' *)
Definition is_space_b (a : ascii) : bool :=
  ((9 <=? code a) && (code a <=? 13)) || (code a =? 32).
(* str.isspace() restricted to ASCII: additionally \x1c..\x1f  (str.split(None), int(str)) *)
Definition is_space_s (a : ascii) : bool :=
  is_space_b a || ((28 <=? code a) && (code a <=? 31)).
Definition is_ascii (a : ascii) : bool := code a <? 128.

(* ------------------------------------------------------------------ *)
(* Decimal numbers                                                     *)

Definition digits_val (ds : bytes) : N :=
  fold_left (fun acc a => 10 * acc + digit_val a) ds 0.
Definition octal_val (ds : bytes) : N :=
  fold_left (fun acc a => 8 * acc + digit_val a) ds 0.

(* "%d" % n for n >= 0 *)
Fixpoint dec_aux (fuel : nat) (n : N) (acc : bytes) : bytes :=
  match fuel with
  | O => acc
  | S f => let acc' := digit_of (n mod 10) :: acc in
           if n / 10 =? 0 then acc' else dec_aux f (n / 10) acc'
  end.
Definition dec (n : N) : bytes := dec_aux (S (N.size_nat n)) n [].
Definition decZ (z : Z) : bytes :=
  match z with
  | Zneg p => MINUS :: dec (Npos p)
  | _ => dec (Z.to_N z)
  end.

(* ------------------------------------------------------------------ *)
(* str / bytes helpers                                                 *)

Fixpoint span (p : ascii -> bool) (s : bytes) : bytes * bytes :=
  match s with
  | [] => ([], [])
  | a :: t => if p a then let '(x, y) := span p t in (a :: x, y) else ([], s)
  end.

Fixpoint dropwhile (p : ascii -> bool) (s : bytes) : bytes :=
  match s with
  | [] => []
  | a :: t => if p a then dropwhile p t else s
  end.

Fixpoint rstrip (p : ascii -> bool) (s : bytes) : bytes :=
  match s with
  | [] => []
  | a :: t => match rstrip p t with
              | [] => if p a then [] else [a]
              | r => a :: r
              end
  end.

Definition strip (p : ascii -> bool) (s : bytes) : bytes := rstrip p (dropwhile p s).

(* str.split(None) on an ASCII str: maximal runs of non-whitespace *)
Fixpoint words (s : bytes) : list bytes :=
  match s with
  | [] => []
  | a :: t =>
    if is_space_s a then words t
    else match t with
         | [] => [[a]]
         | b :: _ =>
           if is_space_s b then [a] :: words t
           else match words t with
                | w :: ws => (a :: w) :: ws
                | [] => [[a]]          (* unreachable: t starts with a non-space *)
                end
         end
  end.

(* s.split(c): always at least one field *)
Fixpoint split_on (c : ascii) (s : bytes) : list bytes :=
  match s with
  | [] => [[]]
  | a :: t =>
    if Ascii.eqb a c then [] :: split_on c t
    else match split_on c t with
         | h :: r => (a :: h) :: r
         | [] => [[a]]                 (* unreachable *)
         end
  end.

(* cut at the first c: (before, Some after) or (s, None) *)
Fixpoint break (c : ascii) (s : bytes) : bytes * option bytes :=
  match s with
  | [] => ([], None)
  | a :: t => if Ascii.eqb a c then ([], Some t)
              else let '(h, r) := break c t in (a :: h, r)
  end.

(* s.split(c, n) *)
Fixpoint splitn (c : ascii) (n : nat) (s : bytes) : list bytes :=
  match n with
  | O => [s]
  | S n' => match break c s with
            | (h, None) => [h]
            | (h, Some t) => h :: splitn c n' t
            end
  end.

Fixpoint starts_with (p s : bytes) : bool :=
  match p, s with
  | [], _ => true
  | a :: p', b :: s' => Ascii.eqb a b && starts_with p' s'
  | _ :: _, [] => false
  end.

(* iteration over a binary file object: lines keep their terminating LF *)
Fixpoint readlines (s : bytes) : list bytes :=
  match s with
  | [] => []
  | a :: t =>
    if Ascii.eqb a LF then [a] :: readlines t
    else match readlines t with
         | [] => [[a]]
         | l :: ls => (a :: l) :: ls
         end
  end.

(* ------------------------------------------------------------------ *)
(* CPython int(text, 10): optional surrounding whitespace, optional sign,
   digit ('_'? digit)* ; more than 4300 digits -> ValueError
   (sys.int_info.default_max_str_digits, CPython >= 3.11; see harness) *)

Definition INT_MAX_STR_DIGITS : N := 4300.

(* digit ('_'? digit)* ; prev_us = "the previous character may not be followed by '_'" *)
Fixpoint und_ok (s : bytes) (prev_us : bool) : bool :=
  match s with
  | [] => negb prev_us
  | a :: t =>
    if is_digit a then und_ok t false
    else if Ascii.eqb a USCORE then (if prev_us then false else und_ok t true)
    else false
  end.

Definition py_int (space : ascii -> bool) (s : bytes) : res Z :=
  let s1 := strip space s in
  let '(neg, s2) := match s1 with
                    | a :: r => if Ascii.eqb a PLUS then (false, r)
                                else if Ascii.eqb a MINUS then (true, r)
                                else (false, s1)
                    | [] => (false, s1)
                    end in
  if und_ok s2 true then
    let ds := filter is_digit s2 in
    if INT_MAX_STR_DIGITS <? lenN ds then Crash ValueError
    else let v := Z.of_N (digits_val ds) in Ok (if neg then (- v)%Z else v)
  else Crash ValueError.

(* ------------------------------------------------------------------ *)
(* _ipmatch  (server.py:20-38)

   re.match(r'^(\d+(\.\d+(\.\d+(\.\d+)?)?)?)(?:/(\d+))?$', ipstr), ASCII input.
   Grammar recognised (deterministic: after a maximal digit run only '.', '/'
   or the end can follow, so greedy matching never needs to back-track):
       ip    ::= digits ( '.' digits ( '.' digits ( '.' digits )? )? )?
       match ::= ip ( '/' digits )? END      END ::= end of string | LF end-of-string
   ('$' without re.MULTILINE also matches just before a final newline.)
   Result: the list of 1..4 digit groups and the optional width digits. *)

Fixpoint dotted (fuel : nat) (s : bytes) : option (list bytes * bytes) :=
  let '(d, r) := span is_digit s in
  match d with
  | [] => None
  | _ :: _ =>
    match fuel, r with
    | S f, c :: r' =>
      if Ascii.eqb c DOT then
        match dotted f r' with
        | Some (ps, rest) => Some (d :: ps, rest)
        | None => None
        end
      else Some ([d], r)
    | _, _ => Some ([d], r)
    end
  end.

Definition re_end (r : bytes) : bool :=
  match r with
  | [] => true
  | [c] => Ascii.eqb c LF
  | _ => false
  end.

Definition ipmatch_re (s : bytes) : option (list bytes * option bytes) :=
  match dotted 3 s with
  | None => None
  | Some (ps, r) =>
    match r with
    | [] => Some (ps, None)
    | c :: r' =>
      if Ascii.eqb c SLASH then
        let '(w, r'') := span is_digit r' in
        match w with
        | [] => None
        | _ :: _ => if re_end r'' then Some (ps, Some w) else None
        end
      else if re_end r then Some (ps, None) else None
    end
  end.

(* socket.inet_aton on 'd+.d+.d+.d+' (glibc): a part with a leading 0 and more
   digits is octal (and must consist of octal digits); each part <= 255. *)
Definition aton_part (p : bytes) : option N :=
  let v := match p with
           | a :: (_ :: _) as r =>
             if Ascii.eqb a ZERO then
               (if forallb is_octdigit r then Some (octal_val r) else None)
             else Some (digits_val p)
           | _ => Some (digits_val p)
           end in
  match v with
  | Some n => if n <=? 255 then Some n else None
  | None => None
  end.

Definition inet_aton4 (ps : list bytes) : res N :=
  match map aton_part ps with
  | [Some a; Some b; Some c; Some d] => Ok (((a * 256 + b) * 256 + c) * 256 + d)
  | _ => Crash OSError
  end.

Definition s_default : bytes := ["d"; "e"; "f"; "a"; "u"; "l"; "t"]%char.
Definition s_zero_net : bytes := ["0"; "."; "0"; "."; "0"; "."; "0"; "/"; "0"]%char.
Definition s0 : bytes := [ZERO].

(* int(g[4] or 32): g[4] is a non-empty run of ASCII digits when present *)
Definition int_of_digits (ds : bytes) : res Z :=
  if INT_MAX_STR_DIGITS <? lenN ds then Crash ValueError
  else Ok (Z.of_N (digits_val ds)).

Definition ipmatch (ipstr : bytes) : res (option (N * Z)) :=
  let s := if bytes_eqb ipstr s_default then s_zero_net else ipstr in
  match ipmatch_re s with
  | None => Ok None
  | Some (ps, w) =>
    bind (match w with None => Ok 32%Z | Some ds => int_of_digits ds end) (fun width =>
    let '(ps4, width') :=
      match ps with
      | [_] => (ps ++ [s0; s0; s0], Z.min width 8)
      | [_; _] => (ps ++ [s0; s0], Z.min width 16)
      | [_; _; _] => (ps ++ [s0], Z.min width 24)
      | _ => (ps, width)
      end in
    bind (inet_aton4 ps4) (fun ip => Ok (Some (ip, width'))))
  end.

(* ------------------------------------------------------------------ *)
(* _shl, _maskbits  (server.py:49-60) *)

(* int(2 ** bits): exact for bits >= 0; for bits < 0 Python computes a float
   power, 0 < 2.0**bits < 1 (or 0.0), truncated to 0 -- unless converting the
   exponent to float overflows (|bits| >= 2^1024 - 2^970: OverflowError). *)
Definition FLOAT_OVF : Z := (2 ^ 1024 - 2 ^ 970)%Z.

Definition py_shl (n bits : Z) : res Z :=
  if (0 <=? bits)%Z then Ok (n * 2 ^ bits)%Z
  else if (bits <=? - FLOAT_OVF)%Z then Crash OverflowError
  else Ok (n * 0)%Z.

Definition shl (n bits : Z) : Z := (n * 2 ^ bits)%Z.     (* _shl for bits >= 0 *)

(* for i in range(32): if netmask[0] & _shl(1, i): return 32 - i *)
Fixpoint maskbits_loop (fuel : nat) (i : Z) (m : Z) : Z :=
  match fuel with
  | O => 0%Z
  | S f => if negb (Z.land m (shl 1 i) =? 0)%Z then (32 - i)%Z
           else maskbits_loop f (i + 1)%Z m
  end.

Definition maskbits (netmask : option (N * Z)) : Z :=
  match netmask with
  | None => 32%Z
  | Some (m, _) => maskbits_loop 32 0%Z (Z.of_N m)
  end.

(* ------------------------------------------------------------------ *)
(* _route_netstat, _route_iproute  (server.py:63-79)
   Result: Ok None            -> ipw is None (line is skipped by _list_routes)
           Ok (Some (ipw, m)) -> ipw, mask
           Crash e            -> the extractor raised *)

Definition extract_result := res (option ((N * Z) * Z)).

Definition route_netstat (line : bytes) : extract_result :=
  match words line with
  | c0 :: _ :: c2 :: _ =>
    bind (ipmatch c0) (fun ipw =>
    bind (ipmatch c2) (fun maskw =>
    let mask := maskbits maskw in
    Ok (match ipw with Some x => Some (x, mask) | None => None end)))
  | _ => Ok None
  end.

Definition route_iproute (line : bytes) : extract_result :=
  match words line with
  | [] => Crash IndexError                       (* line.split(None, 1)[0] *)
  | ipm :: _ =>
    if negb (existsb (Ascii.eqb SLASH) ipm) then Ok None
    else match split_on SLASH ipm with
         | [ip; mask] =>
           bind (ipmatch ip) (fun ipw =>
           bind (py_int is_space_s mask) (fun m =>
           Ok (match ipw with Some x => Some (x, m) | None => None end)))
         | _ => Crash ValueError                  (* ip, mask = ipm.split('/') *)
         end
  end.

(* ------------------------------------------------------------------ *)
(* _route_windows  (server.py:82-93): one line of `route PRINT -4`
       if " On-link " not in line: return None, None
       dest, net_mask = re.split(r'\s+', line.strip())[:2]
       if net_mask == "255.255.255.255": return None, None
       for p in ('127.', '0.', '224.', '169.254.'): if dest.startswith(p): return None, None
       ipw = _ipmatch(dest); mask = _maskbits(_ipmatch(net_mask))
   On an ASCII str, re's \s and str.strip()/str.split() use the same white-space
   class (is_space_s), and line.strip() is not empty here (it contains "On-link"),
   so re.split(r'\s+', line.strip()) = line.split() = words line.  With fewer than
   two words the tuple assignment raises ValueError. *)

(* p in s *)
Fixpoint contains (p s : bytes) : bool :=
  starts_with p s || match s with [] => false | _ :: t => contains p t end.

Definition s_onlink : bytes := [" "; "O"; "n"; "-"; "l"; "i"; "n"; "k"; " "]%char.
Definition s_bcast : bytes :=
  ["2"; "5"; "5"; "."; "2"; "5"; "5"; "."; "2"; "5"; "5"; "."; "2"; "5"; "5"]%char.
Definition s_224dot : bytes := ["2"; "2"; "4"; "."]%char.
Definition s_169_254dot : bytes := ["1"; "6"; "9"; "."; "2"; "5"; "4"; "."]%char.
Definition win_skip_prefixes : list bytes :=
  [["1"; "2"; "7"; "."]%char; ["0"; "."]%char; s_224dot; s_169_254dot].

Definition win_skip (dest : bytes) : bool :=
  existsb (fun p => starts_with p dest) win_skip_prefixes.

Definition route_windows (line : bytes) : extract_result :=
  if negb (contains s_onlink line) then Ok None
  else match words line with
       | dest :: net_mask :: _ =>
         if bytes_eqb net_mask s_bcast then Ok None
         else if win_skip dest then Ok None
         else
           bind (ipmatch dest) (fun ipw =>
           bind (ipmatch net_mask) (fun maskw =>
           let mask := maskbits maskw in
           Ok (match ipw with Some x => Some (x, mask) | None => None end)))
       | _ => Crash ValueError                    (* dest, net_mask = [...][:2] *)
       end.

(* ------------------------------------------------------------------ *)
(* _list_routes  (server.py:96-114) *)

Definition AF_INET : Z := 2%Z.      (* socket.AF_INET (same on Linux and BSD) *)
Definition AF_INET6 : Z := 10%Z.    (* socket.AF_INET6 on Linux *)

Record route := mkRoute { r_family : Z; r_ip : bytes; r_width : Z }.

Definition dotted_quad (ip : N) : bytes :=
  dec (ip / 16777216) ++ DOT :: dec ((ip / 65536) mod 256) ++ DOT ::
  dec ((ip / 256) mod 256) ++ DOT :: dec (ip mod 256).

(* width = min(ipw[1], mask); ip = ipw[0] & _shl(_shl(1, width) - 1, 32 - width);
   struct.pack('!I', ip) needs 0 <= ip < 2^32 *)
Definition route_of (ipw : N * Z) (mask : Z) : res route :=
  let width := Z.min (snd ipw) mask in
  bind (py_shl 1 width) (fun s1 =>
  bind (py_shl (s1 - 1)%Z (32 - width)%Z) (fun s2 =>
  let ip := Z.land (Z.of_N (fst ipw)) s2 in
  if ((0 <=? ip) && (ip <? 4294967296))%Z
  then Ok (mkRoute AF_INET (dotted_quad (Z.to_N ip)) width)
  else Crash StructError)).

Definition is_blank (line : bytes) : bool := forallb is_space_b line.  (* not line.strip() *)
Definition all_ascii (line : bytes) : bool := forallb is_ascii line.

(* as found: every exception of decode / extract_route / the mask arithmetic escapes *)
Definition scan_line_asfound (extract : bytes -> extract_result) (line : bytes)
  : res (option route) :=
  if is_blank line then Ok None
  else if negb (all_ascii line) then Crash UnicodeDecodeError
  else match extract line with
       | Crash e => Crash e
       | Ok None => Ok None
       | Ok (Some (ipw, mask)) => bind (route_of ipw mask) (fun r => Ok (Some r))
       end.

(* as repaired (pending_fixes/F7.diff):
     try: ipw, mask = extract_route(line.decode("ASCII"))
     except (ValueError, OSError, IndexError): continue
     if not ipw or mask < 0: continue                                   *)
Definition caught (e : exn) : bool :=
  match e with
  | ValueError | UnicodeDecodeError | OSError | IndexError => true
  | _ => false
  end.

Definition scan_line (extract : bytes -> extract_result) (line : bytes)
  : res (option route) :=
  if is_blank line then Ok None
  else if negb (all_ascii line) then Ok None     (* UnicodeDecodeError is a ValueError *)
  else match extract line with
       | Crash e => if caught e then Ok None else Crash e
       | Ok None => Ok None
       | Ok (Some (ipw, mask)) =>
         if (mask <? 0)%Z then Ok None
         else bind (route_of ipw mask) (fun r => Ok (Some r))
       end.

Fixpoint scan_lines (scan : bytes -> res (option route)) (lines : list bytes)
  : res (list route) :=
  match lines with
  | [] => Ok []
  | l :: ls =>
    bind (scan l) (fun o =>
    bind (scan_lines scan ls) (fun rs =>
    Ok (match o with Some r => r :: rs | None => rs end)))
  end.

(* ------------------------------------------------------------------ *)
(* list_routes  (server.py:117-132): sys.platform == 'win32' -> `route PRINT -4`
   (RouteWin); otherwise `ip route` if which('ip'), else `netstat -rn` if
   which('netstat'), else no routes (NoTool) *)

Inductive tool := IpRoute | Netstat | NoTool | RouteWin.

Definition extractor (t : tool) : bytes -> extract_result :=
  match t with
  | IpRoute => route_iproute
  | Netstat => route_netstat
  | NoTool => fun _ => Ok None
  | RouteWin => route_windows
  end.

Definition s_0dot : bytes := ["0"; "."]%char.
Definition s_127dot : bytes := ["1"; "2"; "7"; "."]%char.

Definition keep_route (r : route) : bool :=
  negb (starts_with s_0dot (r_ip r)) && negb (starts_with s_127dot (r_ip r)).

Definition raw_routes (t : tool) (out : bytes) : res (list route) :=
  match t with
  | NoTool => Ok []
  | _ => scan_lines (scan_line (extractor t)) (readlines out)
  end.

Definition raw_routes_asfound (t : tool) (out : bytes) : res (list route) :=
  match t with
  | NoTool => Ok []
  | _ => scan_lines (scan_line_asfound (extractor t)) (readlines out)
  end.

Definition list_routes (t : tool) (out : bytes) : res (list route) :=
  bind (raw_routes t out) (fun rs => Ok (filter keep_route rs)).

Definition list_routes_asfound (t : tool) (out : bytes) : res (list route) :=
  bind (raw_routes_asfound t out) (fun rs => Ok (filter keep_route rs)).

(* ------------------------------------------------------------------ *)
(* The ROUTES packet  (server.py:321-324) and Mux.send  (ssnet.py:382-386) *)

(* '%d,%s,%d\n' % r *)
Definition render_route (r : route) : bytes :=
  decZ (r_family r) ++ COMMA :: r_ip r ++ COMMA :: decZ (r_width r) ++ [LF].

Definition render_routes (rs : list route) : bytes := concat (map render_route rs).

Definition routes_frame (rs : list route) : frame := mkFrame 0 CMD_ROUTES (render_routes rs).

(* mux.send(0, CMD_ROUTES, b(routepkt)): AssertionError when len > 65535 *)
Definition send_routes (rs : list route) : res bytes :=
  match encode (routes_frame rs) with
  | EncOk b => Ok b
  | EncAssertLen => Crash AssertionError
  | EncStructError => Crash StructError
  end.

(* the server's start-up up to and including the ROUTES message (auto_nets on) *)
Definition server_advertise (t : tool) (out : bytes) : res bytes :=
  bind (list_routes t out) send_routes.

(* ------------------------------------------------------------------ *)
(* client onroutes  (client.py:731-762) *)

Record autonet := mkNet { n_family : Z; n_ip : bytes; n_width : Z }.
  (* fw.auto_nets entry (family, ip, width, 0, 0) *)

(* one line of the payload; None = ignored (no listener of that family) *)
Definition onroutes_line (v4 v6 : bool) (line : bytes) : res (option autonet) :=
  match splitn COMMA 2 line with
  | [fam; ip; wid] =>
    bind (py_int is_space_b fam) (fun family =>
    bind (py_int is_space_b wid) (fun width =>
    if negb (all_ascii ip) then Crash UnicodeDecodeError
    else if (family =? AF_INET)%Z && negb v4 then Ok None
    else Ok (Some (mkNet family ip width))))
  | _ => Crash ValueError                          (* unpacking 3 values *)
  end.

(* returns the networks appended to fw.auto_nets so far and how the loop ended *)
Fixpoint onroutes_lines (v4 v6 : bool) (lines : list bytes) : list autonet * res unit :=
  match lines with
  | [] => ([], Ok tt)
  | l :: ls =>
    match l with
    | [] => onroutes_lines v4 v6 ls               (* if not line: continue *)
    | _ :: _ =>
      match onroutes_line v4 v6 l with
      | Crash e => ([], Crash e)
      | Ok o =>
        let '(ns, r) := onroutes_lines v4 v6 ls in
        (match o with Some n => n :: ns | None => ns end, r)
      end
    end
  end.

Record client_outcome := mkOutcome {
  added : list autonet;        (* appended to fw.auto_nets, in order *)
  fw_started : bool;           (* serverready() -> fw.start() was reached *)
  failed : option exn          (* exception escaping onroutes *)
}.

Definition onroutes (auto_nets v4 v6 : bool) (payload : bytes) : client_outcome :=
  if auto_nets then
    match onroutes_lines v4 v6 (split_on LF (strip is_space_b payload)) with
    | (ns, Ok _) => mkOutcome ns true None
    | (ns, Crash e) => mkOutcome ns false (Some e)
    end
  else mkOutcome [] true None.

(* Mux.got_packet(0, CMD_ROUTES, payload) on the client; the frame is first
   decoded by the receiver of Model/Wire.v *)
Definition client_receive (auto_nets v4 v6 : bool) (wire : bytes) : option client_outcome :=
  match decode wire with
  | ([f], [], RxOk) =>
    if (f_cmd f =? CMD_ROUTES) then Some (onroutes auto_nets v4 v6 (f_data f)) else None
  | _ => None
  end.

(* specification side: a route as the client should record it *)
Definition net_of_route (r : route) : autonet := mkNet (r_family r) (r_ip r) (r_width r).
