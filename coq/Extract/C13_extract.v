(* Extraction of the Dialogue model for the C13 correspondence driver.
   ExtrOcamlBasic only; no Extract Constant / Extract Inductive of our own. *)
From Coq Require Import ExtrOcamlBasic.
From SV Require Import Lib.Bytes Lib.ExtractBase Lib.DialogueLib Model.Dialogue.
Extraction "c13_model.ml" extract_anchor render_plan sethostip render_hosts helper_main
  show_outcome expected_events valid_plan host_ok py_int strip split_on chunks decZ.
