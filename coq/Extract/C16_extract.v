(* Extraction of the Args model for the C16 correspondence driver.
   ExtrOcamlBasic only; no Extract Constant / Extract Inductive of our own. *)
From Coq Require Import ExtrOcamlBasic.
From SV Require Import Lib.Bytes Lib.ExtractBase Model.Args Model.SshArgv.
Extraction "c16_model.ml" extract_anchor parse_subnetport parse_subnetport_asfound parse_ipport parse_hostport
  subnet_groups ipport_groups argparse_type inet_aton print_v4 parse_v4_strict parse_v6
  print_v6 py_ip_str getaddrinfo gai_port effective merge_args tbl_lookup render4 render6
  connect_argv listen_dispatch.
