(* Extraction of the hosts-file model for the C14 correspondence driver.
   ExtrOcamlBasic only; no Extract Constant / Extract Inductive of our own. *)
From Coq Require Import ExtrOcamlBasic.
From SV Require Import Lib.Bytes Lib.ExtractBase Model.HostsFile Gen.Consts.
Extraction "c14_model.ml" extract_anchor step run_k rewrite_fs restore_fs hop_step run_sched
  fs_init fs_set fs_get start new_content marker marked_line norm_lines file_lines own_lines
  kept_lines has_marker univ_nl dec sort_entries hm_set map_of is_final fs_fresh hm_after hm_get last_addr utf8_ok rewrite_dec restore_dec.
