(* Extraction of the Startup model for the C15 correspondence driver.
   ExtrOcamlBasic only; no Extract Constant / Extract Inductive of our own. *)
From Coq Require Import ExtrOcamlBasic.
From SV Require Import Lib.Bytes Lib.ExtractBase Model.Startup Model.StartupMethods.
Extraction "c15_model.ml" extract_anchor startup_gen startup startup_asfound env_of_ranges renv_of_list
  listen_of_options method_features documented_methods accepted_by method_choices_b
  ipv6_active plan_has_v6 search_ports.
