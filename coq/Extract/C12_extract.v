(* Extraction of the client life-cycle model for the C12 correspondence driver.
   ExtrOcamlBasic only; no Extract Constant / Extract Inductive of our own. *)
From Coq Require Import ExtrOcamlBasic.
From SV Require Import Lib.Bytes Lib.ExtractBase Model.Wire Model.ClientLife Model.FwInit Gen.Consts.
Extraction "c12_model.ml" extract_anchor run main_body handshake sync_ok done_ok
  fw_init try_order cand_result.
