(* Extraction of the firewall-rule model for the C03 correspondence driver.
   ExtrOcamlBasic only; no Extract Constant / Extract Inductive of our own. *)
From Coq Require Import ExtrOcamlBasic.
From SV Require Import Lib.Bytes Lib.ExtractBase Model.FwRules Model.FwWalk Model.FwPfHook.
Extraction "c03_model.ml" extract_anchor
  sort_desc sort_asc key_leb
  nat_cmds tproxy_cmds nft_cmds pf_rules
  print_ipt_cmd print_nft_cmd print_pf port_of
  nat_verdict nat_verdict_of tproxy_verdict tproxy_verdict_of tproxy_marked tproxy_diverted
  nft_verdict nft_verdict_of pf_verdict pf_verdict_of pf_state_verdict_of
  spec_interceptb ns_hit ns_hit32 f18_class nat_owner_okb wf_planb e_matches.
