(* Extraction of the datagram-core model (Model/Dgram.v) for the C11 correspondence driver.
   ExtrOcamlBasic only; no Extract Constant / Extract Inductive of our own.
   C10 and C11 share the model, so both extract the same functions. *)
From Coq Require Import ExtrOcamlBasic.
From SV Require Import Lib.Bytes Lib.ExtractBase Lib.DgramLib Model.Chan Model.Dgram Model.DgramSys Gen.Consts.
Extraction "c11_model.ml" extract_anchor cstep sstep c_init s_init dgram_hdr split3 undec dec
  all_fixed as_found fcmd_code ystep_fx y_init.
