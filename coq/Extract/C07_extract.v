(* Extraction of the Wire model for the C07 correspondence driver.
   ExtrOcamlBasic only; no Extract Constant / Extract Inductive of our own. *)
From Coq Require Import ExtrOcamlBasic.
From SV Require Import Lib.Bytes Lib.ExtractBase Model.Wire Model.WireStart Gen.Consts.
Extraction "c07_model.ml" extract_anchor encode decode rx_feed_all tx_run hs_run
  hs_run_single_read hs_spec client_sync server_sync flush_all.
