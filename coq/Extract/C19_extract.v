(* Extraction of the Hosts model for the C19 correspondence driver.
   ExtrOcamlBasic only; no Extract Constant / Extract Inductive of our own. *)
From Coq Require Import ExtrOcamlBasic.
From SV Require Import Lib.Bytes Lib.ExtractBase Model.Hosts.
Extraction "c19_model.ml" extract_anchor
  found_hosts out_text read_host_cache read_host_cache_asfound check_etc_hosts is_ip utf8 short_name
  hw_run records tail_of
  onhostlist onhostlist_asfound client_run valid_name valid_ip
  helper_line helper_stdin helper_reads helper_run hosts_line hosts_lines.
