(* Extraction of the Assemble model for the C18 correspondence driver.
   ExtrOcamlBasic only; no Extract Constant / Extract Inductive of our own. *)
From Coq Require Import ExtrOcamlBasic.
From SV Require Import Lib.Bytes Lib.ExtractBase Model.Wire Model.Assemble Model.ShQuote Gen.Consts.
Extraction "c18_model.ml" extract_anchor
  dec parse_int_line zdec zundec strip
  stub_package stub_upload boot_read_len table_src stub_remote_run stub_remote_spec stream_of
  render_options eval_options opt_ok remote_options
  client_startup writes_before_sync writes_after_sync server_main_start stdout_of
  client_sync server_sync ping_frame hs_spec
  pycmd sh_words ps_words sh_quote.
