(* Extraction of the stream-core model (shared by C01, C02, C06, C08, C09). *)
From Coq Require Import ExtrOcamlBasic.
From SV Require Import Lib.Bytes Lib.ExtractBase Model.Wire Model.Chan Model.Stream Model.StreamQuiet Model.StreamLoop.
Extraction "c01_model.ml" extract_anchor world0 step run proxy_pre_select next_channel quiescentb quiescent_eagerb
  sleepsb sleepsb_asfound sleeps_eagerb_v sleep_okb_v no_late_stopb iter_events iter_events_asfound ans_realb_v
  presel_pass_v pass_events iter_rest ans_real_po sleeps_of fd_cand.
