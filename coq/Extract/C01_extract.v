(* Extraction of the stream-core model (shared by C01, C02, C06, C08, C09). *)
From Coq Require Import ExtrOcamlBasic.
From SV Require Import Lib.Bytes Lib.ExtractBase Model.Wire Model.Chan Model.Stream Model.StreamQuiet.
Extraction "c01_model.ml" extract_anchor world0 step run proxy_pre_select next_channel quiescentb quiescent_eagerb.
