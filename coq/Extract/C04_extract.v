(* Extraction of the firewall life-cycle model for the C04 correspondence
   driver.  ExtrOcamlBasic only; no Extract Constant / Extract Inductive of our own. *)
From Coq Require Import ExtrOcamlBasic.
From SV Require Import Lib.Bytes Lib.ExtractBase Model.FwLife Model.FwLog Model.FwEnv.
Extraction "c04_model.ml" extract_anchor exec parse_cmd argv pfop_stdin join_lines session
  k_empty chain_in_listing
  chain_in_output listing
  sessionL log_call log_swallows subclass env_once env_from env_ok
  session_e wenv_none session_sig_asfound.
