(* Extraction of the Addr model for the C05 correspondence driver.
   ExtrOcamlBasic only; no Extract Constant / Extract Inductive of our own. *)
From Coq Require Import ExtrOcamlBasic.
From SV Require Import Lib.Bytes Lib.ExtractBase Model.Addr Gen.Consts.
Extraction "c05_model.ml" extract_anchor sockaddr_in sockaddr_in6 original_dst recv_udp_dst recv_udp_kernel cmsg_space
  fmt4 fmt6 fmt6_ntop parse4 parse6 py_int dec hex connect_payload new_channel udp_frame udp_req
  pf_request helper_step firewall_command pf_reply_decode pf_get_tcp_dstip onaccept_tcp
  e2e_nat e2e_text e2e_udp readline_lim readline_limit_code.
