(* Extraction of the route-discovery model for the C17 correspondence driver.
   ExtrOcamlBasic only; no Extract Constant / Extract Inductive of our own. *)
From Coq Require Import ExtrOcamlBasic.
From SV Require Import Lib.Bytes Lib.ExtractBase Model.Wire Model.Routes Gen.Consts.
Extraction "c17_model.ml" extract_anchor ipmatch_re ipmatch py_int is_space_s is_space_b
  maskbits route_netstat route_iproute route_windows raw_routes raw_routes_asfound list_routes
  list_routes_asfound render_routes send_routes server_advertise onroutes client_receive
  dec decZ words readlines.
